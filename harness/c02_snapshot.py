"""C02 — structural snapshot of a (scenario, planning-problem set) through PUBLIC accessors.

The snapshot is plain JSON and is at the same time the input format of the Lean model `CR.PBF` (lean/CRModel/CRProto.lean).
Every real-valued quantity is stored as `float(x).hex()` (bit pattern of the double); sets are sorted lists; enum members are
their NAME; optional data that is absent is `None`.

Not part of the snapshot (the protobuf format has no field for it / it is derived data): lanelet centre line, distance caches,
obstacle-to-lanelet assignments, TrafficLight.color / .shape, TrafficLightCycle.active, meta information / history of dynamic
obstacles, the file's date stamp.
"""
from __future__ import annotations

import numpy as np

ZERO = (0.0).hex()


def D(x):
    return float(x).hex()


def P(p):
    return {"x": D(p[0]), "y": D(p[1])}


def _name(e):
    return None if e is None else e.name


def _sorted_ids(s):
    return sorted(int(x) for x in s) if s is not None else []


def shape(s):
    from commonroad.geometry.shape import Circle, Polygon, Rectangle, ShapeGroup
    if isinstance(s, Rectangle):
        return {"rect": {"l": D(s.length), "w": D(s.width), "c": P(s.center), "o": D(s.orientation)}}
    if isinstance(s, Circle):
        return {"circ": {"r": D(s.radius), "c": P(s.center)}}
    if isinstance(s, Polygon):
        return {"poly": {"v": [P(v) for v in s.vertices]}}
    if isinstance(s, ShapeGroup):
        return {"group": {"s": [shape(x) for x in s.shapes]}}
    raise TypeError(f"unknown shape {type(s)}")


def int_eoi(t):
    from commonroad.common.util import Interval
    if isinstance(t, Interval):
        return {"interval": {"a": int(t.start), "b": int(t.end)}}
    return {"exact": {"i": int(t)}}


def float_eoi(v):
    from commonroad.common.util import Interval
    if isinstance(v, Interval):          # AngleInterval is a subclass
        return {"interval": {"a": D(v.start), "b": D(v.end)}}
    return {"exact": {"d": D(v)}}


def state(st, field_order):
    """Populated attributes of a state (`used_attributes`), float attributes in protobuf descriptor order."""
    used = list(st.used_attributes)
    out = {"cls": type(st).__name__, "t": int_eoi(st.time_step), "pos": None, "attrs": []}
    if "position" in used:
        pos = st.position
        out["pos"] = {"point": {"p": P(pos)}} if isinstance(pos, np.ndarray) else {"shape": {"s": shape(pos)}}
    rest = [a for a in used if a not in ("time_step", "position")]
    key = {n: i for i, n in enumerate(field_order)}
    rest.sort(key=lambda a: (key.get(a, 10 ** 6), a))
    out["attrs"] = [[a, float_eoi(getattr(st, a))] for a in rest]
    return out


SIGNAL_SLOTS = ["horn", "indicator_left", "indicator_right", "braking_lights", "hazard_warning_lights",
                "flashing_blue_lights"]


def signal(s):
    if s is None:
        return None
    out = {"t": None}
    if hasattr(s, "time_step") and s.time_step is not None:
        out["t"] = int_eoi(s.time_step)
    for a in SIGNAL_SLOTS:
        v = getattr(s, a) if hasattr(s, a) else None
        out[a] = None if v is None else bool(v)
    return out


EMPTY_SIGNAL = {"t": None, **{a: None for a in SIGNAL_SLOTS}}


def occupancies(p):
    return {"t0": int(p.initial_time_step), "occ": [{"t": int_eoi(o.time_step), "shape": shape(o.shape)} for o in p.occupancy_set]}


def location(loc):
    from commonroad.scenario.scenario import Location
    if loc is None:
        loc = Location()                 # the writer's documented substitute for "no location"
    out = {"geo_name_id": int(loc.geo_name_id), "lat": D(loc.gps_latitude), "lon": D(loc.gps_longitude), "geo": None, "env": None}
    g = loc.geo_transformation
    if g is not None:
        out["geo"] = {"ref": g.geo_reference, "x": D(g.x_translation), "y": D(g.y_translation), "rot": D(g.z_rotation),
                      "scaling": D(g.scaling)}
    e = loc.environment
    if e is not None:
        t = None
        if e.time is not None:
            t = {"h": int(e.time.hours), "m": int(e.time.minutes), "day": e.time.day, "month": e.time.month, "year": e.time.year}
        out["env"] = {"time": t, "time_of_day": _name(e.time_of_day), "weather": _name(e.weather),
                      "underground": _name(e.underground)}
    return out


def snapshot(sc, pps, header=None, field_order=None):
    """header: effective author/affiliation/source/tags/location (writer argument if given, else the scenario's)."""
    from commonroad.prediction.prediction import SetBasedPrediction, TrajectoryPrediction
    if field_order is None:
        from c02_gen import tables
        field_order = tables()["state_fields"]
    h = header or {}
    author = h.get("author") if h.get("author") is not None else sc.author
    affiliation = h.get("affiliation") if h.get("affiliation") is not None else sc.affiliation
    source = h.get("source") if h.get("source") is not None else sc.source
    tags = h.get("tags") if h.get("tags") is not None else sc.tags
    loc = h.get("location") if h.get("location") is not None else sc.location
    out = {"info": {"version": sc.scenario_id.scenario_version, "benchmark_id": str(sc.scenario_id), "author": author,
                    "affiliation": affiliation, "source": source, "dt": D(sc.dt)},
           "tags": sorted(t.name for t in tags) if tags is not None else None,
           "location": location(loc)}
    ln = sc.lanelet_network
    lanelets = []
    for l in ln.lanelets:
        stop = None
        if l.stop_line is not None:
            s = l.stop_line
            stop = {"start": P(s.start), "end": P(s.end), "lm": _name(s.line_marking),
                    "signs": _sorted_ids(s.traffic_sign_ref), "lights": _sorted_ids(s.traffic_light_ref)}
        lanelets.append({
            "id": int(l.lanelet_id), "left": [P(v) for v in l.left_vertices], "right": [P(v) for v in l.right_vertices],
            "lm_left": _name(l.line_marking_left_vertices), "lm_right": _name(l.line_marking_right_vertices),
            "pred": [int(x) for x in l.predecessor], "succ": [int(x) for x in l.successor],
            "adj_left": None if l.adj_left is None else int(l.adj_left),
            "adj_left_same": None if l.adj_left_same_direction is None else bool(l.adj_left_same_direction),
            "adj_right": None if l.adj_right is None else int(l.adj_right),
            "adj_right_same": None if l.adj_right_same_direction is None else bool(l.adj_right_same_direction),
            "stop": stop, "types": sorted(t.name for t in l.lanelet_type), "one_way": sorted(t.name for t in l.user_one_way),
            "bidir": sorted(t.name for t in l.user_bidirectional), "signs": _sorted_ids(l.traffic_signs),
            "lights": _sorted_ids(l.traffic_lights)})
    out["lanelets"] = lanelets
    out["signs"] = [{"id": int(s.traffic_sign_id),
                     "elements": [{"country": type(e.traffic_sign_element_id).__name__, "name": e.traffic_sign_element_id.name,
                                   "values": [str(v) for v in e.additional_values]} for e in s.traffic_sign_elements],
                     "first": _sorted_ids(s.first_occurrence), "pos": P(s.position),
                     "virtual": None if s.virtual is None else bool(s.virtual)} for s in ln.traffic_signs]
    lights = []
    for t in ln.traffic_lights:
        cyc = t.traffic_light_cycle
        lights.append({"id": int(t.traffic_light_id), "cycle": [{"state": e.state.name, "dur": int(e.duration)} for e in cyc.cycle_elements],
                       "pos": P(t.position), "offset": None if cyc.time_offset is None else int(cyc.time_offset),
                       "direction": _name(t.direction), "active": None if t.active is None else bool(t.active)})
    out["lights"] = lights
    out["intersections"] = [{"id": int(i.intersection_id),
                             "incomings": [{"id": int(c.incoming_id), "lanelets": _sorted_ids(c.incoming_lanelets),
                                            "right": _sorted_ids(c.successors_right), "straight": _sorted_ids(c.successors_straight),
                                            "left": _sorted_ids(c.successors_left),
                                            "left_of": None if c.left_of is None else int(c.left_of)} for c in i.incomings],
                             "crossings": _sorted_ids(i.crossings)} for i in ln.intersections]

    def series(o):
        # an entry the reader could not tell from "nothing set" comes back as Python None: shown as the all-unset signal state
        return [signal(s) or dict(EMPTY_SIGNAL) for s in o.signal_series] if o.signal_series is not None else []

    out["static"] = [{"id": int(o.obstacle_id), "type": o.obstacle_type.name, "shape": shape(o.obstacle_shape),
                      "init": state(o.initial_state, field_order), "sig0": signal(o.initial_signal_state), "series": series(o)}
                     for o in sc.static_obstacles]
    dyn = []
    for o in sc.dynamic_obstacles:
        p = o.prediction
        pred = None
        if isinstance(p, TrajectoryPrediction):
            pred = {"traj": {"t0": int(p.trajectory.initial_time_step),
                             "states": [state(s, field_order) for s in p.trajectory.state_list], "shape": shape(p.shape)}}
        elif isinstance(p, SetBasedPrediction):
            pred = {"set": {"p": occupancies(p)}}
        dyn.append({"id": int(o.obstacle_id), "type": o.obstacle_type.name, "shape": shape(o.obstacle_shape),
                    "init": state(o.initial_state, field_order), "pred": pred, "sig0": signal(o.initial_signal_state),
                    "series": series(o)})
    out["dynamic"] = dyn
    out["env"] = [{"id": int(o.obstacle_id), "type": o.obstacle_type.name, "shape": shape(o.obstacle_shape)}
                  for o in sc.environment_obstacle]
    out["phantom"] = [{"id": int(o.obstacle_id), "pred": None if o.prediction is None else occupancies(o.prediction)}
                      for o in sc.phantom_obstacle]
    plist = []
    for p in pps.planning_problem_dict.values():
        gl = p.goal.lanelets_of_goal_position
        goals = []
        for i, s in enumerate(p.goal.state_list):
            goals.append({"state": state(s, field_order), "lanelets": [int(x) for x in gl[i]] if gl is not None and i in gl else []})
        plist.append({"id": int(p.planning_problem_id), "init": state(p.initial_state, field_order), "goals": goals})
    out["pps"] = plist
    return out


# ------------------------------------------------------------------------------------------------ oracle: expected read-back content

INIT_ATTRS = ["orientation", "velocity", "acceleration", "yaw_rate", "slip_angle"]


def expect_initial(st):
    """C01/C02: unset attributes of initial states read back as 0 (the reader's documented default)."""
    st = dict(st)
    if st["pos"] is None:
        st["pos"] = {"point": {"p": {"x": ZERO, "y": ZERO}}}
    have = dict((a, v) for a, v in st["attrs"])
    order = ["orientation", "velocity", "yaw_rate", "slip_angle", "acceleration"]   # protobuf descriptor order
    st["attrs"] = [[a, have.get(a, {"exact": {"d": ZERO}})] for a in order] + [[a, v] for a, v in st["attrs"] if a not in order]
    return st


def strip_cls(x):
    """Oracle form: the state CLASS is not content (C01: 'which attributes a state populates'); the populated float
    attributes become a dict name -> value (so that a difference is reported under the attribute's name)."""
    if isinstance(x, dict):
        out = {k: strip_cls(v) for k, v in x.items() if k != "cls"}
        if "cls" in x and "attrs" in x:
            out["attrs"] = {a: v for a, v in x["attrs"]}
        return out
    if isinstance(x, list):
        return [strip_cls(v) for v in x]
    return x


def expected(snap):
    """What the property demands of the read-back snapshot, given the snapshot of the original."""
    import copy
    e = copy.deepcopy(snap)
    for k in ("static", "dynamic", "pps"):
        for o in e[k]:
            o["init"] = expect_initial(o["init"])
    for k in ("static", "dynamic"):
        for o in e[k]:
            if o["sig0"] == EMPTY_SIGNAL:          # a signal state without any slot carries no information: reads back as None
                o["sig0"] = None
    if e["tags"] is None:
        e["tags"] = []
    return canon_order(strip_cls(e))


def canon_order(s):
    """Element order inside the containers of a scenario is not content: sort by id."""
    s = dict(s)
    for k in ("lanelets", "signs", "lights", "intersections", "static", "dynamic", "env", "phantom", "pps"):
        s[k] = sorted(s[k], key=lambda o: o["id"])
    return s


def diff(a, b, path=""):
    """List of (path, original, read-back) for every difference."""
    out = []
    if isinstance(a, dict) and isinstance(b, dict):
        for k in sorted(set(a) | set(b)):
            if k not in a or k not in b:
                out.append((f"{path}.{k}", a.get(k, "<missing>"), b.get(k, "<missing>")))
            else:
                out += diff(a[k], b[k], f"{path}.{k}")
    elif isinstance(a, list) and isinstance(b, list):
        if len(a) != len(b):
            out.append((f"{path}.len", a if len(a) < 6 else len(a), b if len(b) < 6 else len(b)))
        else:
            for i, (x, y) in enumerate(zip(a, b)):
                out += diff(x, y, f"{path}[{i}]")
    elif a != b or type(a) is not type(b):
        out.append((path, a, b))
    return out
