"""C19 generators: scenario specs, planning problems, parameter settings (all randomness from the rng passed in)."""
from c19_build import LM_NAMES, OBST_TYPES_DYN, OBST_TYPES_ENV

Q = [0.0, 0.25, 0.5, 1.0, 1.5, 2.0, 3.0, -1.0, -2.5]


def g_shape(r, cx=None, cy=None, depth=0):
    cx = r.choice(Q) * 4 if cx is None else cx
    cy = r.choice(Q) * 2 if cy is None else cy
    k = r.choice(["rect", "rect", "circ", "poly", "group"] if depth == 0 else ["rect", "circ", "poly"])
    if k == "rect":
        return ["rect", r.choice([1.0, 2.0, 4.5]), r.choice([0.5, 1.0, 2.0]), cx, cy, r.choice([0.0, 0.3, -1.2, 3.0])]
    if k == "circ":
        return ["circ", r.choice([0.5, 1.0, 2.5]), cx, cy]
    if k == "poly":
        n = r.choice([3, 4, 5])
        import math
        rad = r.choice([1.0, 2.0])
        return ["poly", [[cx + rad * math.cos(2 * math.pi * i / n), cy + rad * math.sin(2 * math.pi * i / n)] for i in range(n)]]
    return ["group", [g_shape(r, cx + i, cy, 1) for i in range(r.choice([1, 2, 3]))]]


def g_obstacle_shape(r):
    """Obstacle shapes are given in the obstacle frame (centre 0, orientation 0)."""
    k = r.choice(["rect", "rect", "rect", "circ", "poly"])
    if k == "rect":
        if r.random() < 0.15:  # off-centre / rotated reference of the shape in the obstacle frame
            return ["rect", r.choice([2.0, 4.5]), r.choice([1.0, 2.0]), 0.5, -0.25, r.choice([0.0, 0.3])]
        return ["rect", r.choice([2.0, 4.5, 1.0]), r.choice([1.0, 2.0]), 0.0, 0.0, 0.0]
    if k == "circ":
        return ["circ", r.choice([0.5, 1.5]), 0.0, 0.0]
    return ["poly", [[-1.0, -0.5], [1.0, -0.5], [1.5, 0.0], [1.0, 0.5], [-1.0, 0.5]]]


def g_pos(r, unc=0.2):
    if r.random() < unc:
        return g_shape(r, depth=1)
    return [r.choice(Q) * 4, r.choice(Q) * 2]


def g_orient(r, pu=0.12):
    return r.choice([[0.1, 0.4], [-0.3, 0.2]]) if r.random() < pu else r.choice([0.0, 0.5, -2.0, 3.1, 0.4, -1.0])


def g_vel(r, pu=0.12):
    return r.choice([[1.0, 4.0], [20.0, 30.0]]) if r.random() < pu else r.choice([0.0, 1.0, 2.0, 12.0, 20.0])


def g_signal(r):
    if r.random() < 0.3:
        return {}
    return {k: r.random() < 0.5 for k in ["horn", "indicator_left", "indicator_right", "braking_lights",
                                          "hazard_warning_lights", "flashing_blue_lights"] if r.random() < 0.7}


def g_set_pred(r, t0):
    """Occupancy sets with strictly increasing, non-overlapping time steps / intervals starting at t0 (+ gap)."""
    occs = []
    t = t0 + r.choice([0, 0, 0, 1, 2, 3])
    for _ in range(r.choice([1, 2, 3, 5])):
        if r.random() < 0.2:
            ln = r.choice([0, 1, 2])
            occs.append({"t": [t, t + ln], "shape": g_shape(r)})
            t += ln + 1
        else:
            occs.append({"t": t, "shape": g_shape(r)})
            t += 1
        if r.random() < 0.3:
            t += r.choice([1, 2])  # hole in the prediction
    init0 = occs[0]["t"][0] if isinstance(occs[0]["t"], list) else occs[0]["t"]
    if r.random() < 0.25:
        r.shuffle(occs)  # the list need not be ordered by time
    return {"kind": "set", "init": init0, "occs": occs}
    return {"kind": "set", "init": occs[0]["t"][0] if isinstance(occs[0]["t"], list) else occs[0]["t"], "occs": occs}


def g_traj_gap(r):
    """Steps between the initial state and the first predicted state of a trajectory prediction: Trajectory.initial_time_step =
    initial_state.time_step + 1 + gap. 0 = the usual contiguous obstacle; 1, 2 = a short gap; 4, 7 = a gap that can be longer
    than the trajectory itself (1..6 states). The obstacle reports no occupancy and no state inside the gap."""
    return r.choice([1, 2, 4, 7]) if r.random() < 0.4 else 0


def with_gap(r, pred):
    g = g_traj_gap(r)
    if g:
        pred["gap"] = g
    return pred


def g_obstacle(r, oid, role=None, focus=False):
    """focus: a dynamic car with rectangle shape and trajectory prediction (the only kind that can get an icon)."""
    if focus:
        o = g_obstacle(r, oid, "dynamic")
        n = r.choice([2, 3, 6])
        o.update(type=r.choice(["CAR", "TRUCK", "BUS", "BICYCLE", "TAXI", "PARKED_VEHICLE"]), shape=["rect", 4.5, 2.0, 0.0, 0.0, 0.0],
                 pred=with_gap(r, {"kind": "traj", "states": [{"pos": g_pos(r, 0.4), "orient": g_orient(r, 0.4), "vel": g_vel(r, 0.3)} for _ in range(n)]}))
        if r.random() < 0.4:
            o["init"].update(pos=g_pos(r, 0.5), orient=g_orient(r, 0.5))
        o["sigs"] = [g_signal(r) for _ in range(n)]
        o["sig0"] = g_signal(r)
        return o
    role = role or r.choice(["static", "dynamic", "dynamic", "dynamic", "dynamic", "phantom", "env"])
    if role == "env":
        return {"id": oid, "role": role, "type": r.choice(OBST_TYPES_ENV), "shape": g_shape(r)}
    if role == "phantom":
        return {"id": oid, "role": role, "pred": g_set_pred(r, r.choice([0, 0, 1, 3, 7])) if r.random() < 0.85 else None}
    t0 = r.choice([0, 0, 0, 1, 2, 5, 9])
    o = {"id": oid, "role": role, "type": r.choice(OBST_TYPES_DYN), "shape": g_obstacle_shape(r),
         "init": {"t": t0, "pos": g_pos(r, 0.15), "orient": g_orient(r), "vel": g_vel(r)}}
    if r.random() < 0.5:
        o["sig0"] = g_signal(r)
    if role == "dynamic":
        k = r.choice(["none", "traj", "traj", "traj", "set", "set"])
        if k == "traj":
            n = r.choice([1, 2, 3, 6])
            o["pred"] = with_gap(r, {"kind": "traj", "states": [{"pos": g_pos(r, 0.1), "orient": g_orient(r), "vel": g_vel(r)} for _ in range(n)]})
            if r.random() < 0.5:
                o["sigs"] = [g_signal(r) for _ in range(r.choice([0, 1, n, n + 1]))]
        elif k == "set":
            o["pred"] = g_set_pred(r, t0 + 1)
        if r.random() < 0.15:
            o["history"] = {"pos": [r.choice(Q), r.choice(Q)], "orient": 0.0, "vel": 1.0}
    elif r.random() < 0.3:
        o["sigs"] = [g_signal(r) for _ in range(r.choice([0, 1, 3]))]
    return o


def g_network(r):
    spec = {"lanelets": [], "signs": [], "lights": [], "inters": []}
    shape = r.choice(["none", "one", "pair", "pair", "grid", "grid", "opp"])
    if shape == "none":
        return spec
    rows, cols = {"one": (1, 1), "pair": (2, 1), "grid": (2, 2), "opp": (2, 1)}[shape]
    ln, w = r.choice([0.1, 5.0, 20.0, 30.0]), r.choice([1.0, 3.5])
    lid = lambda i, j: 10 + i * 10 + j  # noqa: E731
    zed = r.choice([None, None, None, 0.0, 2.5])
    for j in range(cols):
        for i in range(rows):
            l = {"id": lid(i, j), "x0": j * ln, "y0": -i * w, "len": ln, "width": w, "n": r.choice([2, 2, 3, 5]), "z": zed,
                 "lmL": r.choice(LM_NAMES), "lmR": r.choice(LM_NAMES)}
            if i > 0:
                l["adjL"], l["adjLsame"] = lid(i - 1, j), shape != "opp"
            if i + 1 < rows:
                l["adjR"], l["adjRsame"] = lid(i + 1, j), shape != "opp"
            if j > 0:
                l["pred"] = [lid(i, j - 1)]
            if j + 1 < cols:
                l["succ"] = [lid(i, j + 1)]
            if r.random() < 0.3:
                l["stop"] = r.choice(LM_NAMES[:4])
            spec["lanelets"].append(l)
    ids = [l["id"] for l in spec["lanelets"]]
    for k in range(r.choice([0, 0, 1, 2])):
        sid = 500 + k
        host = r.choice(spec["lanelets"])
        host.setdefault("signs", []).append(sid)
        elem, vals = r.choice([("MAX_SPEED", ["13.9"]), ("STOP", []), ("YIELD", []), ("PRIORITY", []),
                               ("MIN_SPEED", ["5"]), ("GREEN_ARROW", [])])
        spec["signs"].append({"id": sid, "elem": elem, "vals": vals,
                              "pos": None if r.random() < 0.1 else [host["x0"] + r.choice([0.0, 1.0]), host["y0"] + 2.0],
                              "first": [host["id"]] if r.random() < 0.7 else [], "virtual": r.random() < 0.2})
    states = ["RED", "RED_YELLOW", "GREEN", "YELLOW", "INACTIVE"]
    for k in range(r.choice([0, 0, 1, 2])):
        tid = 600 + k
        host = r.choice(spec["lanelets"])
        host.setdefault("lights", []).append(tid)
        # the XSD requires a cycle for every traffic light; the position is optional
        cyc = [[r.choice(states), r.choice([1, 2, 5])] for _ in range(r.choice([1, 2, 4]))]
        spec["lights"].append({"id": tid, "pos": None if r.random() < 0.1 else [host["x0"] + ln, host["y0"] + r.choice([0.0, 2.0])],
                               "cycle": cyc,
                               "offset": r.choice([0, 1, 7]), "active": r.random() < 0.85, "cyc_active": r.random() < 0.85,
                               "direction": r.choice(["ALL", "LEFT", "STRAIGHT", "RIGHT", "LEFT_STRAIGHT"])})
    if len(ids) >= 2 and r.random() < 0.5:
        incs = []
        for k in range(r.choice([1, 2])):
            pool = list(ids)
            r.shuffle(pool)
            inc = {"id": 700 + k, "lanelets": pool[:1]}
            rest = pool[1:]
            for key in ("right", "straight", "left"):
                if rest and r.random() < 0.6:
                    inc[key] = [rest.pop()]
            incs.append(inc)
        if len(incs) == 2 and r.random() < 0.5:
            incs[0]["left_of"] = incs[1]["id"]
        spec["inters"].append({"id": 800, "incomings": incs,
                               "crossings": [r.choice(ids)] if r.random() < 0.4 else []})
    return spec


def g_pps(r):
    out = []
    for k in range(r.choice([0, 1, 1, 2])):
        goals = []
        for _ in range(r.choice([1, 1, 2])):
            g = {"t": [r.choice([0, 5]), r.choice([5, 30])]}
            if r.random() < 0.8:
                g["pos"] = g_shape(r)
            if r.random() < 0.4:
                g["orient"] = [-0.5, 0.5]
            goals.append(g)
        out.append({"id": 900 + k, "init": {"t": r.choice([0, 3]), "pos": [r.choice(Q) * 4, r.choice(Q)],
                                           "orient": r.choice([0.0, 1.0]), "vel": r.choice([0.0, 10.0])}, "goals": goals})
    return out


def occupied_steps(o):
    """(initial step | None, sorted steps covered by the prediction) of an obstacle spec."""
    init = o["init"]["t"] if "init" in o else None
    p = o.get("pred")
    steps = set()
    if p and p.get("kind") == "traj":
        first = init + 1 + p.get("gap", 0)
        steps.update(range(first, first + len(p["states"])))
    elif p:
        for oc in p["occs"]:
            steps.update(range(oc["t"][0], oc["t"][1] + 1) if isinstance(oc["t"], list) else [oc["t"]])
    return init, sorted(steps)


def quiet_points(spec):
    """Time steps strictly inside the horizon of some obstacle at which that obstacle has no occupancy: the gap between the
    initial state and a prediction that starts later than the next step, holes of a set-based prediction."""
    pts = set()
    for o in spec.get("obstacles", []):
        init, steps = occupied_steps(o)
        if not steps:
            continue
        lo = init if init is not None else steps[0]
        pts.update(t for t in range(lo + 1, steps[-1]) if t not in steps)
    return sorted(pts)


def boundary_classes(spec):
    """For every obstacle whose horizon has a gap or a hole: the classes of begin steps around its boundaries
    (before / at the initial step, inside the gap, first / inner / last prediction step, holes, after the end), each as a list."""
    out = []
    for o in spec.get("obstacles", []):
        init, steps = occupied_steps(o)
        if not steps:
            continue
        lo = init if init is not None else steps[0]
        quiet = [t for t in range(lo + 1, steps[-1]) if t not in steps]
        if not quiet:
            continue
        gap = [t for t in quiet if t < steps[0]]
        holes = [t for t in quiet if t > steps[0]]
        # the steps without occupancy inside the horizon (gap, holes) count twice
        out += [c for c in ([lo - 1], [lo] if init is not None else [], gap, gap, steps[:1], steps[1:-1], steps[-1:],
                            holes, holes, [steps[-1] + 1]) if c]
    return out


def horizon_points(spec):
    """Interesting time steps: around every boundary of every obstacle's horizon — the initial time step, the first and the
    final step of the prediction (before, at, after each) — and every step of a gap / hole inside a horizon."""
    pts = {0}
    for o in spec.get("obstacles", []):
        init, steps = occupied_steps(o)
        traj = (o.get("pred") or {}).get("kind") == "traj"
        ts = ([init] if init is not None else []) + (steps[:1] + steps[-1:] if traj else steps)
        for t in ts:
            pts.update([t - 1, t, t + 1])
    pts.update(quiet_points(spec))
    return sorted(pts)
