"""C12 — equality and hashing of scenario elements follow their contract.
model: lean/CRModel/EqHash.lean; theorems: lean/CRProps/C12.lean; generators / builders: harness/c12_specs.py."""
from __future__ import annotations

import copy
import glob
import inspect
import json
import os

import c12_hist as H
import c12_specs as S
from common import CORPUS_DIR, call

RULE = ("for every class with a hand-written __eq__/__hash__ (52 constructors in 38 class families: shapes, intervals, Time, 14 state "
        "classes, SignalState, MetaInformationState, Trajectory, Occupancy, both predictions, 4 obstacle classes, StopLine, "
        "Lanelet, MapInformation, LaneletNetwork, sign element/sign, light cycle element/cycle/light, incoming/intersection, "
        "area border/area, GoalRegion, PlanningProblem(+Set), GeoTransformation, Environment, Location, ScenarioID, Scenario) "
        "instances are generated from JSON descriptions through the public constructors (each optional parameter omitted "
        "with p~0.3, all omitted with p=0.2; reals on a 1/16 grid, short decimals, arbitrary doubles and 10^3..10^5 magnitudes; "
        "id sets with members k, k+8, k+16 that collide in CPython's set tables); one case = one instance with its battery: "
        "itself, deepcopy, an independently built twin, the same twin after a read-only history (every public property, str/repr/"
        "hash, the queries by time step / id / point on it and on all nested objects) against x and against its earlier deepcopy, "
        "every set/dict insertion order permuted (all sets at all depths at "
        "once), and EVERY constructor parameter changed alone to another valid value (reals by 1.7e-10 .. 1), plus "
        "correspondence-only probes (2e-11 shifts, None vs empty container, reversed lists, shifted trajectory) and, for the "
        "hashability model, 3 ill-typed probes per instance (one constructor argument replaced by None / [1] / [[1]] / "
        "{'k': [1]} where the constructor accepts it); on half of the instances HISTORIES between building and comparing "
        "(harness/c12_hist.py): for 2 random constructor attributes the value a constructor stores for a changed argument is "
        "handed to the property setter (set-change, compared with the freshly constructed object and with the original), set "
        "and restored, written into the container the getter returns in place (change / restore), the same object handed "
        "back (set-same), an unacceptable value offered (set-bad: a failing operation), a setter of a nested object; 2 "
        "mutating methods with canned arguments applied to two twins (translate_rotate, add_predecessor, append_state, "
        "fill_with_defaults, convert_to_2d, cleanup_*, ...); pickle / copy.copy / dataclasses.replace; the rarely used "
        "builders (list form of add_objects + replace_lanelet_network, create_from_lanelet_list, add_planning_problem, empty "
        "state / signal state filled attribute by attribute) and, for EVERY Scenario / LaneletNetwork, the construction routes "
        "(container-level vs member-level add, single elements vs whole network, shuffled element order, an extra element "
        "added and removed again through the scenario / its lanelet network in all four combinations; "
        "state / signal state filled attribute by attribute); int instead of integral floats and numpy scalars instead of "
        "Python numbers; MEMORY LAYOUT of every array-valued attribute at any depth (harness/c12_specs.py with_layout / relayout / "
        "layout_alias): the same entries column-major (np.asfortranarray), as the transposed view np.array([xs, ys]).T, as "
        "every-second-row / inner-column / negative-stride views into a larger buffer and as big-endian doubles, on one side "
        "and on both sides differently (must be equal with equal hashes), the object after the identity motion "
        "translate_rotate((0, 0), 0) / rotate_translate_local (same entries, arrays re-allocated by the library; also starting "
        "from a re-laid twin), and pairs whose (n, 2) arrays hold different points in the same bytes (row-major a vs column-"
        "major a.reshape(2, n).T and the converse; must be unequal); ids from 0; magnitudes up to 1e6; the table of all 377 setters and public methods of the 52 classes "
        "(harness/c12_dimensions.json) is compared with the working tree on every run (unknown entry => exit 2); non-trivial = every case (>= 1 perturbed pair); distinct = distinct "
        "canonical JSON of the instance description")
ASSUMPTIONS = [
    "Python's hash of tuple/frozenset/str/int/float/None/Enum is a function of the ==-class of its argument and collides on "
    "unequal arguments only with negligible probability (generators avoid the systematic collisions hash(-1)==hash(-2), hash('')==hash(0))",
    "np.around(x, 10) / round(x, 10) put two doubles that differ by more than 1.5e-10 (|x| <= 1e5) into different buckets and "
    "leave a double with <= 4 decimals and the same double + 2e-11 in one bucket (the model rounds the exact rational)",
    "copy.deepcopy reproduces every attribute value (x == deepcopy(x) is C12_eq_refl plus this; exercised on every instance); "
    "set/dict semantics of CPython",
    "which outermost forms make hash(), tuple(), frozenset(), dict.items(), json.dumps, str and np.asarray(..).astype(float) raise "
    "is the table `step` of CRModel/HashKey.lean (tabulated against CPython/numpy; compared with the real hash() on every "
    "generated instance and every ill-typed probe); the elements of an ndarray are not represented (iterating one is "
    "modelled as a failure, which no builder of the tables does); a numeric string under convArr counts as a failure",
    "admitted attribute types (`hrow`) describe what the public constructors store for valid arguments, None defaults "
    "included; every generated instance is checked to be well-typed in the model",
    "kwargs-only extension attributes of TrajectoryPrediction / DynamicObstacle (**kwargs) are not constructor parameters of the property",
    "histories: whenever two objects show identical values through all public getters they must be equal and hash alike; "
    "a value handed to a setter is the value a constructor stores for that attribute (a raw None / list that only the "
    "constructor normalises is outside 'built through the public constructors'); setters that are not constructor-visible "
    "(Lanelet.distance, *_obstacles_on_lanelet, obstacle_role, Rectangle.vertices, wheelbase_lengths) are outside the quantifier; "
    "container edits that take objects are exercised as construction routes of Scenario / LaneletNetwork (add through either "
    "level, add + remove of an unreferenced extra element); what removal does to references is C09/C10",
    "memory layout: what an array-valued attribute IS for the property are its entries a[i][j] as the public getter shows them "
    "(ndarray.tolist()); strides, buffer ownership and byte order are not attribute values, so layout twins are inside "
    "'identical attribute values'; the model receives the entries only, hence predicts equal / unequal from them alone; "
    "float32 / integer dtypes are not layouts (numeric-int / numeric-np cover integral numbers)",
    "mutable default arguments shared between instances (TrafficSignElement.additional_values=[], Scenario.scenario_id, "
    "LaneletNetwork.information) are never edited in place by the generator: an in-place edit of one changes every instance "
    "built with the default, which keeps them equal (no C12 verdict)",
    "not demanded: order of list-valued attributes that the code compares as sets; None vs the empty container as a "
    "constructor-visible difference (several classes document None as 'no ids')",
]
EXTRA_MODULES = ["CRProps.T12"]      # translator tie: Gen.SrcC12 (extracted from the __eq__/__hash__ sources every run) = hand model
TRUSTED = ["harness/translate/src_c12.py: structural extraction of the compared / hashed attributes and their syntactic forms from the "
           "ast of every __eq__ / __hash__ (symbolic evaluation: substitution of locals, unrolled loops over literal lists, inlined "
           "base-class calls); lean/CRModel/PyExtC12.lean: what each extracted idiom denotes; getters are read as the fields they return (checked by tie_getters where both names occur)",
           "harness/c12_specs.py: JSON description -> object builders and the two getter-based encoders (untyped for ==/hash "
           "agreement, typed for hashability) that feed the model"]
REQUIRED_BUCKETS = ["cls:" + c for c in S.CLASSES] + ["pair:self", "pair:deepcopy", "pair:twin", "pair:permuted", "pair:perturbed",
                                                        "defaults-only", "probe:sub-threshold", "probe:none-vs-empty",
                                                        "probe:reversed-list", "table-row", "hash:well-typed",
                                                        "illtyped:raises", "illtyped:completes", "pair:after-reads", "pair:after-reads:deepcopy",
                                                        "history:reads", "dimension-table"] + \
    ["history:" + k for k in ("set-change", "set-restore", "set-same", "set-bad", "inplace-change", "inplace-restore", "nested-set",
                              "call", "pickle", "copy", "replace", "alt-entry", "numeric-int", "numeric-np",
                              "identical-getter-values", "route:member-level", "route:single-objects", "route:shuffled",
                              "route:cleanup-only")] + \
    ["route:identical-getter-values:" + k for k in ("member-level", "single-objects", "shuffled", "add-remove")] + \
    ["history:" + k for k in ("layout", "layout-both", "identity-motion", "layout-alias", "layout-alias:values-differ",
                              "identical-getter-values:layout", "identical-getter-values:layout-both",
                              "identical-getter-values:identity-motion")] + \
    ["layout:2d:" + k for k in S.LAYOUTS_2D] + ["layout:1d:" + k for k in S.LAYOUTS_1D]
WORKERS = {"quick": 4, "thorough": 8}

QUICK_PER_CLASS = 48


# ------------------------------------------------------------------------------------------------ implementation runner

def _eq(a, b):
    r = call(lambda: a == b)
    return r


def _bool(res):
    return bool(res[1]) if res[0] == "ok" else None


def observe(x, y):
    """what the real code says about the pair: ==, != in both directions, the two hashes"""
    out = {}
    out["eq_xy"], out["eq_yx"] = call(lambda: x == y), call(lambda: y == x)
    out["ne_xy"] = call(lambda: x != y)
    out["hx"], out["hy"] = call(hash, x), call(hash, y)
    return out


def try_build(desc):
    r = call(S.build, desc)
    return r[1] if r[0] == "ok" else None


# ------------------------------------------------------------------------------------------------ model side

_TABLES = {}


def tables(ctx):
    if not _TABLES:
        _TABLES.update(ctx.driver.ask("C12", "tables", {}))
    return _TABLES


_CTORS = []


def ctors(ctx):
    if not _CTORS:
        _CTORS.extend(ctx.driver.ask("C12", "ctors", {}))
    return _CTORS


def model_hash_ok(ctx, typed):
    """[typed encoding] -> [{"typed": bool, "ok": bool}]: is the instance well-typed, does hash() complete (Lean model)"""
    if not typed:
        return []
    return ctx.driver.ask("C12", "hash_ok", {"vs": typed})


def model_pairs(ctx, pairs):
    """[(ex, ey)] -> [{"eq": bool, "hash": bool}] from the Lean model (one line)"""
    if not pairs:
        return []
    return ctx.driver.ask("C12", "pairs", {"ps": [[a, b] for a, b in pairs]})


# ------------------------------------------------------------------------------------------------ one case

def clsname(desc):
    return desc["cls"]


class Pair:
    def __init__(self, kind, y_desc, attr=None, demand=None):
        self.kind, self.y_desc, self.attr, self.demand = kind, y_desc, attr, demand  # demand: "equal" | "unequal" | None


def make_battery(ctx, dx, x):
    """descriptions of the partners of x"""
    r = ctx.rng
    cls = clsname(dx)
    spec = S.SPECS[cls]
    out = [Pair("twin", dx, demand="equal"), Pair("after-reads", dx, demand="equal")]
    dk = S.reorder_kwargs(r, dx)
    if dk:
        out.append(Pair("reordered-kwargs", dk, demand="equal"))
    if S.count_sets(dx):
        out.append(Pair("permuted", S.permute_sets(r, dx), demand="equal"))
    snap_x = _none_is_empty(S.encode(x, True))
    for pname in spec.param_names(dx):
        got = None
        for _ in range(6):
            dy = S.perturb_param(r, dx, pname)
            if dy is None or dy == dx:
                continue
            y = try_build(dy)
            if y is None:
                continue
            if _none_is_empty(S.encode(y, True)) == snap_x:
                continue  # the constructor normalised the difference away (or None became the empty container, which
                #           several classes document as the same value): no constructor-visible difference
            got = dy
            break
        if got is None:
            ctx.excluded += 1
            ctx.tag("no-single-change:" + ("coupled" if pname in spec.coupled else "normalised"))
            continue
        out.append(Pair("perturbed", got, pname, "unequal"))
    # correspondence-only probes (the property text demands nothing about them)
    p = S.sub_threshold(r, dx)
    if p:
        out.append(Pair("probe:sub-threshold", p[0], "/".join(map(str, p[1]))))
    p = S.none_vs_empty(r, dx)
    if p:
        out.append(Pair("probe:none-vs-empty", p[0], p[1]))
    p = S.reorder_lists(r, dx)
    if p:
        out.append(Pair("probe:reversed-list", p[0], p[1]))
    if cls == "Trajectory":
        out.append(Pair("probe:shifted", S.shift_trajectory(dx), "initial_time_step+state_list"))
    return out


def _none_is_empty(e):
    """snapshot with None and the empty container identified (Obstacle, Lanelet, Intersection ... read None as 'no ids')"""
    if e is None or e == []:
        return None
    if isinstance(e, list):
        return [_none_is_empty(v) for v in e]
    if isinstance(e, dict) and "f" in e:
        return {"c": e["c"], "f": [_none_is_empty(v) for v in e["f"]]}
    return e


def fail(ctx, key, what, cls, dx, dy=None, attr=None, kind=None, case=None):
    seen = ctx.__dict__.setdefault("seen_keys", {})
    seen[key] = seen.get(key, 0) + 1
    if seen[key] == 1:  # one replayable case per finding key and worker (the cap of 200 must not hide other keys)
        ctx.fail(key, what, case if case is not None else {"cls": cls, "x": dx, "y": dy, "attr": attr, "kind": kind})


def culprit(x, y=None):
    """class of the innermost nested object that is responsible: whose hash raises (y None), or that is equal to its
    counterpart but hashes differently — so that a finding is keyed by the class that has the defect, not by every container"""
    xs = list(S.walk_objects(x))
    if y is None:
        for o in reversed(xs):
            if call(hash, o)[0] == "err":
                return type(o).__name__
        return type(x).__name__
    ys = list(S.walk_objects(y))
    if len(xs) == len(ys):
        for a, b in reversed(list(zip(xs, ys))):
            e, ha, hb = call(lambda: a == b), call(hash, a), call(hash, b)
            if e[0] == "ok" and e[1] and ha[0] == hb[0] == "ok" and ha[1] != hb[1]:
                return type(a).__name__
    return type(x).__name__


def oracle_pair(ctx, cls, dx, dy, x, y, ob, kind, attr, demand, case=None):
    """the property sentences, evaluated on the real objects"""
    site = f"C12/{cls}"
    for side, h in (("x", ob["hx"]), ("y", ob["hy"])):
        if h[0] == "err" and kind.startswith("history/"):
            who = culprit(x if side == "x" else y)
            fail(ctx, f"C12/{who}/hash-raises/{h[1]}/{kind}", f"hash({who}(...)) raises {h[2]} ({kind})", cls, dx, dy, None, "hash", case=case)
        elif h[0] == "err" and not (side == "x" and kind != "self"):
            fail(ctx, f"{site}/hash-raises/{h[1]}", f"hash({cls}(...)) raises {h[2]}", cls, dx if side == "x" else dy, None, None, "hash", case=case)
    for name in ("eq_xy", "eq_yx", "ne_xy"):
        if ob[name][0] == "err":
            fail(ctx, f"{site}/eq-raises/{ob[name][1]}", f"{name} raises {ob[name][2]} ({kind} {attr or ''})", cls, dx, dy, attr, kind, case=case)
            return
    e1, e2, ne = bool(ob["eq_xy"][1]), bool(ob["eq_yx"][1]), bool(ob["ne_xy"][1])
    if e1 != e2:
        fail(ctx, f"{site}/not-symmetric", f"x == y is {e1} but y == x is {e2} ({kind} {attr or ''})", cls, dx, dy, attr, kind, case=case)
    if ne == e1:
        fail(ctx, f"{site}/ne-inconsistent", f"x == y is {e1} and x != y is {ne}", cls, dx, dy, attr, kind, case=case)
    if demand == "equal" and not (e1 and e2):
        k = kind if kind.startswith("history/") else {"self": "not-reflexive", "deepcopy": "deepcopy-unequal", "twin": "identical-values-unequal",
             "permuted": "set-order-dependent", "reordered-kwargs": "kwargs-order-dependent",
             "after-reads": "changed-by-reads/vs-untouched-twin", "after-reads:deepcopy": "changed-by-reads/vs-earlier-deepcopy"}[kind]
        fail(ctx, f"{site}/{k}", f"{cls}: {kind} partner compares unequal (x==y {e1}, y==x {e2})", cls, dx, dy, attr, kind, case=case)
    if demand == "unequal" and (e1 or e2):
        fail(ctx, f"{site}/{kind}/change-undetected" if kind.startswith("history/") else f"{site}/perturbation-undetected/{attr}",
             f"{cls}: objects that differ only in constructor parameter {attr!r} compare equal ({kind})", cls, dx, dy, attr, kind,
             case=case)
    if (e1 or e2) and ob["hx"][0] == "ok" and ob["hy"][0] == "ok" and ob["hx"][1] != ob["hy"][1]:
        who = culprit(x, y) if kind.startswith("history/") else cls
        fail(ctx, f"C12/{who}/equal-but-hash-differs/{kind if kind != 'perturbed' else attr}",
             f"{cls}: x == y but hash(x) != hash(y) ({kind} {attr or ''})", cls, dx, dy, attr, kind, case=case)


def run_case(ctx, dx, only=None):
    """one instance with its battery; `only` = a stored failing pair {"y":…, "attr":…, "kind":…} for replays"""
    cls = clsname(dx)
    x = try_build(dx)
    if x is None:
        if only is None:
            raise RuntimeError(f"generator produced an invalid {cls}: {json.dumps(dx)[:400]} -> {call(S.build, dx)[2]}")
        return
    ctx.tag("cls:" + cls)
    if not dx["args"]:
        ctx.tag("defaults-only")
    ctx.case(dx)
    if only is not None and only.get("kind") not in (None, "self", "deepcopy", "hash"):
        pairs = [Pair(only["kind"], only["y"], only.get("attr"),
                      {"twin": "equal", "permuted": "equal", "reordered-kwargs": "equal", "perturbed": "unequal",
                       "after-reads": "equal", "after-reads:deepcopy": "equal"}.get(only["kind"]))]
        objs = []
    else:
        xc = call(copy.deepcopy, x)
        pairs = [] if only is not None else make_battery(ctx, dx, x)
        objs = [("self", x, dx, None, "equal")]
        if xc[0] == "ok":
            objs.append(("deepcopy", xc[1], dx, None, "equal"))
        else:
            fail(ctx, f"C12/{cls}/deepcopy-raises/{xc[1]}", f"deepcopy raises {xc[2]}", cls, dx, None, None, "deepcopy")
    lefts = {}
    for p in pairs:
        y = try_build(p.y_desc)
        if y is None:
            continue
        if p.kind.startswith("after-reads"):
            # HISTORY: an identically built object is looked at (every public property, str/repr/hash, the ordinary queries
            # by time step / id / point, on it and on everything reachable from it) and is then compared with the untouched
            # x and with the deepcopy taken of it before the reads: read-only use must not change what == and hash see
            yc = call(copy.deepcopy, y)
            if S.read_only_history(y) > 0:
                ctx.tag("history:reads")
            objs.append(("after-reads", y, p.y_desc, None, "equal"))
            if yc[0] == "ok":
                objs.append(("after-reads:deepcopy", y, p.y_desc, None, "equal"))
                lefts[len(objs) - 1] = yc[1]
            continue
        objs.append((p.kind, y, p.y_desc, p.attr, p.demand))
    ex = S.encode(x)
    enc_pairs, obs = [], []
    for i, (kind, y, dy, attr, demand) in enumerate(objs):
        ctx.tag("pair:" + kind if not kind.startswith("probe") else kind)
        left = lefts.get(i, x)
        ob = observe(left, y)
        obs.append(ob)
        enc_pairs.append((ex if left is x else S.encode(left), S.encode(y)))
        oracle_pair(ctx, cls, dx, dy, left, y, ob, kind, attr, demand)
    hash_correspondence(ctx, cls, dx, x, objs, obs, only)
    if only is None and (cls in ("Scenario", "LaneletNetwork") or ctx.rng.random() < (0.5 if ctx.tier == "quick" else 0.08)):
        # histories on a part of the instances; the two containers always (their construction routes)
        run_histories(ctx, cls, dx, x)
    # correspondence: the model's verdicts for == and for "hash keys agree" on the same pairs
    model = model_pairs(ctx, enc_pairs)
    for (kind, y, dy, attr, demand), ob, mv in zip(objs, obs, model):
        impl = {"eq": _bool(ob["eq_xy"]), "hash": (ob["hx"][1] == ob["hy"][1]) if ob["hx"][0] == ob["hy"][0] == "ok" else None}
        mdl = {"eq": mv["eq"], "hash": mv["hash"] if impl["hash"] is not None else None}
        sub = {"cls": cls, "x": dx, "y": dy, "attr": attr, "kind": kind}
        ctx.compare(sub, impl, mdl, f"{cls} {kind} {attr or ''}: (x == y, hash(x) == hash(y)) vs CR.EqHash.eqv / hashEqv")
        if kind == "perturbed":
            row = ctx.rows.setdefault((cls if S.SPECS[cls].family != "State" else "State", attr), {"eq": False, "hash": False, "n": 0})
            row["n"] += 1
            row["eq"] = row["eq"] or impl["eq"] is False
            row["hash"] = row["hash"] or impl["hash"] is False


def run_histories(ctx, cls, dx, x, hs=None):
    """HISTORIES between building and comparing (harness/c12_hist.py): setters (change / restore / same object / failing),
    in-place edits of the containers the getters return, mutating methods with canned arguments on two twins, pickle / copy /
    dataclasses.replace, the rarely used builders, int / numpy-scalar numbers.  Oracle: whenever the two objects show
    identical values through all public getters they must be equal and hash alike; an object changed through a setter into
    the values of a freshly constructed z (z != x) must be unequal to x.  The model judges every pair (correspondence)."""
    hs = hs if hs is not None else H.gen_histories(ctx.rng, dx)
    pairs, meta = [], []
    for h in hs:
        y = try_build(h.get("y_desc", dx))
        if y is None:
            if "y_desc" in h:
                ctx.tag("route-not-applicable:" + h["hkind"])
            continue
        r = call(H.apply_history, y, h["hist"])
        if r[0] != "ok":
            ctx.tag("history-not-applicable:" + h["hkind"])
            continue
        y = r[1]
        part = h["partner"]
        if part == "x":
            w, dw = x, dx
        elif "desc" in part:
            w, dw = try_build(part["desc"]), part["desc"]
        else:
            w = try_build(dx)
            rw = call(H.apply_history, w, part["hist"]) if w is not None else ("err",)
            w, dw = (rw[1] if rw[0] == "ok" else None), dx
        if w is None:
            continue
        ey, ew = call(S.encode, y), call(S.encode, w)
        if ey[0] != "ok" or ew[0] != "ok":
            ctx.tag("history-not-encodable:" + h["hkind"])
            continue
        sy, sw = S.encode(y, True), S.encode(w, True)
        ctx.tag("history:" + h["hkind"])
        for t in h.get("tags", ()):
            ctx.tag(t)
        sub = {"cls": cls, "x": dx, "kind": "history", "h": h, "attr": h.get("attr")}
        ob = observe(w, y)
        same = sy == sw
        # pairs built to differ in the entries of one array (same bytes in memory, other points): unequal is demanded
        # whenever the public getters do show different values
        differs = bool(h.get("differs")) and not same and _none_is_empty(sy) != _none_is_empty(sw)
        if differs:
            ctx.tag("history:" + h["hkind"] + ":values-differ")
        if same:
            ctx.tag("history:identical-getter-values")
            if h["hkind"] in ("layout", "layout-both", "identity-motion"):
                ctx.tag("history:identical-getter-values:" + h["hkind"])
            if h["hkind"].startswith("route:"):
                ctx.tag("route:identical-getter-values:" + ("add-remove" if "add-remove" in h["hkind"] else h["hkind"][6:]))
        oracle_pair(ctx, cls, sub, None, w, y, ob, "history/" + h["hkind"], h.get("attr"),
                    "equal" if same else ("unequal" if differs else None), case=sub)
        pairs.append((ew[1], ey[1]))
        meta.append((sub, ob))
        if same and part != "x" and "desc" in part and h["hkind"] in ("set-change", "inplace-change", "nested-set") \
                and _none_is_empty(sw) != _none_is_empty(S.encode(x, True)):
            ob2 = observe(x, y)
            sub2 = dict(sub, vs="original")
            oracle_pair(ctx, cls, sub2, None, x, y, ob2, "history/" + h["hkind"] + "/vs-original", h.get("attr"), "unequal", case=sub2)
    for (sub, ob), mv in zip(meta, model_pairs(ctx, pairs)):
        impl = {"eq": _bool(ob["eq_xy"]), "hash": (ob["hx"][1] == ob["hy"][1]) if ob["hx"][0] == ob["hy"][0] == "ok" else None}
        if impl["eq"] and impl["hash"] is False:
            impl["hash"] = None  # equal objects with different hashes: the oracle has reported it; not a question to the model
        mdl = {"eq": mv["eq"], "hash": mv["hash"] if impl["hash"] is not None else None}
        ctx.compare(sub, impl, mdl, f"{cls} history {sub['h']['hkind']} {sub.get('attr') or ''}: (w == y, hashes agree) vs CR.EqHash.eqv / hashEqv")


def hash_correspondence(ctx, cls, dx, x, objs, obs, only):
    """hashability model: every object of the battery must be well-typed in the model (ties the admitted-type tables to
    what the public constructors produce) and `hash()` raises exactly when the model says the hashed tuple cannot be built
    or hashed; plus ill-typed probes, on which only the raise / complete verdict is compared."""
    typed, impl, subs = [], [], []
    for (kind, y, dy, attr, demand), ob in zip(objs, obs):
        if kind == "self" or kind == "perturbed" or kind.startswith("probe:none"):
            typed.append(S.tenc(y))
            impl.append({"typed": True, "ok": ob["hy"][0] == "ok"})
            subs.append({"cls": cls, "x": dy, "y": None, "attr": attr, "kind": "hash"})
            ctx.tag("hash:well-typed")
    if only is None:
        for _ in range(3):
            p = S.ill_typed(ctx.rng, dx)
            if p is None:
                break
            dz, pname, pi = p
            z = try_build(dz)
            if z is None:
                continue
            t = call(S.tenc, z)
            if t[0] != "ok":
                continue
            h = call(hash, z)
            typed.append(t[1])
            impl.append({"typed": None, "ok": h[0] == "ok"})
            subs.append({"cls": cls, "x": dz, "y": None, "attr": pname, "kind": "hash-probe"})
            ctx.tag("illtyped:completes" if h[0] == "ok" else "illtyped:raises")
    elif only.get("kind") == "hash-probe":
        t = call(S.tenc, x)
        if t[0] == "ok":
            typed, impl, subs = [t[1]], [{"typed": None, "ok": call(hash, x)[0] == "ok"}], [{"cls": cls, "x": dx, "kind": "hash-probe"}]
    for t, im, sub, mv in zip(typed, impl, subs, model_hash_ok(ctx, typed)):
        mdl = {"typed": mv["typed"] if im["typed"] is not None else None, "ok": mv["ok"]}
        ctx.compare(sub, im, mdl, f"{cls} {sub.get('attr') or ''}: hash() completes / instance well-typed vs CR.EqHash.hashCompletes / wellTyped")


def check_tables(ctx):
    """the observed truth table (which constructor parameter flips ==, which flips hash) against the model's class tables"""
    tb = tables(ctx)
    for (cls, attr), row in sorted(ctx.rows.items()):
        if cls == "State" or cls not in tb:
            continue
        spec = S.SPECS[cls]
        getter = spec.param(attr).getter
        names = tb[cls]["attrs"]
        if getter not in names:
            ctx.compare({"cls": cls, "attr": attr}, "constructor parameter", "not in the model's table", f"{cls}.{attr} missing in model table")
            continue
        i = names.index(getter)
        ctx.tag("table-row")
        # == must flip for exactly the attributes __eq__ reads; the hash may only flip for attributes __hash__ reads (a hash
        # over sets / value sets is lossy, so "never flipped in this run" is no disagreement; each pair is compared anyway)
        ctx.compare({"cls": cls, "attr": attr}, {"flips_eq": row["eq"], "hash_flip_outside_table": row["hash"] and not tb[cls]["hash"][i]},
                    {"flips_eq": tb[cls]["eq"][i], "hash_flip_outside_table": False}, f"truth-table row {cls}.{attr}")


def check_signatures(ctx):
    """the constructor signatures of the working tree against the model's `ctors` (the list `C12_ctor_params_compared` is
    about), the generator specs against both, and the getter lists against the model's rows"""
    import dataclasses
    tb = tables(ctx)
    R = S.registry()
    model = {c["cls"]: c for c in ctors(ctx)}
    ctx.compare({"what": "classes"}, sorted(S.SPECS), sorted(model), "classes with a generator spec vs classes in the model's ctors")
    for cls, spec in S.SPECS.items():
        C = R[cls]
        if spec.family == "State":
            sig = [] if cls == "CustomState" else [f.name for f in dataclasses.fields(C)]
        elif cls == "SignalState":
            sig = list(C.__slots__)
        else:
            sig = [p for p in inspect.signature(C.__init__).parameters if p not in ("self", "kwargs")]
        m = model.get(cls)
        if m is None:
            continue
        # oracle for a constructor parameter the generators do not know (added to the code after this check was written):
        # two instances that differ only in it must be unequal
        for q in [p for p in sig if p not in {pp.name for pp in spec.params}] if spec.family != "State" and cls != "SignalState" else []:
            for v1, v2 in ((1, 2), ("a", "b"), (True, False), (0.5, 1.5), (None, "a")):
                dx = S.gen_obj(ctx.rng, cls)
                dy = copy.deepcopy(dx)
                dx["args"][q], dy["args"][q] = v1, v2
                x, y = try_build(dx), try_build(dy)
                if x is None or y is None:
                    continue
                ob = observe(x, y)
                oracle_pair(ctx, cls, dx, dy, x, y, ob, "perturbed", q, "unequal")
                break
        ctx.compare({"cls": cls}, {"family": spec.family, "params": sig}, {"family": m["family"], "params": [p for p, _ in m["params"]]},
                    f"inspect.signature({cls}) vs model ctors")
        if spec.family == "State":
            continue
        getter = {p.name: p.getter for p in spec.params}
        ctx.compare({"cls": cls}, [[p, getter.get(p)] for p in sig], m["params"], f"parameter -> getter of {cls}: generator spec vs model ctors")
        row = tb[spec.family]
        ctx.compare({"cls": cls}, [p.getter for p in spec.params], row["attrs"], f"attributes of {cls} vs model row")
        ctx.compare({"cls": cls}, row["attrs"], row["hattrs"], f"eq row vs hash row of {cls}")
        ctx.compare({"cls": cls}, [a for _, a in m["params"]] + row["content"], row["attrs"],
                    f"constructor parameters + content attributes of {cls} vs model row")


# ------------------------------------------------------------------------------------------------ entry points

def _corpus(ctx):
    for p in sorted(glob.glob(os.path.join(CORPUS_DIR, "C12", "*.json"))):
        replay(ctx, json.load(open(p)))


def run(ctx):
    ctx.rows = {}
    if ctx.worker == 0:
        unknown, gone = H.check_dimensions()
        if unknown or gone:
            import common
            raise common.InfraError(
                f"C12 dimension table (harness/c12_dimensions.json) does not match the working tree: new setters / methods "
                f"{unknown[:12]}, vanished {gone[:12]} — classify them in harness/c12_hist.py and regenerate the table "
                f"(python harness/c12_hist.py --dump)")
        ctx.tag("dimension-table")
        _corpus(ctx)
        check_signatures(ctx)
    classes = list(S.CLASSES)
    n = ctx.n(QUICK_PER_CLASS)
    # every worker covers every class (so REQUIRED_BUCKETS and the truth table are complete per run)
    for cls in classes:
        k = max(1, n // ctx.workers) if ctx.tier == "quick" else n
        for i in range(k):
            if i == 0 and ctx.worker == 0:
                dx = defaults_only(ctx, cls)
                if dx is not None:
                    run_case(ctx, dx)
            run_case(ctx, S.gen_obj(ctx.rng, cls))
    check_tables(ctx)


def defaults_only(ctx, cls):
    """the instance with every optional parameter left to its default"""
    spec = S.SPECS[cls]
    if spec.family == "State" and cls != "CustomState":
        return {"cls": cls, "args": {}}
    for _ in range(20):
        d = S.gen_obj(ctx.rng, cls)
        req = [p.name for p in spec.params if not p.default]
        d = {"cls": cls, "args": {k: v for k, v in d["args"].items() if k in req}}
        if try_build(d) is not None:
            return d
    return None


search = run


def replay(ctx, case):
    ctx.rows = getattr(ctx, "rows", {})
    if case.get("kind") == "history":
        x = try_build(case["x"])
        if x is not None:
            run_histories(ctx, case["cls"], case["x"], x, hs=[case["h"]])
        return
    if case.get("y") is None and case.get("kind") in (None, "self", "deepcopy", "hash"):
        run_case(ctx, case["x"], only={"kind": case.get("kind") or "self"})
    else:
        run_case(ctx, case["x"], only=case)


def shrink(case, key):
    """drop optional constructor arguments of x (and of y alike) while the same finding key is still produced"""
    import common
    if not isinstance(case, dict) or "x" not in case:
        return case

    def still(c):
        ctx = common.Ctx("C12", "quick", 0)
        try:
            replay(ctx, c)
            return any(f.key == key for f in ctx.failures)
        except Exception:  # noqa
            return False
        finally:
            ctx.close()

    cur = copy.deepcopy(case)
    changed = True
    rounds = 0
    while changed and rounds < 4:
        changed = False
        rounds += 1
        for k in list(cur["x"]["args"].keys()):
            if k == cur.get("attr"):
                continue
            cand = copy.deepcopy(cur)
            del cand["x"]["args"][k]
            if cand.get("y"):
                cand["y"]["args"].pop(k, None)
            if S.SPECS[cur["cls"]].family != "State" and not S.SPECS[cur["cls"]].param(k).default:
                continue
            if still(cand):
                cur = cand
                changed = True
    return cur
