"""C07 — obstacle–lanelet assignment is geometrically correct and invertible.
model: lean/CRModel/Assign.lean; theorems: lean/CRProps/C07.lean (helper lemmas lean/CRProofs/Assign.lean).

A case is a history: a lanelet network, a pool of obstacles, and a list of operations
  ["add", id] | ["remove", id] | ["assign", ids|null, time_steps|null, use_center_only] | ["reopen", "xml"|"pb"]
run on a real Scenario.  After every operation the assignment attributes of every obstacle object and the registries of
every lanelet are read off and (1) compared with the Lean model run on the same history (the answers of
find_lanelet_by_position / find_lanelet_by_shape are parameters of the model), (2) judged by an oracle that knows nothing of
the model: exact rational geometry on the raw vertices / radii for the recorded sets, and the literal inverse relation for the
registries.
"""
from __future__ import annotations

import glob
import json
import math
import os
from fractions import Fraction

import geom
from common import CORPUS_DIR, InfraError, call, frac, rat

RULE = ("400 (quick) / 8 x 1500 (thorough) histories after the corpus, each of 3..14 operations (add / remove / assign with all or some obstacle ids and all or some time steps / "
        "re-open through an XML or protobuf file with lanelet_assignment=True) over 1..5 obstacles (static, dynamic with a "
        "trajectory of 1..5 states, dynamic without prediction, in 15 % of the histories one dynamic obstacle with a "
        "SetBasedPrediction; rectangle axis-aligned or rotated, circle, polygon, shape group) "
        "on networks of 2..7 lanelets (parallel lanes sharing a boundary, successor lanes, a crossing lane, a bent lane, a far "
        "lane; in 30 % of the networks 1..3 lanelets are COPIES of another one under a new id: the same vertices in the same order "
        "(polygons equal by value), the same strip driven the other way, or the same region with an extra collinear vertex - every "
        "copy has to appear in the recorded sets and has to list the obstacle, buckets geo/identical-polygons-*), all coordinates on the grid k/16; obstacle centres sit in a lane, exactly on a shared boundary, half a width "
        "away from it (shape touches / overlaps the neighbour while the centre does not), or off the road. "
        "Every history is then diversified along the generator-audit table (DIM_SIGNATURES / DIM_MEMBERS): list forms, network-level "
        "and replace_lanelet_network entry points, argument containers and numpy scalars, empty / repeated time steps, id 0, time steps "
        "around 10^6, registry and attribute setters (same object / reset), update_initial_state, read-only query batches, reader "
        "reuse / reader classes / writer variants; a history continues after an operation raised. "
        "distinct = canonical JSON of the history; non-trivial = the history contains an assignment (assign or reopen) and at "
        "least one obstacle whose shape set differs from its centre set or a removal after assignment")
ASSUMPTIONS = [
    "find_lanelet_by_position / find_lanelet_by_shape are parameters of the model (their answers on the occupancies of the case "
    "are passed in); the oracle recomputes them by brute force over all lanelets with exact rational arithmetic on the raw "
    "vertices, centres and radii",
    "a circle's exported geometry is GEOS's inscribed 64-gon: lanelets whose distance d to the circle centre satisfies "
    "0.998 r < d <= r are ambiguous for that circle (neither required nor forbidden); a rotated rectangle's corners are float "
    "values: lanelets whose answer changes when the rectangle is scaled by 1 +- 1e-9 are ambiguous; counted as excluded",
    "the occupancy of an obstacle at a time step (shape.rotate_translate_local of an exact state) is taken from the library "
    "(C04's business); the oracle reads its raw parameters",
    "a dynamic obstacle with a SetBasedPrediction is outside the property's quantifier: its recorded sets are not judged and an "
    "assignment that addresses it (AttributeError by construction) is inadmissible; model and implementation are compared on it, "
    "and the registries (which must not list it) are judged",
    "after assign(use_center_only=True) the registries list the centre lanelets (documented purpose of the flag, outside the "
    "property's sentence about the shape assignment; C07_witness_center_only): the exact-inverse oracle is replaced by 'every "
    "recorded shape triple is registered, and whatever a lanelet lists is an obstacle of the scenario whose recorded shape or "
    "centre set holds the lanelet' (so a removed obstacle is listed nowhere) until the next file read, "
    "which restores the exact inverse (C07_reopen_restores)",
    "the composed model (driver op geo) is compared with the library's lookups only on (obstacle, time step) pairs whose answer "
    "does not depend on float rounding: no lanelet in an ambiguity band, no angle addition, no polygon rotation",
    "network-changing histories (30 % of the cases: Scenario.remove_lanelet / add_objects(Lanelet) between the obstacle operations, "
    "lanelets absent at the start, obstacles constructed with lanelet ids = the lookup answers on all lanelets of the case): "
    "remove_obstacle of a contained obstacle must never raise (key C07/remove_obstacle/raises-after-lanelet-removal); recorded "
    "sets are judged against the geometry only when the operation just wrote them (older ones may name lanelets that left); the "
    "exact inverse is judged on the present lanelets and, after a lanelet was (re-)added, only 'registry within recorded' until "
    "the next full assignment or file read (C07c_registry_bounds, C07c_reassign_exact); add_objects of an obstacle whose "
    "recorded shape sets name a lanelet missing from a non-empty network raises AttributeError by construction - the property "
    "does not promise that adding never fails: modelled (error branch), compared, not judged",
    "the state after an operation raised is not followed by the model (its history ends there); the oracle keeps judging the rest of "
    "the history (registry within recorded, scenario content, removing a contained obstacle never fails)",
    "editing the assignment attributes of an obstacle that is IN the scenario (setters, update_initial_state, update_prediction) "
    "does not tell the lanelets - the library offers no hook: from there to the next file read (update_*: to the end) only the "
    "scenario's content and 'removing never fails' are judged; the theorems C07c_inv_run .. C07c_reassign_exact are stated for "
    "histories without such edits (SaneRun), C07c_remove_total for all",
    "numpy integers as TIME STEPS are refused by the occupancy accessors' int check (AssertionError; documented type List[int]): "
    "outside the quantifier (bucket value/np-int-rejected; numpy integers as obstacle ids, and as time steps of histories with "
    "static obstacles only, are accepted and compared)",
    "mixing Scenario.remove_lanelet / add_objects(Lanelet) with LaneletNetwork.remove_lanelet / add_lanelet on the same lanelet id "
    "leaves the scenario's id set behind (not C07's subject): the valid combinations are generated and compared, the error class of "
    "an inadmissible one is not",
    "in the remaining cases the lanelet network is fixed; use_center_only=True and inadmissible arguments (unknown ids, time steps before "
    "the initial one, re-adding a contained obstacle) are compared with the model but not judged by the oracle",
]
TRUSTED = ["shapely/GEOS predicates are not modelled; their answers enter the model as parameters and are checked by the oracle"]
# composition with C06's index model: Env.cen / Env.shp := find_lanelet_by_position / find_lanelet_by_shape on a built network;
# the geometric sentence with only the primitive predicates within / meets left as parameters (built + audited every run)
EXTRA_MODULES = ["CRProps.C07b", "CRProps.C07c", "CRProps.T07"]
REQUIRED_BUCKETS = ["entry/assign", "entry/reopen-xml", "entry/reopen-pb", "kind/static", "kind/traj", "kind/none", "kind/set", "geo/composed-compared",
                    "shape/rect", "shape/rect-rotated", "shape/circ", "shape/poly", "shape/group",
                    "geo/shape-beyond-center", "geo/touching", "geo/off-road", "geo/multi-lanelet-center",
                    "geo/identical-polygons-center", "geo/identical-polygons-shape", "geo/same-region-other-vertices-shape",
                    "op/remove-after-assign", "op/readd", "op/partial-assign", "op/center-only", "op/error",
                    "net/rmlane", "net/addlane", "net/remove-obstacle-recording-absent-lanelet",
                    "net/remove-preset-obstacle-after-late-lanelets", "net/network-level-or-list",
                    "form/list-add", "form/list-remove", "form/arg-types", "value/np-int", "value/empty-ids", "value/empty-ts",
                    "value/repeated-ts", "value/id0", "value/big-t0", "op/query", "op/clearlane", "op/set-same", "op/set-outside",
                    "op/set-inside", "op/after-error", "entry/reader-reuse", "entry/reader-class", "net/replace-copy", "net/replace-fresh",
                    "net/replace-swap", "op/update-inside", "form/remove-lanelet-noref", "value/np-int-rejected", "entry/io-variants"]

# ------------------------------------------------------------------------------------------------ generator audit
# Everything of the public API that can influence what C07 observes (recorded lanelet sets of the obstacles, obstacle registries of
# the lanelets, the scenario's content, whether an operation raises), with how the generator varies it — or why it cannot matter /
# is outside the property's quantifier. check_dimensions() compares the table with the real signatures, public methods and settable
# properties on EVERY run: anything new (or gone) => exit 2, so that code growth cannot silently escape the generator.
#   V = varied (how, bucket)     F = held fixed (why it cannot matter)     X = outside the quantifier (why)
V, F, X = "varied", "fixed", "outside"
_GEOM = "changes where something lies: the lookup answers are the model's parameters, fixed per case (a history in which a file read " \
        "changes one is cut there, bucket reopen/geometry-changed-by-file); new geometry = new case"
_OTHER = "other element kinds (signs, lights, intersections, areas, signals, meta information); no code path to the obstacle " \
         "registries or the obstacles' lanelet sets"
_READ = "read-only; a sample is called between the operations (op query, bucket op/query) and model = implementation is compared after it"
_TOPO = "lanelet topology / attributes; find_lanelet_by_shape / _by_position read the polygons only"
_DRAW = "rendering / 3-d stripping; not called"


def _grp(names, status, why):
    return {n: (status, why) for n in names.split()}


DIM_SIGNATURES = {
    "commonroad.scenario.scenario:Scenario.__init__": {
        **_grp("dt scenario_id author tags affiliation source location", F, "meta data; needed by the file writer only, one valid value")},
    "commonroad.scenario.scenario:Scenario.add_objects": {
        "scenario_object": (V, "obstacle / list of obstacles (addmany, form/list-add) / Lanelet (addlane) / LaneletNetwork (build, "
                               "replacenet swap, net/replace-swap); objects re-added after removal and after a file read (op/readd); "
                               "obstacles built with lanelet ids (preset) on empty / partial networks"),
        "lanelet_ids": (F, "read for traffic signs / lights only")},
    "commonroad.scenario.scenario:Scenario.assign_obstacles_to_lanelets": {
        "time_steps": (V, "None / explicit; list, tuple, range, numpy array (form/arg-types); numpy integers (value/np-int; refused by "
                          "the occupancy accessors' int check: value/np-int-rejected, oracle goes on); empty (value/empty-ts); repeated "
                          "and unsorted (value/repeated-ts); before the initial step, beyond the horizon (inadmissible stream); 10^6 "
                          "(value/big-t0)"),
        "obstacle_ids": (V, "None / subset; set, list, tuple, frozenset (form/arg-types); numpy integers; empty (value/empty-ids); "
                            "id 0 (value/id0); unknown ids (inadmissible stream)"),
        "use_center_only": (V, "False / True (op/center-only)")},
    "commonroad.scenario.scenario:Scenario.remove_obstacle": {
        "obstacle": (V, "the object the scenario holds / the object built before a file read; list form (removemany, "
                        "form/list-remove) incl. lists with an obstacle that is not in the scenario; after lanelet removals, registry "
                        "resets, attribute edits, failed calls (C07/remove_obstacle/raises-after-lanelet-removal)")},
    "commonroad.scenario.scenario:Scenario.remove_lanelet": {
        "lanelet": (V, "single / list (rmlanes, net/network-level-or-list) / absent lanelet (inadmissible stream)"),
        "referenced_elements": (V, "True / False (form/remove-lanelet-noref)")},
    "commonroad.scenario.scenario:Scenario.replace_lanelet_network": {
        "lanelet_network": (V, "deep copy of the current one incl. registries (net/replace-copy) / fresh lanelets, any subset "
                               "(net/replace-fresh)")},
    "commonroad.scenario.obstacle:StaticObstacle.__init__": {
        "obstacle_id": (V, "30.., 0 (value/id0)"),
        "obstacle_type": (F, "not read by the assignment code"),
        "obstacle_shape": (V, "rectangle (rotated), circle, polygon, shape group (shape/*)"),
        "initial_state": (V, "position / orientation on, beside, across lanelets (geo/*); time step 0.., 10^6 (value/big-t0)"),
        "initial_center_lanelet_ids": (V, "None / the lookup answers on all lanelets of the case (preset)"),
        "initial_shape_lanelet_ids": (V, "None / the lookup answers on all lanelets of the case (preset)"),
        **_grp("initial_signal_state signal_series", F, _OTHER)},
    "commonroad.scenario.obstacle:DynamicObstacle.__init__": {
        "obstacle_id": (V, "30.., 0 (value/id0)"),
        "obstacle_type": (F, "not read by the assignment code"),
        "obstacle_shape": (V, "as for StaticObstacle"),
        "initial_state": (V, "as for StaticObstacle"),
        "prediction": (V, "None / TrajectoryPrediction / SetBasedPrediction (kind/none, kind/traj, kind/set)"),
        "initial_center_lanelet_ids": (V, "None / lookup answers (preset)"),
        "initial_shape_lanelet_ids": (V, "None / lookup answers (preset)"),
        **_grp("initial_signal_state signal_series initial_meta_information_state meta_information_series external_dataset_id", F, _OTHER),
        **_grp("history signal_history center_lanelet_ids_history shape_lanelet_ids_history", F,
               "the past of the obstacle: written by update_initial_state (op update), never read by add / remove / assign / the "
               "file formats"),
        "kwargs": (F, "wheelbase_lengths only: needs states with hitch angles, which InitialState cannot carry")},
    "commonroad.scenario.obstacle:DynamicObstacle.update_initial_state": {
        "current_state": (V, "the next trajectory state (op update state, op/update-inside|outside): from then on scenario content "
                             "and 'removing never fails' only — the registries are not told, by design of that method"),
        **_grp("current_center_lanelet_ids current_shape_lanelet_ids", V, "the sets the object carried"),
        "current_signal_state": (F, _OTHER),
        "max_history_length": (F, "truncates the history lists, see history")},
    "commonroad.scenario.obstacle:DynamicObstacle.update_prediction": {
        "prediction": (V, "None (op update pred)"), "signal_series": (F, _OTHER)},
    "commonroad.prediction.prediction:TrajectoryPrediction.__init__": {
        "trajectory": (V, "0..5 states, moving across lanelets; first step = initial step + 1"),
        "shape": (V, "the obstacle's shape"),
        "center_lanelet_assignment": (V, "None / lookup answers (preset)"),
        "shape_lanelet_assignment": (V, "None / lookup answers (preset)"),
        "kwargs": (F, "wheelbase_lengths only, see DynamicObstacle")},
    "commonroad.prediction.prediction:SetBasedPrediction.__init__": {
        "initial_time_step": (V, "initial step + 1"), "occupancy_set": (V, "1..3 occupancies (kind/set); outside the property, see ASSUMPTIONS")},
    "commonroad.scenario.lanelet:Lanelet.__init__": {
        **_grp("left_vertices center_vertices right_vertices", V, "straight / bent, adjacent, overlapping, touching at corners"),
        "lanelet_id": (V, "1..6; removed and re-added under the same id with empty registries"),
        **_grp("predecessor successor adjacent_left adjacent_left_same_direction adjacent_right adjacent_right_same_direction "
               "line_marking_left_vertices line_marking_right_vertices stop_line lanelet_type user_one_way user_bidirectional "
               "traffic_signs traffic_lights adjacent_areas", F, _TOPO)},
    "commonroad.scenario.lanelet:Lanelet.add_dynamic_obstacle_to_lanelet": {
        **_grp("obstacle_id time_step", F, "internal writer of the registry; reached through add / assign / the readers only")},
    "commonroad.scenario.lanelet:Lanelet.add_static_obstacle_to_lanelet": {
        "obstacle_id": (F, "internal writer of the registry; reached through add / assign / the readers only")},
    "commonroad.scenario.lanelet:Lanelet.dynamic_obstacle_by_time_step": {
        "time_step": (V, "every registered step, -5, 10^7 (op query 1: must equal the registry entry)")},
    "commonroad.scenario.lanelet:LaneletNetwork.add_lanelet": {
        "lanelet": (V, "network-level entry point (addlane net, net/network-level-or-list)"),
        "rtree": (F, "False leaves the spatial index stale: C06's subject (stale-index witness there)")},
    "commonroad.scenario.lanelet:LaneletNetwork.remove_lanelet": {
        "lanelet_id": (V, "network-level entry point (rmlane net)"), "rtree": (F, "as for add_lanelet")},
    "commonroad.scenario.lanelet:LaneletNetwork.create_from_lanelet_list": {
        "lanelets": (V, "fresh lanelets (build, replacenet)"), "cleanup_ids": (F, _TOPO)},
    "commonroad.scenario.lanelet:LaneletNetwork.create_from_lanelet_network": {
        "lanelet_network": (V, "the scenario's network (replacenet copy)"),
        **_grp("shape_input exclude_lanelet_types", F, "select a subset of the lanelets: = replacenet fresh with a subset, but with copied "
                                                       "registries; covered by rmlane on the copy"),
        "cleanup_ids": (F, _TOPO)},
    "commonroad.common.file_reader:CommonRoadFileReader.__init__": {
        "filename": (V, "str / pathlib.Path (entry/io-variants)"), "file_format": (V, "XML / PROTOBUF / None (entry/io-variants)")},
    "commonroad.common.file_reader:CommonRoadFileReader.open": {
        "lanelet_assignment": (V, "True; False then True on ONE reader object (entry/reader-reuse). False alone = the unassigned "
                                  "state every history starts from")},
    "commonroad.common.reader.file_reader_xml:XMLFileReader.open": {"lanelet_assignment": (V, "True (entry/reader-class)")},
    "commonroad.common.reader.file_reader_protobuf:ProtobufFileReader.open": {"lanelet_assignment": (V, "True (entry/reader-class)")},
    "commonroad.common.file_writer:CommonRoadFileWriter.__init__": {
        "scenario": (V, "the scenario after any history"),
        **_grp("planning_problem_set author affiliation source tags location", F, "meta data"),
        "decimal_precision": (F, _GEOM),
        "file_format": (V, "XML / PROTOBUF (entry/reopen-xml, entry/reopen-pb)")},
    "commonroad.common.file_writer:CommonRoadFileWriter.write_to_file": {
        "filename": (V, "str / pathlib.Path"), "overwrite_existing_file": (F, "fresh file name per call"),
        "check_validity": (F, "XSD validation of the written file; no effect on its content")},
    "commonroad.common.file_writer:CommonRoadFileWriter.write_scenario_to_file": {
        "filename": (V, "str / pathlib.Path (entry/io-variants)"), "overwrite_existing_file": (F, "fresh file name per call")},
}

DIM_MEMBERS = {        # public methods and settable properties, class by class
    "commonroad.scenario.scenario:Scenario": {
        **_grp("add_objects assign_obstacles_to_lanelets remove_obstacle remove_lanelet replace_lanelet_network", V, "see DIM_SIGNATURES"),
        "erase_lanelet_network": (V, "through replace_lanelet_network (net/replace-*); alone = rmlanes of all lanelets"),
        "remove_hanging_lanelet_members": (V, "through remove_lanelet(referenced_elements=True)"),
        **_grp("obstacle_by_id obstacle_states_at_time_step obstacles_by_position_intervals occupancies_at_time_step", V, _READ),
        **_grp("obstacles_by_role_and_type generate_object_id", F, "read-only, touch neither lanelets nor lanelet sets"),
        **_grp("remove_intersection remove_traffic_light remove_traffic_sign", F, _OTHER),
        **_grp("translate_rotate", X, _GEOM),
        **_grp("convert_to_2d draw", F, _DRAW),
        "dt": (F, "meta data")},
    "commonroad.scenario.lanelet:LaneletNetwork": {
        **_grp("add_lanelet remove_lanelet create_from_lanelet_list create_from_lanelet_network", V, "see DIM_SIGNATURES"),
        **_grp("find_lanelet_by_id find_lanelet_by_position find_lanelet_by_shape map_obstacles_to_lanelets", V, _READ),
        **_grp("filter_obstacles_in_network lanelets_in_proximity find_most_likely_lanelet_by_state", F,
               "read-only geometric queries next to the ones sampled"),
        "add_lanelets_from_network": (F, "loop over add_lanelet(rtree=False) + index rebuild: the network-level entry point, see add_lanelet"),
        **_grp("cleanup_lanelet_references", F, _TOPO),
        **_grp("add_area add_intersection add_traffic_light add_traffic_sign cleanup_traffic_light_references "
               "cleanup_traffic_sign_references find_area_by_id find_intersection_by_id find_traffic_light_by_id "
               "find_traffic_sign_by_id get_traffic_lights_referenced_lanelets get_traffic_sign_referenced_lanelets remove_area "
               "remove_intersection remove_traffic_light remove_traffic_sign information", F, _OTHER),
        "translate_rotate": (X, _GEOM),
        **_grp("convert_to_2d draw", F, _DRAW)},
    "commonroad.scenario.lanelet:Lanelet": {
        **_grp("static_obstacles_on_lanelet dynamic_obstacles_on_lanelet", V,
               "setters: the same object handed back / an empty one (clearlane, op/clearlane; model op clearLanelet)"),
        **_grp("add_dynamic_obstacle_to_lanelet add_static_obstacle_to_lanelet", F, "see DIM_SIGNATURES"),
        **_grp("dynamic_obstacle_by_time_step get_obstacles", V, _READ),
        **_grp("contains_points convert_to_polygon interpolate_position orientation_by_position "
               "all_lanelets_by_merging_predecessors_from_lanelet all_lanelets_by_merging_successors_from_lanelet "
               "find_lanelet_predecessors_in_range find_lanelet_successors_in_range", F, "read-only geometry / topology"),
        "merge_lanelets": (X, "static method producing a NEW lanelet (new geometry, merged registries) that is in no network; " + _GEOM),
        **_grp("left_vertices center_vertices right_vertices translate_rotate", X, _GEOM),
        "lanelet_id": (X, "re-keying a lanelet in place leaves the network's own id dictionary and the scenario's id set behind: the "
                          "network's integrity, not the obstacle bookkeeping; remove + add under another id is the supported way (rmlane / addlane)"),
        **_grp("distance", F, "cached arc lengths"),
        **_grp("add_adjacent_area_to_lanelet add_predecessor add_successor add_traffic_light_to_lanelet add_traffic_sign_to_lanelet "
               "remove_predecessor remove_successor adj_left adj_left_same_direction adj_right adj_right_same_direction adjacent_areas "
               "lanelet_type line_marking_left_vertices line_marking_right_vertices predecessor successor stop_line traffic_lights "
               "traffic_signs user_bidirectional user_one_way", F, _TOPO),
        **_grp("convert_to_2d", F, _DRAW)},
    "commonroad.scenario.obstacle:StaticObstacle": {
        **_grp("initial_center_lanelet_ids initial_shape_lanelet_ids", V,
               "setters: same object handed back (op/set-same), None, lookup answers; on obstacles outside the scenario (op/set-outside, "
               "model op setFwd) and inside (op/set-inside: registries not told; scenario content + 'removing never fails' only)"),
        **_grp("occupancy_at_time state_at_time", V, _READ),
        **_grp("initial_state obstacle_shape translate_rotate", X, _GEOM),
        "obstacle_id": (X, "setter refuses a second assignment (warning, no change)"),
        **_grp("obstacle_role obstacle_type", F, "setters refuse a second assignment / not read by the assignment code"),
        **_grp("initial_signal_state signal_series signal_state_at_time_step", F, _OTHER),
        "draw": (F, _DRAW)},
    "commonroad.scenario.obstacle:DynamicObstacle": {
        **_grp("initial_center_lanelet_ids initial_shape_lanelet_ids", V, "as for StaticObstacle"),
        **_grp("update_initial_state update_prediction", V, "op update (op/update-inside, op/update-outside)"),
        "prediction": (V, "setter = update_prediction (op update pred)"),
        **_grp("occupancy_at_time state_at_time", V, _READ),
        **_grp("initial_state obstacle_shape translate_rotate", X, _GEOM + " (moving an obstacle in place is update_initial_state's job: op update)"),
        "obstacle_id": (X, "setter refuses a second assignment (warning, no change)"),
        **_grp("obstacle_role obstacle_type", F, "setters refuse a second assignment / not read by the assignment code"),
        **_grp("initial_signal_state signal_series signal_state_at_time_step initial_meta_information_state meta_information_series "
               "external_dataset_id", F, _OTHER),
        "draw": (F, _DRAW)},
    "commonroad.prediction.prediction:TrajectoryPrediction": {
        **_grp("center_lanelet_assignment shape_lanelet_assignment", V, "setters: same / None / lookup answers (op set)"),
        "occupancy_at_time_step": (V, _READ),
        **_grp("trajectory shape translate_rotate", X, _GEOM),
        "wheelbase_lengths": (F, "see DynamicObstacle kwargs (and its setter writes a misspelt attribute)")},
    "commonroad.prediction.prediction:SetBasedPrediction": {
        "occupancy_at_time_step": (V, _READ), **_grp("occupancy_set translate_rotate", X, _GEOM + "; outside the property anyway")},
    "commonroad.common.file_reader:CommonRoadFileReader": {
        "open": (V, "see DIM_SIGNATURES"), "open_lanelet_network": (F, "returns a LaneletNetwork without obstacles: nothing C07 observes")},
    "commonroad.common.reader.file_reader_xml:XMLFileReader": {
        "open": (V, "entry/reader-class"), "open_lanelet_network": (F, "no obstacles")},
    "commonroad.common.reader.file_reader_protobuf:ProtobufFileReader": {
        "open": (V, "entry/reader-class"), "open_lanelet_network": (F, "no obstacles")},
    "commonroad.common.file_writer:CommonRoadFileWriter": {
        **_grp("write_to_file write_scenario_to_file", V, "entry/io-variants"),
        "check_validity_of_commonroad_file": (F, "static XSD check")},
}


def _resolve(path):
    import importlib
    mod, qual = path.split(":")
    obj = importlib.import_module(mod)
    for part in qual.split("."):
        obj = getattr(obj, part)
    return obj


def check_dimensions():
    """the table against the code under test: every parameter of the listed callables, every public method and every settable
    property of the listed classes must be an entry (and every entry must exist). Exit 2 otherwise."""
    import inspect
    bad = []
    for path, entries in DIM_SIGNATURES.items():
        try:
            params = [n for n in inspect.signature(_resolve(path)).parameters if n not in ("self", "cls")]
        except Exception as e:  # noqa
            bad.append(f"{path}: cannot be resolved ({e})")
            continue
        bad += [f"{path}: parameter '{n}' is not in DIMENSIONS" for n in params if n not in entries]
        bad += [f"{path}: DIMENSIONS names a parameter '{n}' that does not exist" for n in entries if n not in params]
    for path, entries in DIM_MEMBERS.items():
        try:
            cls = _resolve(path)
        except Exception as e:  # noqa
            bad.append(f"{path}: cannot be resolved ({e})")
            continue
        have = set()
        for n, v in inspect.getmembers(cls):
            if n.startswith("_"):
                continue
            if isinstance(v, property):
                if v.fset is not None:
                    have.add(n)
            elif callable(v):
                have.add(n)
        bad += [f"{path}: public method / settable property '{n}' is not in DIMENSIONS" for n in sorted(have - set(entries))]
        bad += [f"{path}: DIMENSIONS names '{n}', which does not exist (any more)" for n in sorted(set(entries) - have)]
    for table in (DIM_SIGNATURES, DIM_MEMBERS):
        for path, entries in table.items():
            for n, (status, why) in entries.items():
                if status not in (V, F, X) or not why:
                    bad.append(f"{path}.{n}: malformed entry")
    if bad:
        raise InfraError("C07 generator-audit table out of date (harness/c07.py DIM_SIGNATURES / DIM_MEMBERS):\n  " + "\n  ".join(bad))
    return sum(len(e) for e in DIM_SIGNATURES.values()) + sum(len(e) for e in DIM_MEMBERS.values())


DIMENSIONS = {"signatures": DIM_SIGNATURES, "members": DIM_MEMBERS}


G = 16.0           # grid
ORIS = [0.0, 0.0, 0.3, -1.2, 1.5708, 0.7854, 3.1416, -0.5, 2.0]


# ------------------------------------------------------------------------------------------------ generators

def _q(x):
    return round(x * G) / G


def gen_network(r):
    """Lanelets as strips: a monotone centre polyline offset by +-h (all on the grid)."""
    lanes = []
    nid = [0]

    def strip(pts, h, vertical=False):
        nid[0] += 1
        if vertical:
            left = [[_q(x - h), _q(y)] for x, y in pts]
            right = [[_q(x + h), _q(y)] for x, y in pts]
        else:
            left = [[_q(x), _q(y + h)] for x, y in pts]
            right = [[_q(x), _q(y - h)] for x, y in pts]
        lanes.append({"id": nid[0], "left": left, "right": right})

    x0 = r.choice([0.0, -8.0, 4.0])
    length = r.choice([16.0, 24.0, 32.0])
    w = r.choice([3.0, 3.5, 4.0])
    npar = r.choice([1, 2, 2, 3])
    y0 = r.choice([0.0, -4.0, 2.0])
    nv = r.choice([2, 3, 5])
    xs = [x0 + length * i / (nv - 1) for i in range(nv)]
    for k in range(npar):
        yc = y0 + w * k + w / 2
        strip([(x, yc) for x in xs], w / 2)
    if r.random() < 0.5:           # successor of the first lane (shares the end edge)
        strip([(x0 + length, y0 + w / 2), (x0 + length + 8.0, y0 + w / 2)], w / 2)
    if r.random() < 0.6:           # crossing lane (overlaps the parallel lanes)
        xc = x0 + r.choice([4.0, 8.0, 12.0])
        strip([(xc, y0 - 6.0), (xc, y0 + w * npar + 6.0)], r.choice([1.5, 2.0]), vertical=True)
    if r.random() < 0.5:           # bent lane leaving the road
        xb = x0 + r.choice([2.0, 6.0])
        yb = y0 + w * npar + r.choice([0.0, 1.0, 1.5])
        strip([(xb, yb), (xb + 6.0, yb + 1.0), (xb + 12.0, yb + 5.0), (xb + 18.0, yb + 5.0)], 1.5)
    if r.random() < 0.3:           # far lane
        strip([(x0 + 200.0, y0), (x0 + 220.0, y0)], 2.0)
    if len(lanes) < 2:
        strip([(x0, y0 - w / 2), (x0 + length, y0 - w / 2)], w / 2)
    if r.random() < 0.3:
        # lanelets EQUAL BY VALUE, distinct by id (a lane duplicated as an overlay of another type, the output of a map converter,
        # the opposite direction drawn on the same strip): every one of them contains the centre / meets the occupancy, so every
        # one has to be in the recorded sets and has to list the obstacle. "exact": the same vertices in the same order (the
        # polygons compare and hash equal); "reversed": the same region driven the other way (other vertex order); "dense": the
        # same region with an extra collinear vertex on either bound. Copies of copies happen (three or more equal polygons).
        for _ in range(r.choice([1, 1, 2, 3])):
            near = [l for l in lanes if l["left"][0][0] < x0 + 100.0]
            src = r.choice(near if r.random() < 0.85 else lanes)           # mostly where the obstacles are
            how = r.choice(["exact", "exact", "exact", "reversed", "dense"])
            left, right = [list(v) for v in src["left"]], [list(v) for v in src["right"]]
            if how == "reversed":
                left, right = right[::-1], left[::-1]
            elif how == "dense":
                i = r.randrange(len(left) - 1)
                left.insert(i + 1, [(left[i][0] + left[i + 1][0]) / 2, (left[i][1] + left[i + 1][1]) / 2])
                right.insert(i + 1, [(right[i][0] + right[i + 1][0]) / 2, (right[i][1] + right[i + 1][1]) / 2])
            nid[0] += 1
            lanes.append({"id": nid[0], "left": left, "right": right})
        if r.random() < 0.4:
            r.shuffle(lanes)            # the copy is not always the lanelet added last
    return lanes


def gen_local_shape(r, kinds=("rect", "rect", "circ", "poly", "group"), depth=0):
    k = r.choice(kinds if depth == 0 else [x for x in kinds if x != "group"])
    off = [0.0, 0.0] if depth == 0 else [r.randint(-48, 48) / G, r.randint(-32, 32) / G]
    if k == "rect":
        o = 0.0 if depth == 0 or r.random() < 0.6 else r.choice(ORIS)
        return {"k": "rect", "l": r.choice([4.0, 4.5, 2.0, 5.0, r.randint(8, 96) / G]), "w": r.choice([2.0, 1.5, 1.0, r.randint(8, 48) / G]),
                "c": off, "o": o}
    if k == "circ":
        return {"k": "circ", "r": r.choice([0.5, 1.0, 1.5, 2.0, 2.5, r.randint(4, 64) / G]), "c": off}
    if k == "poly":
        n = r.randint(3, 6)
        angs = sorted(r.uniform(0, 2 * math.pi) for _ in range(n))
        vs = []
        for a in angs:
            rad = r.uniform(0.75, 3.0)
            v = [_q(off[0] + rad * math.cos(a)), _q(off[1] + rad * math.sin(a))]
            if v not in vs:
                vs.append(v)
        ring = [(frac(x), frac(y)) for x, y in vs]
        if len(vs) < 3 or geom.shoelace(ring) == 0:
            vs = [[off[0] - 1.0, off[1] - 0.5], [off[0] + 1.0, off[1] - 0.5], [off[0] + 1.0, off[1] + 0.5], [off[0] - 1.0, off[1] + 0.5]]
        return {"k": "poly", "v": vs}
    return {"k": "group", "s": [gen_local_shape(r, kinds, depth + 1) for _ in range(r.randint(2, 3))]}


def _extent(spec):
    """half extents (x, y) of a local shape around the origin, ignoring rotation (only steers the placement)"""
    k = spec["k"]
    if k == "rect":
        return abs(spec["c"][0]) + spec["l"] / 2, abs(spec["c"][1]) + spec["w"] / 2
    if k == "circ":
        return abs(spec["c"][0]) + spec["r"], abs(spec["c"][1]) + spec["r"]
    if k == "poly":
        return max(abs(v[0]) for v in spec["v"]), max(abs(v[1]) for v in spec["v"])
    es = [_extent(s) for s in spec["s"]]
    return max(e[0] for e in es), max(e[1] for e in es)


def gen_position(r, lanes, spec):
    """A centre position chosen relative to a lanelet boundary and the shape's extent."""
    lane = r.choice(lanes)
    side = r.choice(["left", "right"])
    i = r.randrange(len(lane[side]) - 1)
    a, b = lane[side][i], lane[side][i + 1]
    s = r.choice([0.0, 0.25, 0.5, 0.5, 0.75, 1.0])
    bx, by = a[0] + s * (b[0] - a[0]), a[1] + s * (b[1] - a[1])       # point on a boundary
    ex, ey = _extent(spec)
    d = r.choice([0.0, ey, -ey, ey + 1 / G, -(ey + 1 / G), ey - 1 / G, -(ey - 1 / G), ex, -ex, 1.0, -1.0, 1.75, -1.75,
                  r.randint(-64, 64) / G, 40.0])
    if r.random() < 0.5:
        return [_q(bx), _q(by + d)]
    return [_q(bx + d), _q(by)] if r.random() < 0.3 else [_q(bx + r.randint(-32, 32) / G), _q(by + d)]


def gen_obstacles(r, lanes):
    obs = []
    n = r.choice([1, 2, 2, 3, 3, 4, 5])
    for k in range(n):
        kind = r.choice(["static", "traj", "traj", "none"])
        spec = gen_local_shape(r)
        axis = r.random() < 0.5
        o = {"id": 30 + k, "kind": kind, "shape": spec, "t0": r.choice([0, 0, 0, 1, 3]) if kind != "static" else r.choice([0, 0, 2]),
             "pos": gen_position(r, lanes, spec), "o": 0.0 if axis else r.choice(ORIS)}
        if kind == "traj":
            tr = []
            x, y = o["pos"]
            dx, dy = r.choice([(1.0, 0.0), (2.0, 0.5), (0.5, 1.0), (0.0, 1.75), (1.5, -1.0), (0.0, 0.0)])
            for _ in range(r.randint(1, 5)):
                x, y = x + dx, y + dy
                if r.random() < 0.25:
                    x, y = gen_position(r, lanes, spec)
                tr.append({"pos": [_q(x), _q(y)], "o": 0.0 if axis and r.random() < 0.8 else r.choice(ORIS)})
            o["traj"] = tr
        obs.append(o)
    if r.random() < 0.15:
        # a dynamic obstacle with a SetBasedPrediction (outside the property: never assigned, never registered; an
        # assignment that addresses it raises) rides along in some histories
        o = r.choice(obs)
        if o["kind"] != "static":
            occ = o.pop("traj", None) or [{"pos": gen_position(r, lanes, o["shape"]), "o": 0.0}]
            o["kind"], o["occ"] = "set", occ
    return obs


def gen_ops(r, obs):
    ids = [o["id"] for o in obs]
    inside, ops = set(), []
    kind = {o["id"]: o["kind"] for o in obs}
    t0 = {o["id"]: o["t0"] for o in obs}
    tf = {o["id"]: o["t0"] + len(o.get("traj", [])) for o in obs}
    # start: most obstacles are added
    for i in ids:
        if r.random() < 0.85:
            ops.append(["add", i])
            inside.add(i)
    if not inside:
        ops.append(["add", ids[0]])
        inside.add(ids[0])
    entry = r.choice(["assign", "assign", "xml", "pb"])
    ops.append(["assign", None, None, False] if entry == "assign" else ["reopen", entry])
    for _ in range(r.randint(1, 8)):
        x = r.random()
        outside = [i for i in ids if i not in inside]
        if x < 0.30 and inside:
            i = r.choice(sorted(inside))
            ops.append(["remove", i])
            inside.discard(i)
        elif x < 0.50 and outside:
            i = r.choice(outside)
            ops.append(["add", i])
            inside.add(i)
        elif x < 0.62:
            ops.append(["assign", None, None, False])
        elif x < 0.76 and inside:
            sub = sorted(r.sample(sorted(inside), r.randint(1, len(inside))))
            lo = min(t0[i] for i in sub)
            hi = max(tf[i] for i in sub)
            ts = None if r.random() < 0.4 else sorted({r.randint(lo - 1, hi + 1) for _ in range(r.randint(1, 4))})
            if ts is not None and r.random() < 0.5:
                r.shuffle(ts)           # explicit step lists need not be ascending nor inside every obstacle's horizon
            ops.append(["assign", sub if r.random() < 0.8 else None, ts, False])
        elif x < 0.86:
            ops.append(["reopen", r.choice(["xml", "pb"])])
        elif x < 0.91 and inside:
            ops.append(["assign", None if r.random() < 0.5 else sorted(inside)[:1], None, True])
        elif x < 0.96:
            # inadmissible arguments: correspondence of the error branches
            y = r.random()
            if y < 0.35 and inside:
                ops.append(["add", r.choice(sorted(inside))])
            elif y < 0.6 and outside:
                ops.append(["assign", [outside[0]], None, False])
            elif y < 0.8:
                ops.append(["remove", r.choice(ids)]) if outside else ops.append(["remove", 999])
                if ops[-1][1] in inside:
                    inside.discard(ops[-1][1])
            else:
                ops.append(["assign", None, [min(t0.values()) - 1, min(t0.values())], False])
        elif inside:
            i = r.choice(sorted(inside))
            ops.append(["remove", i])
            ops.append(["add", i])
    if r.random() < 0.5:
        for i in sorted(inside):
            if r.random() < 0.7:
                ops.append(["remove", i])
    # while a set-based obstacle is in the scenario most assignments name the other obstacles explicitly
    setb = {i for i in ids if kind[i] == "set"}
    if setb:
        inside, out = set(), []
        for op in ops:
            if op[0] == "add" and op[1] not in inside:
                inside.add(op[1])
            elif op[0] == "remove":
                inside.discard(op[1])
            elif op[0] == "assign" and (inside & setb) and r.random() < 0.8:
                sub = [i for i in (sorted(inside) if op[1] is None else op[1]) if i not in setb]
                if not sub:
                    continue
                op = ["assign", sub, op[2], op[3]]
            out.append(op)
        ops = out
    return ops


def gen_case(ctx):
    return diversify(ctx.rng, gen_case_base(ctx))


def diversify(r, case):
    """the dimensions of DIMENSIONS that are not histories of their own: entry-point variants (list forms, network level, reader
    reuse / reader classes), argument container and scalar types, value classes, in-place setters, read-only queries"""
    lids = [l["id"] for l in case["lanelets"]]
    ids = [o["id"] for o in case["obstacles"]]
    kind = {o["id"]: o["kind"] for o in case["obstacles"]}
    # value classes: obstacle id 0, very large time steps
    if r.random() < 0.12:
        old = ids[0]
        for o in case["obstacles"]:
            if o["id"] == old:
                o["id"] = 0
        def ren(x):
            return 0 if x == old else x
        for op in case["ops"]:
            if op[0] in ("add", "remove"):
                op[1] = ren(op[1])
            elif op[0] == "assign" and op[1] is not None:
                op[1] = [ren(i) for i in op[1]]
        ids = [ren(i) for i in ids]
        kind = {o["id"]: o["kind"] for o in case["obstacles"]}
    if r.random() < 0.08:
        big = 10 ** 6
        for o in case["obstacles"]:
            o["t0"] += big
            for key in ("pc", "ps"):
                if isinstance(o.get("preset"), dict) and o["preset"].get(key) is not None:
                    o["preset"][key] = {(str(int(t) + big) if isinstance(t, str) else t + big): v for t, v in o["preset"][key].items()}
        for op in case["ops"]:
            if op[0] == "assign" and op[2] is not None:
                op[2] = [t + big for t in op[2]]
    present = set(present0(case))
    inside, net_level, net_removed, out = set(), set(), set(), []
    replaced = False
    ops = case["ops"]
    k = 0
    while k < len(ops):
        op = list(ops[k])
        if replaced and ((op[0] == "rmlane" and op[1] not in present) or (op[0] == "addlane" and op[1] in present)):
            k += 1
            continue        # the base history's lanelet operation lost its meaning through an inserted network replacement
        # read-only queries, registry setters, attribute setters in between
        x = r.random()
        if x < 0.10:
            out.append(["query", r.randrange(4)])
        elif x < 0.13 and present:
            out.append(["clearlane", r.choice(sorted(present)), r.choice(["same", "empty", "empty"])])
        elif x < 0.19 and ids:
            i = r.choice(ids)
            if kind[i] != "set":
                how = "same" if r.random() < 0.3 else r.choice(["lookup", "none"])
                if i in inside and how != "same" and r.random() < 0.6:
                    i = next((j for j in ids if j not in inside and kind[j] != "set"), i)       # mostly obstacles outside the scenario
                out.append(["set", i, how])
        elif x < 0.225 and not net_level and not net_removed:
            absent = [l for l in lids if l not in present]
            mode = r.choice(["copy", "fresh", "swap", "swap"] if absent else ["copy", "fresh", "fresh"])
            new = [] if mode == "copy" else r.sample(absent if mode == "swap" else lids, r.randint(1, len(absent if mode == "swap" else lids)))
            out.append(["replacenet", mode, sorted(new)])
            if mode != "copy":
                present = set(new)
                replaced = True
        elif x < 0.237:
            dyn = [i for i in ids if kind[i] != "static"]
            if dyn:
                out.append(["update", r.choice(dyn), r.choice(["state", "state", "pred"])])
        # list forms of consecutive single operations
        if op[0] in ("add", "remove") and r.random() < 0.3:
            run = [op[1]]
            while k + 1 < len(ops) and ops[k + 1][0] == op[0] and ops[k + 1][1] not in run and len(run) < 4:
                k += 1
                run.append(ops[k][1])
            op = ["addmany" if op[0] == "add" else "removemany", run]
        elif op[0] == "rmlane" and r.random() < 0.3 and op[1] not in net_level:
            run = [op[1]]
            while k + 1 < len(ops) and ops[k + 1][0] == "rmlane" and ops[k + 1][1] not in run and ops[k + 1][1] not in net_level:
                k += 1
                run.append(ops[k][1])
            op = ["rmlanes", run]
        elif op[0] == "rmlane" and (op[1] in net_level or r.random() < 0.2):
            op = ["rmlane", op[1], "net"]
        elif op[0] == "rmlane" and r.random() < 0.25:
            op = ["rmlane", op[1], "noref"]
        elif op[0] == "addlane" and (op[1] in net_removed or r.random() < 0.25):
            op = ["addlane", op[1], "net"]
        elif op[0] == "assign":
            form = {"ids": r.choice(["set", "set", "list", "tuple", "frozenset"]), "ts": r.choice(["list", "list", "tuple", "range", "array"]),
                    "np": r.random() < 0.2}
            y = r.random()
            if y < 0.04:
                op[1] = []
            elif y < 0.08:
                op[2] = []
            elif y < 0.16 and op[2]:
                op[2] = list(op[2]) + [r.choice(op[2])]
            elif y < 0.22 and op[2] is None:
                T = max(o["t0"] for o in case["obstacles"])
                op[2] = [T + 1, T, T + 1]
            op = [op[0], op[1], op[2], op[3], form]
        elif op[0] == "reopen":
            op = ["reopen", op[1] + r.choice(["", "", "2", "r"]) + "".join(c for c in "nsp" if r.random() < 0.25)]
        # bookkeeping for the choices above
        if op[0] == "add":
            inside.add(op[1])
        elif op[0] == "addmany":
            inside.update(op[1])
        elif op[0] == "remove":
            inside.discard(op[1])
        elif op[0] == "removemany":
            inside.difference_update(op[1])
        elif op[0] == "addlane":
            present.add(op[1])
            if len(op) > 2 and op[1] in net_removed:
                net_removed.discard(op[1])
            elif len(op) > 2:
                net_level.add(op[1])
        elif op[0] == "rmlane":
            present.discard(op[1])
            if len(op) > 2 and op[2] == "net" and op[1] not in net_level:
                net_removed.add(op[1])
            net_level.discard(op[1])
        elif op[0] == "reopen":
            net_level, net_removed = set(), set()
        elif op[0] == "rmlanes":
            present.difference_update(op[1])
        out.append(op)
        k += 1
    case["ops"] = out
    return case


def gen_case_base(ctx):
    r = ctx.rng
    lanes = gen_network(r)
    obs = gen_obstacles(r, lanes)
    x = r.random()
    if x < 0.70:
        return {"lanelets": lanes, "obstacles": obs, "ops": gen_ops(r, obs)}
    lids = [l["id"] for l in lanes]
    ids = [o["id"] for o in obs]
    for o in obs:
        if o["kind"] == "set":          # keep the network histories to the obstacle kinds the property speaks about
            o["kind"] = "none"
            o.pop("occ", None)
    if x < 0.78:
        # a lanelet leaves the network between the assignment and remove_obstacle
        ops = [["add", i] for i in ids] + [["assign", None, None, False] if r.random() < 0.7 else ["reopen", r.choice(["xml", "pb"])]]
        gone = r.sample(lids, r.randint(1, max(1, len(lids) - 1)))
        ops += [["rmlane", l] for l in gone]
        rest = ids[:]
        r.shuffle(rest)
        ops += [["remove", i] for i in rest[:r.randint(1, len(rest))]]
        if r.random() < 0.5:
            ops += [["addlane", l] for l in gone[:r.randint(1, len(gone))]] + [["assign", None, None, False]]
            ops += [["remove", i] for i in rest[len(rest) // 2:] if ["remove", i] not in ops]
        return {"lanelets": lanes, "obstacles": obs, "ops": ops}
    if x < 0.86:
        # obstacles that come with lanelet ids (constructor arguments) are added to an empty network; the lanelets arrive later
        for o in obs:
            if r.random() < 0.85:
                o["preset"] = "auto"
        late = lids[:]
        r.shuffle(late)
        ops = [["add", i] for i in ids] + [["addlane", l] for l in late[:r.randint(1, len(late))]]
        rest = ids[:]
        r.shuffle(rest)
        ops += [["remove", i] for i in rest[:r.randint(1, len(rest))]]
        if r.random() < 0.6:
            ops += [["addlane", l] for l in late if ["addlane", l] not in ops] + [["add", i] for i in ids if ["remove", i] in ops]
            ops += [["assign", None, None, False]] + [["remove", i] for i in rest[:1]]
        return {"lanelets": lanes, "present0": [], "obstacles": obs, "ops": ops}
    # free mixture: the obstacle history of gen_ops with lanelet removals / (re-)additions in between, some lanelets absent at
    # the start, some obstacles with preset ids
    present = set(lids if r.random() < 0.5 else r.sample(lids, r.randint(1, len(lids))))
    p0 = sorted(present)
    for o in obs:
        if r.random() < 0.3:
            o["preset"] = "auto"
    ops = []
    for op in gen_ops(r, obs):
        while r.random() < 0.25:
            absent = [l for l in lids if l not in present]
            if absent and (r.random() < 0.5 or len(present) <= 1):
                l = r.choice(absent)
                ops.append(["addlane", l])
                present.add(l)
            elif present:
                l = r.choice(sorted(present))
                ops.append(["rmlane", l])
                present.discard(l)
        ops.append(op)
    if r.random() < 0.1:
        ops.append(["rmlane", r.choice(lids)])         # possibly a lanelet that is not there: KeyError branch
    return {"lanelets": lanes, "present0": p0, "obstacles": obs, "ops": ops}


# ------------------------------------------------------------------------------------------------ real objects

def build_lanelet(l):
    import numpy as np
    from commonroad.scenario.lanelet import Lanelet
    left = np.array(l["left"], dtype=float)
    right = np.array(l["right"], dtype=float)
    return Lanelet(left, (left + right) / 2.0, right, l["id"])


def build_obstacle(o):
    import numpy as np
    from commonroad.prediction.prediction import TrajectoryPrediction
    from commonroad.scenario.obstacle import DynamicObstacle, ObstacleType, StaticObstacle
    from commonroad.scenario.state import InitialState, KSState
    from commonroad.scenario.trajectory import Trajectory
    shape = geom.build_shape(o["shape"])
    ini = InitialState(position=np.array(o["pos"], dtype=float), orientation=float(o["o"]), time_step=int(o["t0"]),
                       velocity=1.0, acceleration=0.0, yaw_rate=0.0, slip_angle=0.0)
    pre = o.get("preset") or {}
    ids = {"initial_center_lanelet_ids": None if pre.get("ic") is None else set(pre["ic"]),
           "initial_shape_lanelet_ids": None if pre.get("is") is None else set(pre["is"])}
    if o["kind"] == "static":
        return StaticObstacle(o["id"], ObstacleType.PARKED_VEHICLE, shape, ini, signal_series=[], **ids)
    pred = None
    if o["kind"] == "set":
        from commonroad.prediction.prediction import Occupancy, SetBasedPrediction
        occs = [Occupancy(int(o["t0"]) + 1 + k, geom.build_shape(o["shape"]).rotate_translate_local(
            np.array(s["pos"], dtype=float), float(s["o"]))) for k, s in enumerate(o["occ"])]
        pred = SetBasedPrediction(int(o["t0"]) + 1, occs)
    if o["kind"] == "traj":
        sts = [KSState(position=np.array(s["pos"], dtype=float), orientation=float(s["o"]), time_step=int(o["t0"]) + 1 + k,
                       velocity=1.0, steering_angle=0.0) for k, s in enumerate(o["traj"])]
        pred = TrajectoryPrediction(Trajectory(int(o["t0"]) + 1, sts), geom.build_shape(o["shape"]),
                                    None if pre.get("pc") is None else {int(t): set(v) for t, v in pre["pc"].items()},
                                    None if pre.get("ps") is None else {int(t): set(v) for t, v in pre["ps"].items()})
    return DynamicObstacle(o["id"], ObstacleType.CAR, shape, ini, pred, signal_series=[], **ids)


def build_scenario(case):
    from commonroad.scenario.lanelet import LaneletNetwork
    from commonroad.scenario.scenario import Location, Scenario, ScenarioID, Tag
    sc = Scenario(0.1, ScenarioID(), author="verif", tags={Tag.URBAN}, affiliation="verif", source="verif", location=Location())
    p0 = present0(case)
    sc.add_objects(LaneletNetwork.create_from_lanelet_list([build_lanelet(l) for l in case["lanelets"] if l["id"] in p0]))
    return sc


def present0(case):
    """ids of the lanelets in the scenario at the start of the history (default: all of the case)"""
    return [l["id"] for l in case["lanelets"]] if case.get("present0") is None else list(case["present0"])


def horizon(o):
    return list(range(o["t0"], o["t0"] + 1 + (len(o["traj"]) if o["kind"] == "traj" else 0)))


def reopen(ctx, sc, fmt, counter=[0]):
    """write the scenario to a file and read it back. fmt = "xml" | "pb" followed by flags:
      "2" ONE reader object opened several times (first without lanelet assignment; the results must not share lanelet objects)
      "r" the format-specific reader class directly   "n" file_format=None (taken from the suffix)
      "s" CommonRoadFileWriter.write_scenario_to_file   "p" the file name as pathlib.Path"""
    import pathlib
    from commonroad.common.file_reader import CommonRoadFileReader
    from commonroad.common.file_writer import CommonRoadFileWriter, OverwriteExistingFile
    from commonroad.common.util import FileFormat
    from commonroad.planning.planning_problem import PlanningProblemSet
    counter[0] += 1
    base = fmt[:3] if fmt.startswith("xml") else "pb"
    how = fmt[len(base):]
    ff = FileFormat.XML if base == "xml" else FileFormat.PROTOBUF
    path = os.path.join(ctx.tmpdir(), f"s{os.getpid()}_{counter[0]}.{'xml' if base == 'xml' else 'pb'}")
    name = pathlib.Path(path) if "p" in how else path
    w = CommonRoadFileWriter(sc, PlanningProblemSet(), sc.author, sc.affiliation, sc.source, sc.tags, sc.location, file_format=ff)
    if "s" in how:
        w.write_scenario_to_file(name, OverwriteExistingFile.ALWAYS)
    else:
        w.write_to_file(name, OverwriteExistingFile.ALWAYS, check_validity=False)
    if "r" in how:
        if base == "xml":
            from commonroad.common.reader.file_reader_xml import XMLFileReader
            rd = XMLFileReader(name)
        else:
            from commonroad.common.reader.file_reader_protobuf import ProtobufFileReader
            rd = ProtobufFileReader(name)
        sc2 = rd.open(True)
        sc2 = sc2[0] if isinstance(sc2, tuple) else sc2
    else:
        rd = CommonRoadFileReader(name, file_format=None if "n" in how else ff)
        if "2" in how:
            rd.open(lanelet_assignment=False)
            rd.open(lanelet_assignment=True)
        sc2, _ = rd.open(lanelet_assignment=True)
    os.unlink(path)
    return sc2


# ------------------------------------------------------------------------------------------------ reading the state off

def _sset(x):
    return None if x is None else sorted(int(v) for v in x)


def _sdict(d):
    return None if d is None else {str(int(t)): sorted(int(v) for v in ids) for t, ids in d.items()}


def observe(sc, objs, universe=None):
    fwd = {}
    for oid, ob in objs.items():
        p = getattr(ob, "prediction", None)
        fwd[str(oid)] = {"ic": _sset(ob.initial_center_lanelet_ids), "is": _sset(ob.initial_shape_lanelet_ids),
                         "pc": _sdict(getattr(p, "center_lanelet_assignment", None)),
                         "ps": _sdict(getattr(p, "shape_lanelet_assignment", None))}
    lanes = {l.lanelet_id: l for l in sc.lanelet_network.lanelets}
    ids = sorted(lanes) if universe is None else sorted(universe)
    return {"fwd": fwd,
            "present": sorted(lanes),
            "statics": sorted(o.obstacle_id for o in sc.static_obstacles),
            "dynamics": sorted(o.obstacle_id for o in sc.dynamic_obstacles),
            "sreg": {str(i): _sset(lanes[i].static_obstacles_on_lanelet) if i in lanes else [] for i in ids},
            "dreg": {str(i): _sdict(lanes[i].dynamic_obstacles_on_lanelet) if i in lanes else {} for i in ids}}


# ------------------------------------------------------------------------------------------------ exact geometry (oracle)

def _orient(a, b, c):
    v = (b[0] - a[0]) * (c[1] - a[1]) - (b[1] - a[1]) * (c[0] - a[0])
    return (v > 0) - (v < 0)


def _between(a, b, c):
    return min(a[0], b[0]) <= c[0] <= max(a[0], b[0]) and min(a[1], b[1]) <= c[1] <= max(a[1], b[1])


def seg_hit(a, b, c, d):
    """closed segments ab and cd share a point (exact)"""
    if max(a[0], b[0]) < min(c[0], d[0]) or max(c[0], d[0]) < min(a[0], b[0]) or \
       max(a[1], b[1]) < min(c[1], d[1]) or max(c[1], d[1]) < min(a[1], b[1]):
        return False
    o1, o2, o3, o4 = _orient(a, b, c), _orient(a, b, d), _orient(c, d, a), _orient(c, d, b)
    if o1 * o2 < 0 and o3 * o4 < 0:
        return True
    return (o1 == 0 and _between(a, b, c)) or (o2 == 0 and _between(a, b, d)) or \
           (o3 == 0 and _between(c, d, a)) or (o4 == 0 and _between(c, d, b))


def _bbox(ring):
    return min(p[0] for p in ring), min(p[1] for p in ring), max(p[0] for p in ring), max(p[1] for p in ring)


def rings_hit(A, B):
    """closed simple polygons A and B share a point (exact)"""
    a, b = _bbox(A), _bbox(B)
    if a[2] < b[0] or b[2] < a[0] or a[3] < b[1] or b[3] < a[1]:
        return False
    na, nb = len(A), len(B)
    for i in range(na):
        for j in range(nb):
            if seg_hit(A[i], A[(i + 1) % na], B[j], B[(j + 1) % nb]):
                return True
    return geom.point_in_ring(A[0], B)[0] or geom.point_in_ring(B[0], A)[0]


def disc_dist2(c, ring):
    inside, d2 = geom.point_in_ring(c, ring)
    return Fraction(0) if inside else d2


def _open_ring(vs):
    ring = [(frac(x), frac(y)) for x, y in vs]
    if len(ring) >= 2 and ring[0] == ring[-1]:
        ring = ring[:-1]
    return ring


def shape_spec(shape):
    """raw parameters of a commonroad Shape"""
    from commonroad.geometry.shape import Circle, Polygon, Rectangle, ShapeGroup
    if isinstance(shape, Rectangle):
        return {"k": "rect", "l": float(shape.length), "w": float(shape.width), "c": [float(shape.center[0]), float(shape.center[1])],
                "o": float(shape.orientation)}
    if isinstance(shape, Circle):
        return {"k": "circ", "r": float(shape.radius), "c": [float(shape.center[0]), float(shape.center[1])]}
    if isinstance(shape, Polygon):
        return {"k": "poly", "v": [[float(x), float(y)] for x, y in shape.vertices]}
    if isinstance(shape, ShapeGroup):
        return {"k": "group", "s": [shape_spec(s) for s in shape.shapes]}
    raise ValueError(type(shape))


EPS = Fraction(1, 10 ** 9)


def shape_hits(spec, ring, half=False):
    """'Y' / 'N' / '?' : does the closed shape meet the closed lanelet polygon (half: circles taken with radius r/2)"""
    k = spec["k"]
    if k == "circ":
        r = frac(spec["r"]) / (2 if half else 1)
        d2 = disc_dist2((frac(spec["c"][0]), frac(spec["c"][1])), ring)
        if d2 <= (r * Fraction(998, 1000)) ** 2:
            return "Y"
        if d2 > (r * (1 + EPS)) ** 2:
            return "N"
        return "?"
    if k == "rect":
        if spec["o"] == 0:
            return "Y" if rings_hit(geom.rect_vertices(spec), ring) else "N"
        a = rings_hit(geom.rect_vertices(dict(spec, l=spec["l"] * (1 + 1e-9), w=spec["w"] * (1 + 1e-9))), ring)
        b = rings_hit(geom.rect_vertices(dict(spec, l=spec["l"] * (1 - 1e-9), w=spec["w"] * (1 - 1e-9))), ring)
        return "?" if a != b else ("Y" if a else "N")
    if k == "poly":
        return "Y" if rings_hit(_open_ring(spec["v"]), ring) else "N"
    res = [shape_hits(s, ring, half) for s in spec["s"]]
    if "Y" in res:
        return "Y"
    return "?" if "?" in res else "N"


def brute(sc, ob, t):
    """(center: must, maybe ; shape: must, maybe ; shape with circles of radius r/2: (must, maybe) or None) lanelet id sets for
    obstacle object `ob` at time step t"""
    st = ob.initial_state if t == ob.initial_state.time_step else ob.prediction.trajectory.state_at_time_step(t)
    p = (frac(st.position[0]), frac(st.position[1]))
    spec = shape_spec(ob.occupancy_at_time(t).shape)
    cm, cq, sm, sq, hm, hq = set(), set(), set(), set(), set(), set()
    circ = has_circle(spec)
    for l in sc.lanelet_network.lanelets:
        ring = _open_ring(list(l.right_vertices) + list(l.left_vertices[::-1]))
        inside, d2 = geom.point_in_ring(p, ring)
        if inside:
            cm.add(l.lanelet_id)
        elif d2 <= EPS * EPS:
            cq.add(l.lanelet_id)
        h = shape_hits(spec, ring)
        if h == "Y":
            sm.add(l.lanelet_id)
        elif h == "?":
            sq.add(l.lanelet_id)
        if circ:
            h = shape_hits(spec, ring, half=True)
            if h == "Y":
                hm.add(l.lanelet_id)
            elif h == "?":
                hq.add(l.lanelet_id)
    return cm, cq, sm, sq, (hm, hq) if circ else None


def has_circle(spec):
    return spec["k"] == "circ" or (spec["k"] == "group" and any(has_circle(x) for x in spec["s"]))


def top_kind(spec):
    return spec["k"]


# ------------------------------------------------------------------------------------------------ one history

def fail(ctx, key, what, case):
    """ctx.fail, at most 8 reports per finding key and worker (the context keeps 200 failures in all: a frequent known finding
    must not crowd out a different one)"""
    n = ctx.__dict__.setdefault("_c07_per_key", {})
    n[key] = n.get(key, 0) + 1
    if n[key] <= 8:
        ctx.fail(key, what, case)


class World:
    def __init__(self, ctx, case):
        self.ctx, self.case = ctx, case
        self.spec = {o["id"]: o for o in case["obstacles"]}
        from commonroad.scenario.lanelet import LaneletNetwork
        self.sc = build_scenario(case)
        self.lane_spec = {l["id"]: l for l in case["lanelets"]}
        # the lookups on ALL lanelets of the case (the model restricts them to the lanelets present at the time of the call)
        self.universe = LaneletNetwork.create_from_lanelet_list([build_lanelet(l) for l in case["lanelets"]])
        self.objs = {o["id"]: build_obstacle(dict(o, preset=None)) for o in case["obstacles"]}
        if any(o.get("preset") == "auto" for o in case["obstacles"]):
            # "auto": the obstacle is constructed with the lookup answers on all lanelets of the case as its lanelet ids
            look = self.lookups()
            for o in case["obstacles"]:
                if o.get("preset") == "auto" and o["kind"] != "set":
                    rows = look[o["id"]]
                    pre = {"ic": rows[0][1], "is": rows[0][2]}
                    if o["kind"] == "traj":
                        pre["pc"] = {str(t): c for t, c, _ in rows}
                        pre["ps"] = {str(t): sh for t, _, sh in rows}
                    o["preset"] = pre
                elif o.get("preset") == "auto":
                    o["preset"] = None
        self.objs = {o["id"]: build_obstacle(o) for o in case["obstacles"]}
        self._brute = {}
        self._seen = set()
        self.net_version = 0

    def ring_key(self, lid):
        l = self.lane_spec[lid]
        return tuple(map(tuple, l["right"])) + tuple(map(tuple, l["left"][::-1]))

    def region_key(self, lid):
        """the region of a strip lanelet: its boundary vertices without collinear ones, as a set (good enough for a coverage tag)"""
        k = self.ring_key(lid)
        n = len(k)
        return frozenset(k[i] for i in range(n) if _orient(tuple(map(frac, k[i - 1])), tuple(map(frac, k[i])), tuple(map(frac, k[(i + 1) % n]))) != 0)

    def first(self, what):
        if what in self._seen:
            return False
        self._seen.add(what)
        return True

    def brute(self, oid, t):
        key = (id(self.objs[oid]), id(self.sc.lanelet_network), self.net_version, t)
        if key not in self._brute:
            self._brute[key] = (self.objs[oid], brute(self.sc, self.objs[oid], t))      # keep the object alive: id() stays unique
        return self._brute[key][1]

    def lookups(self):
        """answers of the library's two lookups for every obstacle and time step (parameters of the model)"""
        net = self.universe
        out = {}
        for oid, o in self.spec.items():
            ob = self.objs[oid]
            rows = []
            if o["kind"] == "set":          # never looked up by the code (and not by the model)
                out[oid] = [[o["t0"], [], []]]
                continue
            for t in horizon(o):
                st = ob.initial_state if t == o["t0"] else ob.prediction.trajectory.state_at_time_step(t)
                c = sorted(int(x) for x in set(net.find_lanelet_by_position([st.position])[0]))
                s = sorted(int(x) for x in set(net.find_lanelet_by_shape(ob.occupancy_at_time(t).shape)))
                rows.append([t, c, s])
            out[oid] = rows
        return out

    def apply(self, op):
        try:
            self._apply(op)
        except BaseException:
            self.net_version += 1       # a call that failed half-way may have changed the network: the oracle's cache is per network state
            raise

    def _apply(self, op):
        sc = self.sc
        if op[0] == "add":
            sc.add_objects(self.objs[op[1]])
        elif op[0] == "remove":
            ob = sc.obstacle_by_id(op[1])
            sc.remove_obstacle(ob if ob is not None else self.objs.get(op[1], build_obstacle(dict(self.case["obstacles"][0], id=op[1]))))
        elif op[0] == "addmany":
            sc.add_objects([self.objs[i] for i in op[1]])
        elif op[0] == "removemany":
            sc.remove_obstacle([sc.obstacle_by_id(i) if sc.obstacle_by_id(i) is not None else
                                self.objs.get(i, build_obstacle(dict(self.case["obstacles"][0], id=i))) for i in op[1]])
        elif op[0] == "assign":
            form = op[4] if len(op) > 4 and op[4] else {}
            sc.assign_obstacles_to_lanelets(time_steps=_as_form(op[2], form.get("ts", "list"), form.get("np")),
                                            obstacle_ids=_as_form(op[1], form.get("ids", "set"), form.get("np")),
                                            use_center_only=bool(op[3]))
        elif op[0] == "reopen":
            sc2 = reopen(self.ctx, sc, op[1])
            for ob in sc2.obstacles:
                self.objs[ob.obstacle_id] = ob
            self.sc = sc2
            self.net_version += 1
        elif op[0] == "rmlane":
            la = sc.lanelet_network.find_lanelet_by_id(op[1])
            if len(op) > 2 and op[2] == "net":
                sc.lanelet_network.remove_lanelet(op[1])               # network-level entry point
            elif len(op) > 2 and op[2] == "noref":
                sc.remove_lanelet(la if la is not None else build_lanelet(self.lane_spec[op[1]]), referenced_elements=False)
            else:
                sc.remove_lanelet(la if la is not None else build_lanelet(self.lane_spec[op[1]]))
            self.net_version += 1
        elif op[0] == "replacenet":
            from commonroad.scenario.lanelet import LaneletNetwork
            if op[1] == "copy":        # the lanelets are deep-copied WITH their registries
                sc.replace_lanelet_network(LaneletNetwork.create_from_lanelet_network(sc.lanelet_network))
            else:
                net = LaneletNetwork.create_from_lanelet_list([build_lanelet(self.lane_spec[l]) for l in op[2]])
                if op[1] == "fresh":
                    sc.replace_lanelet_network(net)
                else:                  # "swap": a LaneletNetwork handed to add_objects takes the place of the current one
                    sc.add_objects(net)
            self.net_version += 1
        elif op[0] == "update":
            # simulation stepping: the obstacle object is advanced in place; nobody tells the lanelets
            ob = sc.obstacle_by_id(op[1]) or self.objs[op[1]]
            if op[2] == "pred":
                ob.update_prediction(None)
            else:
                from commonroad.scenario.state import InitialState
                nxt = ob.state_at_time(ob.initial_state.time_step + 1) or ob.initial_state
                nxt = InitialState(position=nxt.position, orientation=nxt.orientation, time_step=nxt.time_step, velocity=1.0,
                                   acceleration=0.0, yaw_rate=0.0, slip_angle=0.0)
                ob.update_initial_state(nxt, current_center_lanelet_ids=ob.initial_center_lanelet_ids,
                                        current_shape_lanelet_ids=ob.initial_shape_lanelet_ids)
        elif op[0] == "rmlanes":
            sc.remove_lanelet([sc.lanelet_network.find_lanelet_by_id(l) or build_lanelet(self.lane_spec[l]) for l in op[1]])   # list form
            self.net_version += 1
        elif op[0] == "addlane":
            if len(op) > 2 and op[2] == "net":
                sc.lanelet_network.add_lanelet(build_lanelet(self.lane_spec[op[1]]))
            else:
                sc.add_objects(build_lanelet(self.lane_spec[op[1]]))        # a fresh lanelet object: empty registries
            self.net_version += 1
        elif op[0] == "clearlane":
            la = sc.lanelet_network.find_lanelet_by_id(op[1])
            if op[2] == "same":            # the same set / dict handed back to the setters
                la.static_obstacles_on_lanelet = la.static_obstacles_on_lanelet
                la.dynamic_obstacles_on_lanelet = la.dynamic_obstacles_on_lanelet
            else:
                la.static_obstacles_on_lanelet = set()
                la.dynamic_obstacles_on_lanelet = {}
        elif op[0] == "set":
            ob = sc.obstacle_by_id(op[1]) or self.objs[op[1]]
            val = self.set_value(op[1], op[2])
            ob.initial_center_lanelet_ids = ob.initial_center_lanelet_ids if op[2] == "same" else (None if val["ic"] is None else set(val["ic"]))
            ob.initial_shape_lanelet_ids = ob.initial_shape_lanelet_ids if op[2] == "same" else (None if val["is"] is None else set(val["is"]))
            p = getattr(ob, "prediction", None)
            if self.spec[op[1]]["kind"] == "traj":
                p.center_lanelet_assignment = p.center_lanelet_assignment if op[2] == "same" else \
                    (None if val["pc"] is None else {int(t): set(v) for t, v in val["pc"].items()})
                p.shape_lanelet_assignment = p.shape_lanelet_assignment if op[2] == "same" else \
                    (None if val["ps"] is None else {int(t): set(v) for t, v in val["ps"].items()})
        elif op[0] == "query":
            self.query(op[1])
        else:
            raise ValueError(op)

    def set_value(self, oid, how):
        """the attribute values operation ["set", oid, how] writes: 'same' = what the object carries, 'none', 'lookup' = the
        lookup answers on all lanelets of the case"""
        o, ob = self.spec[oid], (self.sc.obstacle_by_id(oid) or self.objs[oid])
        if how == "same":
            p = getattr(ob, "prediction", None)
            return {"ic": _sset(ob.initial_center_lanelet_ids), "is": _sset(ob.initial_shape_lanelet_ids),
                    "pc": _sdict(getattr(p, "center_lanelet_assignment", None)), "ps": _sdict(getattr(p, "shape_lanelet_assignment", None))}
        if how == "none" or o["kind"] == "set":
            return {"ic": None, "is": None, "pc": None, "ps": None}
        rows = self._look[oid]
        val = {"ic": rows[0][1], "is": rows[0][2], "pc": None, "ps": None}
        if o["kind"] == "traj":
            val["pc"] = {str(t): c for t, c, _ in rows}
            val["ps"] = {str(t): sh for t, _, sh in rows}
        return val

    def query(self, k):
        """read-only calls (nothing the property observes may change): occupancies, lookups, obstacle queries, copies"""
        import copy
        import numpy as np
        from commonroad.common.util import Interval
        sc = self.sc
        obs = sc.obstacles
        if k == 0:
            for ob in obs:
                for t in range(ob.initial_state.time_step - 1, ob.initial_state.time_step + 3):
                    ob.occupancy_at_time(t)
                    ob.state_at_time(t)
                getattr(getattr(ob, "prediction", None), "occupancy_set", None)
        elif k == 1:
            for la in sc.lanelet_network.lanelets:
                for t in (0, 1, 2):
                    la.get_obstacles([ob for ob in obs if ob.occupancy_at_time(t) is not None], t)
                la.polygon, la.distance, la.inner_distance
                for t in list(la.dynamic_obstacles_on_lanelet) + [-5, 10 ** 7]:
                    if set(la.dynamic_obstacle_by_time_step(t)) != set(la.dynamic_obstacles_on_lanelet.get(t, ())):
                        raise AssertionError(f"dynamic_obstacle_by_time_step({t}) differs from the registry of lanelet {la.lanelet_id}")
            sc.lanelet_network.map_obstacles_to_lanelets([ob for ob in obs if ob.occupancy_at_time(0) is not None])
        elif k == 2:
            sc.lanelet_network.find_lanelet_by_position([np.array([1.0, 1.0]), np.array([500.0, 3.0])])
            for ob in obs:
                sc.lanelet_network.find_lanelet_by_shape(ob.occupancy_at_time(ob.initial_state.time_step).shape)
                sc.obstacle_by_id(ob.obstacle_id)
            sc.obstacle_states_at_time_step(0), sc.occupancies_at_time_step(1), sc.obstacles_by_position_intervals([Interval(-1e4, 1e4), Interval(-1e4, 1e4)])
        else:
            copy.deepcopy(sc)
            hash(sc.scenario_id), len(sc.dynamic_obstacles), len(sc.static_obstacles), [l.lanelet_id for l in sc.lanelet_network.lanelets]

    def present(self):
        return {l.lanelet_id for l in self.sc.lanelet_network.lanelets}

    def recorded_lanelets(self, oid):
        """every lanelet id the obstacle object's SHAPE attributes name (what add_objects registers)"""
        ob = self.objs[oid]
        out = set(ob.initial_shape_lanelet_ids or ())
        for ids in (getattr(getattr(ob, "prediction", None), "shape_lanelet_assignment", None) or {}).values():
            out |= set(ids)
        return out


def _as_form(xs, form, np_ints=False):
    """the argument in one of the container / scalar types a caller may pass"""
    if xs is None:
        return None
    import numpy as np
    vals = [np.int64(x) for x in xs] if np_ints else list(xs)
    if form == "set":
        return set(vals)
    if form == "frozenset":
        return frozenset(vals)
    if form == "tuple":
        return tuple(vals)
    if form == "array":
        return np.array(list(xs), dtype=np.int64)
    if form == "range" and len(xs) > 0 and list(xs) == list(range(xs[0], xs[0] + len(xs))):
        return range(xs[0], xs[0] + len(xs))
    return vals


def model_ops(op, w):
    """the operation as a list of model operations (list forms are loops over the single form; the variants of an entry point
    are one model operation; 'set' with its concrete values — evaluated BEFORE the operation is applied)"""
    if op[0] == "addmany":
        return [["add", i] for i in op[1]]
    if op[0] == "removemany":
        return [["remove", i] for i in op[1]]
    if op[0] == "rmlanes":
        return [["rmlane", l] for l in op[1]]
    if op[0] in ("rmlane", "addlane"):
        return [[op[0], op[1]]]
    if op[0] == "replacenet":
        if op[1] == "copy":
            return [["query"]]
        return [["rmlane", l] for l in sorted(w.present())] + [["addlane", l] for l in op[2]]
    if op[0] == "update":
        return []
    if op[0] == "clearlane":
        return [["query"]] if op[2] == "same" else [["clearlane", op[1]]]
    if op[0] == "set":
        return [["set", op[1], w.set_value(op[1], op[2])]]
    if op[0] == "query":
        return [["query"]]
    if op[0] == "assign":
        return [["assign", op[1], op[2], op[3]]]
    if op[0] == "reopen":
        return [["reopen", "xml" if op[1].startswith("xml") else "pb"]]
    return [op]


def admissible(op, spec, inside, w=None):
    """is the operation one the property speaks about (valid arguments)"""
    if op[0] == "rmlane":
        return w is not None and op[1] in w.present()
    if op[0] == "rmlanes":
        return w is not None and all(l in w.present() for l in op[1]) and len(set(op[1])) == len(op[1])
    if op[0] == "clearlane":
        return w is not None and op[1] in w.present()
    if op[0] in ("set", "query", "update"):
        return True
    if op[0] == "replacenet":
        if op[1] == "copy":
            return True
        ok = w is not None and all(l in w.lane_spec for l in op[2]) and len(set(op[2])) == len(op[2])
        return ok and (op[1] == "fresh" or not (set(op[2]) & w.present()))     # add_objects refuses ids that are in use
    if op[0] == "addmany":
        seen = set(inside)
        for i in op[1]:
            if not admissible(["add", i], spec, seen, w):
                return False
            seen.add(i)
        return True
    if op[0] == "removemany":
        return all(i in inside for i in op[1]) and len(set(op[1])) == len(op[1])
    if op[0] == "addlane":
        return w is not None and op[1] in w.lane_spec and op[1] not in w.present() and op[1] not in inside
    if op[0] == "add":
        if not (op[1] in spec and op[1] not in inside):
            return False
        # an obstacle whose recorded shape sets name a lanelet that is not in the (non-empty) network cannot be added
        # (AttributeError by construction; the property does not promise that adding never fails)
        if w is not None and spec[op[1]]["kind"] != "set" and w.present() and not w.recorded_lanelets(op[1]) <= w.present():
            return False
        return True
    if op[0] == "remove":
        return op[1] in inside
    if op[0] == "assign":
        ids = sorted(inside) if op[1] is None else op[1]
        if any(i not in inside for i in ids):
            return False
        if any(spec[i]["kind"] == "set" for i in ids):
            return False      # a SetBasedPrediction is outside the property; the call raises AttributeError by construction
        if op[2] is not None:
            for i in ids:
                if spec[i]["kind"] == "traj" and any(t < spec[i]["t0"] for t in op[2]):
                    return False
        return True
    return True


def judge(w, op, opname, inside, shape_mode, st, sub, pure=True, net_pending=False):
    """oracle: the property statement on the observed state `st` after operation `op`.
    pure: the network never changed and no obstacle came with preset lanelet ids (then EVERY recorded set must be the geometric
    truth at any time; otherwise only the sets the operation just wrote are judged — older ones may name lanelets that left).
    net_pending: a lanelet was (re-)added since the last full assignment / file read: obstacles may record it without being
    listed on the fresh object, so only 'registry within recorded' is judged."""
    ctx = w.ctx
    present = set(st["present"])
    # (1) every recorded set is the geometric truth; after an assignment nothing of the horizon is missing
    full = (op[0] == "reopen") or (op[0] == "assign" and not op[3])
    addressed = set()
    if op[0] == "reopen":
        addressed = {(i, t) for i in inside for t in horizon(w.spec[i])}
    elif op[0] == "assign" and not op[3]:
        for i in (sorted(inside) if op[1] is None else op[1]):
            for t in horizon(w.spec[i]):
                if op[2] is None or t in op[2]:
                    addressed.add((i, t))
    for oid, o in w.spec.items():
        f = st["fwd"][str(oid)]
        sk = top_kind(o["shape"])
        if o["kind"] == "set":
            continue          # outside the property's quantifier (compared with the model only; the registries are judged below)
        for t in horizon(o):
            recs = []
            if t == o["t0"]:
                recs.append(("initial", f["ic"], f["is"]))
            if o["kind"] == "traj":
                recs.append(("prediction", None if f["pc"] is None else f["pc"].get(str(t)),
                             None if f["ps"] is None else f["ps"].get(str(t))))
            for where, rc, rs in recs:
                if full and (oid, t) in addressed and (rc is None or rs is None):
                    fail(ctx, f"C07/{opname}/not-assigned/{o['kind']}",
                             f"after {op} obstacle {oid} ({o['kind']}) has no {where} lanelet sets at time step {t}: center {rc}, shape {rs}", sub)
                if rc is None and rs is None:
                    continue
                if not pure and (oid, t) not in addressed:
                    continue
                cm, cq, sm, sq, half = w.brute(oid, t)
                if (cq or sq) and w.first(("amb", oid, t)):
                    ctx.excluded += 1          # one ambiguous (obstacle, time step): the ambiguous lanelets are not judged
                # a wrong set is reported once, after the operation that produced it (it stays on the object afterwards)
                if rc is not None and not (cm <= set(rc) <= cm | cq) and w.first(("c", oid, t, where, tuple(rc))):
                    fail(ctx, f"C07/{opname}/center-set-wrong/{o['kind']}",
                             f"after {op}: obstacle {oid} ({o['kind']}) t={t} {where} center lanelets recorded {rc}, lanelets containing "
                             f"the center {sorted(cm)}", sub)
                if rs is not None and not (sm <= set(rs) <= sm | sq) and w.first(("s", oid, t, where, tuple(rs))):
                    if half is not None and set(rs) <= sm | sq and half[0] <= set(rs) <= half[0] | half[1]:
                        # exactly the lanelets met by the discs of HALF the radius: Circle.shapely_object (shape.py:240-242)
                        fail(ctx, f"C07/{opname}/shape-lanelets-missing/circ",
                                 f"after {op}: obstacle {oid} ({o['kind']}, {sk}) t={t} {where} shape lanelets recorded {rs} = lanelets met "
                                 f"by the disc of radius r/2; the occupancy (radius r) intersects {sorted(sm)}", sub)
                    else:
                        fail(ctx, f"C07/{opname}/shape-set-wrong/{sk}",
                                 f"after {op}: obstacle {oid} ({o['kind']}, {sk}) t={t} {where} shape lanelets recorded {rs}, lanelets "
                                 f"the occupancy intersects {sorted(sm)}" + (f" (ambiguous {sorted(sq)})" if sq else ""), sub)
    # (2) registries are exactly the inverse of the shape assignment
    if not shape_mode:
        # after assign(use_center_only=True) the registries list the centre lanelets by the documented purpose of the flag; what
        # holds then (C07_registry_bounds_run, C07_remove_clears): every recorded shape triple of an obstacle of the scenario is
        # registered, and whatever a lanelet lists is an obstacle of the scenario whose recorded shape or centre set holds it
        for l, reg in st["sreg"].items():
            for i in (st["statics"] if int(l) in present and not net_pending else []):
                if int(l) in (st["fwd"][str(i)]["is"] or []) and i not in reg and w.first(("ws", l, i)):
                    fail(ctx, f"C07/{opname}/registry-misses-recorded/static",
                         f"after {op}: static obstacle {i} records shape lanelet {l} but lanelet {l} lists {reg}", sub)
            for i in reg:
                if i not in st["statics"] and w.first(("stale-s", l, i)):
                    fail(ctx, f"C07/{opname}/registry-lists-removed-obstacle/center-only",
                         f"after {op} (following a centre-only assignment): lanelet {l} lists static obstacle {i}, which is not in "
                         f"the scenario {st['statics']}", sub)
                elif i in st["statics"] and int(l) not in set(st["fwd"][str(i)]["is"] or []) | set(st["fwd"][str(i)]["ic"] or []) \
                        and w.first(("extra-s", l, i)):
                    fail(ctx, f"C07/{opname}/registry-lists-unrecorded/static",
                         f"after {op}: lanelet {l} lists static obstacle {i} whose recorded shape and centre sets do not hold {l}", sub)
        for l, reg in st["dreg"].items():
            for i in (st["dynamics"] if int(l) in present and not net_pending else []):
                f, o = st["fwd"][str(i)], w.spec[i]
                rec = {str(o["t0"]): set(f["is"] or [])}
                if o["kind"] == "traj" and f["ps"] is not None:
                    for t, ids in f["ps"].items():
                        rec.setdefault(t, set()).update(ids)
                for t, ids in rec.items():
                    if int(l) in ids and i not in reg.get(t, []) and w.first(("wd", l, t, i)):
                        fail(ctx, f"C07/{opname}/registry-misses-recorded/dynamic",
                             f"after {op}: dynamic obstacle {i} records shape lanelet {l} at time step {t} but lanelet {l} lists "
                             f"{reg.get(t)}", sub)
            for t, ids in reg.items():
                for i in ids:
                    if i not in st["dynamics"] and w.first(("stale-d", l, t, i)):
                        fail(ctx, f"C07/{opname}/registry-lists-removed-obstacle/center-only",
                             f"after {op} (following a centre-only assignment): lanelet {l} lists dynamic obstacle {i} at time step "
                             f"{t}, which is not in the scenario {st['dynamics']}", sub)
                    elif i in st["dynamics"]:
                        f, o = st["fwd"][str(i)], w.spec[i]
                        rec = set()
                        if int(t) == o["t0"]:
                            rec |= set(f["is"] or []) | set(f["ic"] or [])
                        if o["kind"] == "traj":
                            rec |= set((f["ps"] or {}).get(t, [])) | set((f["pc"] or {}).get(t, []))
                        if int(l) not in rec and w.first(("extra-d", l, t, i)):
                            fail(ctx, f"C07/{opname}/registry-lists-unrecorded/dynamic",
                                 f"after {op}: lanelet {l} lists dynamic obstacle {i} at time step {t}; its recorded shape and centre "
                                 f"sets at {t} do not hold {l}", sub)
        return
    if sorted(inside) != sorted(st["statics"] + st["dynamics"]):
        fail(ctx, f"C07/{opname}/scenario-content", f"after {op}: scenario holds {st['statics']} + {st['dynamics']}, expected {sorted(inside)}", sub)
    for l, reg in st["sreg"].items():
        if int(l) not in present:
            if reg and w.first(("absent-s", l)):
                fail(ctx, f"C07/{opname}/registry-of-absent-lanelet", f"after {op}: lanelet {l} is not in the network but lists {reg}", sub)
            continue
        want = sorted(i for i in st["statics"] if int(l) in (st["fwd"][str(i)]["is"] or []))
        if reg != want and w.first(("rs", l, tuple(reg), tuple(want))):
            fail(ctx, f"C07/{opname}/registry-not-inverse/static",
                     f"after {op}: lanelet {l} lists static obstacles {reg}; static obstacles whose shape set holds {l}: {want}", sub)
    for l, reg in st["dreg"].items():
        if int(l) not in present:
            continue
        ts = set(int(t) for t in reg)
        for i in st["dynamics"]:
            ts.update(horizon(w.spec[i]))
        for t in sorted(ts):
            want = []
            for i in st["dynamics"]:
                f, o = st["fwd"][str(i)], w.spec[i]
                rec = set(f["is"] or []) if t == o["t0"] else set()
                if o["kind"] == "traj" and f["ps"] is not None:
                    rec |= set(f["ps"].get(str(t), []))
                if int(l) in rec:
                    want.append(i)
            if reg.get(str(t), []) != sorted(want) and w.first(("rd", l, t, tuple(reg.get(str(t), [])), tuple(sorted(want)))):
                fail(ctx, f"C07/{opname}/registry-not-inverse/dynamic",
                         f"after {op}: lanelet {l} lists dynamic obstacles {reg.get(str(t), [])} at time step {t}; dynamic obstacles "
                         f"whose shape set at {t} holds {l}: {sorted(want)}", sub)


def opname_of(op):
    if op[0] == "reopen":
        return "open-" + ("xml" if op[1].startswith("xml") else "pb")
    if op[0] in ("replacenet", "update"):
        return {"replacenet": "replace_lanelet_network", "update": "update_initial_state"}[op[0]]
    if op[0] in ("rmlane", "addlane", "rmlanes", "clearlane", "set", "query", "addmany", "removemany"):
        return {"rmlane": "remove_lanelet", "rmlanes": "remove_lanelet", "addlane": "add_lanelet", "clearlane": "lanelet-registry-setter",
                "set": "obstacle-attribute-setter", "query": "query", "addmany": "add_objects", "removemany": "remove_obstacle"}[op[0]]
    return {"add": "add_objects", "remove": "remove_obstacle", "assign": "assign_obstacles_to_lanelets"}[op[0]]


def run_case(ctx, case, tags=True):
    w = World(ctx, case)
    ops = case["ops"]
    removed_after = False
    late_lanes = False
    # parameters of the model
    look = call(w.lookups)
    w._look = look[1] if look[0] == "ok" else None
    inside, assigned = set(), False
    center_pending, net_pending, pure = False, False, not any(o.get("preset") for o in case["obstacles"])
    stale = False           # an obstacle was advanced in place (update_initial_state / update_prediction): the case's description of
                            # it is out of date for good; what remains checked: scenario content, removing never fails
    edited = False          # an obstacle of the scenario had its assignment attributes edited in place (registries not told)
    wild = False            # an operation raised: the model does not follow the state an exception leaves; the oracle goes on
    net_level = set()       # lanelets put into the network through LaneletNetwork.add_lanelet (the scenario's id set does not know them)
    net_removed = set()     # lanelets taken out through LaneletNetwork.remove_lanelet (the scenario's id set still holds their ids)
    impl, groups = [], []
    prev_st = None
    if look[0] == "ok":
        geo_compare(ctx, w, case, look[1], tags)
    for k, op in enumerate(ops):
        sub = dict(case, ops=ops[:k + 1])
        ok = admissible(op, w.spec, inside, w) and not (op[0] == "set" and op[2] == "lookup" and w._look is None)
        if op[0] in ("rmlane", "rmlanes") and not (len(op) > 2 and op[2] == "net"):
            # a lanelet that entered at network level is unknown to Scenario._id_set: Scenario.remove_lanelet raises KeyError
            ok = ok and not (set([op[1]] if op[0] == "rmlane" else op[1]) & net_level)
        if op[0] == "addlane" and not (len(op) > 2 and op[2] == "net"):
            ok = ok and op[1] not in net_removed        # Scenario.add_objects refuses an id its id set still holds
        opname = opname_of(op)
        mops = call(model_ops, op, w) if not wild else ("ok", [])
        r = call(w.apply, op) if mops[0] == "ok" else ("err", "other", "model_ops: " + mops[2])
        if op[0] == "replacenet" and (net_level or (net_removed & set(op[2] if op[1] != "copy" else ()))):
            ok = False
        if not ok and ((op[0] in ("rmlane", "rmlanes", "addlane") and
                        ((set(op[1] if op[0] == "rmlanes" else [op[1]]) & (net_level | net_removed)) or (len(op) > 2 and op[2] == "net")))
                       or op[0] == "replacenet"):
            # an inadmissible call on a lanelet whose presence the scenario and its network disagree about: which error (if any)
            # comes out is no statement of the model; the history goes on under the oracle
            if tags:
                ctx.tag("op/error")
            wild, pure, net_pending = True, False, True
            inside = {o.obstacle_id for o in w.sc.static_obstacles} | {o.obstacle_id for o in w.sc.dynamic_obstacles}
            prev_st = None
            continue
        np_ts = op[0] == "assign" and len(op) > 4 and op[2] and (op[4].get("np") or op[4].get("ts") == "array")
        if r[0] == "err" and np_ts and r[1] == "assert":
            # numpy integers as time steps are refused by the occupancy accessors' type check (documented List[int]): outside the
            # quantifier; what the refused call leaves behind is judged by the oracle like after any other failed call
            if tags:
                ctx.tag("value/np-int-rejected")
            wild, pure, net_pending = True, False, True
            prev_st = None
            continue
        if r[0] == "err":
            prev_st = None
            if not wild:
                impl.append({"err": r[1]})
                groups.append(mops[1] if mops[0] == "ok" else [])
            if ok and op[0] in ("remove", "removemany") and (not pure or wild or edited):
                # "removing an obstacle that is in the scenario never fails" — whatever happened to the network, to the obstacle's
                # attributes or in a failed call before
                fail(ctx, "C07/remove_obstacle/raises-after-lanelet-removal",
                     f"{op} raised {r[2]} (obstacle(s) in the scenario; lanelets present {sorted(w.present())})", sub)
            elif ok and not wild:
                what = "/".join(sorted({top_kind(w.spec[i]["shape"]) for i in inside})) if op[0] != "remove" else w.spec[op[1]]["kind"]
                fail(ctx, f"C07/{opname}/raises-{r[1]}/{what}", f"{op} raised {r[2]} (obstacles in the scenario: {sorted(inside)})", sub)
            elif tags:
                ctx.tag("op/error")
            # the history goes on from whatever state the exception left (class 5): the oracle judges, the model stops
            wild, pure = True, False
            net_pending = True
            inside = {o.obstacle_id for o in w.sc.static_obstacles} | {o.obstacle_id for o in w.sc.dynamic_obstacles}
            continue
        if wild and tags:
            ctx.tag("op/after-error")
        if op[0] in ("add", "addmany") and ok:
            for i in ([op[1]] if op[0] == "add" else op[1]):
                if tags and assigned and w.objs[i].initial_shape_lanelet_ids is not None:
                    ctx.tag("op/readd")
                inside.add(i)
            if tags and op[0] == "addmany":
                ctx.tag("form/list-add")
        elif op[0] in ("remove", "removemany"):
            # (an obstacle that is not in the scenario is skipped with a warning; the rest of a list is still removed)
            for i in [i for i in ([op[1]] if op[0] == "remove" else op[1]) if i in inside]:
                if assigned:
                    removed_after = True
                    if tags:
                        ctx.tag("op/remove-after-assign")
                if tags and (w.recorded_lanelets(i) - w.present()):
                    ctx.tag("net/remove-obstacle-recording-absent-lanelet")
                if tags and w.spec[i].get("preset") and late_lanes:
                    ctx.tag("net/remove-preset-obstacle-after-late-lanelets")
                inside.discard(i)
            if tags and op[0] == "removemany":
                ctx.tag("form/list-remove")
        elif op[0] in ("rmlane", "addlane", "rmlanes") and ok:
            pure = False
            if op[0] == "addlane":
                net_pending = True
                if inside:
                    late_lanes = True
                if len(op) > 2 and op[2] == "net":
                    if op[1] in net_removed:
                        net_removed.discard(op[1])      # back in the network, and the scenario's id set never forgot it
                    else:
                        net_level.add(op[1])
            else:
                gone = set([op[1]] if op[0] == "rmlane" else op[1])
                if len(op) > 2 and op[2] == "net":
                    net_removed |= gone - net_level
                net_level -= gone
            if tags:
                ctx.tag("net/" + ("rmlane" if op[0] != "addlane" else "addlane"))
                if (len(op) > 2 and op[2] == "net") or op[0] == "rmlanes":
                    ctx.tag("net/network-level-or-list")
                if len(op) > 2 and op[2] == "noref":
                    ctx.tag("form/remove-lanelet-noref")
        elif op[0] == "replacenet":
            pure = False
            if op[1] != "copy":
                net_pending = True
                if inside:
                    late_lanes = True
            if tags:
                ctx.tag("net/replace-" + op[1])
        elif op[0] == "update":
            stale = edited = wild = True
            pure = False
            if tags:
                ctx.tag("op/update-inside" if op[1] in inside else "op/update-outside")
        elif op[0] == "clearlane" and ok:
            if op[2] != "same":
                net_pending = True          # like a fresh lanelet object: whoever records the lanelet is not listed any more
            if tags:
                ctx.tag("op/clearlane")
        elif op[0] == "set":
            if op[2] != "same":
                pure = False
                if op[1] in inside:
                    edited = True
            if tags:
                ctx.tag("op/set-same" if op[2] == "same" else ("op/set-inside" if op[1] in inside else "op/set-outside"))
        elif op[0] == "query":
            if tags:
                ctx.tag("op/query")
        elif op[0] == "assign":
            form = op[4] if len(op) > 4 and op[4] else {}
            if tags:
                if form.get("ids", "set") != "set" or form.get("ts", "list") != "list":
                    ctx.tag("form/arg-types")
                if form.get("np"):
                    ctx.tag("value/np-int")
                if op[1] is not None and len(op[1]) == 0:
                    ctx.tag("value/empty-ids")
                if op[2] is not None and len(op[2]) == 0:
                    ctx.tag("value/empty-ts")
                if op[2] is not None and len(set(op[2])) < len(op[2]):
                    ctx.tag("value/repeated-ts")
            if op[3]:
                center_pending = True
                if tags:
                    ctx.tag("op/center-only")
            else:
                assigned = True
                if op[1] is None and op[2] is None and not center_pending and not wild:
                    net_pending = False      # a full assignment re-establishes the exact inverse (C07c_reassign_exact)
                if tags:
                    ctx.tag("entry/assign")
                    if op[1] is not None or op[2] is not None:
                        ctx.tag("op/partial-assign")
        elif op[0] == "reopen":
            assigned = True
            center_pending = net_pending = False        # the registries are rebuilt from the shape sets (C07_reopen_restores)
            edited = stale
            net_level, net_removed = set(), set()
            if tags:
                ctx.tag("entry/reopen-" + ("xml" if op[1].startswith("xml") else "pb"))
                flags = op[1][3 if op[1].startswith("xml") else 2:]
                if "2" in flags:
                    ctx.tag("entry/reader-reuse")
                if "r" in flags:
                    ctx.tag("entry/reader-class")
                if set(flags) & set("nsp"):
                    ctx.tag("entry/io-variants")
            # the geometry must have survived the file exactly, else the model's parameters are stale: stop the history here
            look2 = call(w.lookups)
            if look[0] == "ok" and look2[0] == "ok" and look2[1] != look[1]:
                ctx.excluded += 1
                ctx.tag("reopen/geometry-changed-by-file")
                ops = ops[:k]
                break
        st = observe(w.sc, w.objs, w.lane_spec)
        if (op[0] == "query" or (op[0] in ("clearlane", "set") and op[2] == "same") or (op[0] == "replacenet" and op[1] == "copy")) \
                and prev_st is not None and st != prev_st:
            diff = [k2 for k2 in st if st[k2] != prev_st[k2]]
            fail(ctx, f"C07/{opname}/state-changed-by-noop", f"{op} (read-only calls / the same object handed back / a deep copy) changed {diff}", sub)
        prev_st = st
        if not wild:
            impl.append({"ok": st})
            groups.append(mops[1])
        if not edited:
            judge(w, op, opname, inside, not (center_pending or net_pending), st, sub, pure, net_pending)
        elif sorted(inside) != sorted(st["statics"] + st["dynamics"]):
            fail(ctx, f"C07/{opname}/scenario-content", f"after {op}: scenario holds {st['statics']} + {st['dynamics']}, expected {sorted(inside)}", sub)
    beyond = False
    if tags:
        beyond = tag_case(ctx, w, case)
    ctx.case(case, nontrivial=assigned and (beyond or removed_after))
    if look[0] == "err":
        # the library's own lookup refuses an occupancy of the case: nothing to parametrise the model with
        kinds = "/".join(sorted({top_kind(o["shape"]) for o in case["obstacles"]}))
        fail(ctx, f"C07/find_lanelet_by_shape/raises-{look[1]}/{kinds}", f"lookup on an obstacle occupancy raised {look[2]}", dict(case, ops=[]))
        return
    ts = [t for o in case["obstacles"] for t in horizon(o)]
    def _preset(o):
        pre = o.get("preset")
        if not pre:
            return None
        return {"ic": pre.get("ic"), "is": pre.get("is"),
                "pc": None if pre.get("pc") is None else {str(t): v for t, v in pre["pc"].items()},
                "ps": None if pre.get("ps") is None else {str(t): v for t, v in pre["ps"].items()}}
    flat = [m for g in groups for m in g]
    args = {"lanelets": [l["id"] for l in case["lanelets"]], "present0": present0(case),
            "obs": [{"id": o["id"], "kind": o["kind"], "t0": o["t0"], "len": len(o.get("traj", [])) if o["kind"] == "traj" else 0,
                     "look": look[1][o["id"]], "preset": _preset(o)} for o in case["obstacles"]],
            "ops": flat, "tmin": min(ts), "tspan": max(ts) - min(ts)}
    res = ctx.driver.ask("C07", "nrun", args)
    # one implementation call = a group of model operations: the state after the group, or the error inside it
    model, pos = [], 0
    for g in groups:
        part = res[pos:pos + len(g)]
        pos += len(g)
        if any("err" in x for x in part):
            model.append(next(x for x in part if "err" in x))
            break
        if len(part) < len(g):
            break
        model.append(part[-1] if part else (model[-1] if model else {"ok": None}))
    ctx.compare(dict(case, ops=ops), impl, model, "Scenario add/assign/remove/open/add_lanelet/remove_lanelet/setter history vs CR.Assign.nrun")


def _rspec(spec):
    """shape spec with exact rationals (driver format)"""
    k = spec["k"]
    if k == "rect":
        return {"k": "rect", "l": rat(spec["l"]), "w": rat(spec["w"]), "c": [rat(spec["c"][0]), rat(spec["c"][1])], "o": rat(spec["o"])}
    if k == "circ":
        return {"k": "circ", "r": rat(spec["r"]), "c": [rat(spec["c"][0]), rat(spec["c"][1])]}
    if k == "poly":
        return {"k": "poly", "v": [[rat(x), rat(y)] for x, y in spec["v"]]}
    return {"k": "group", "s": [_rspec(x) for x in spec["s"]]}


def _angles(spec, a):
    """angles whose cos / sin the placement needs, or None when float rounding would enter (the composed model adds angles and
    rotates polygons exactly; the library does both in floats)"""
    k = spec["k"]
    if k == "rect":
        if spec["o"] != 0 and a != 0:
            return None
        return [float(spec["o"]) + float(a)]
    if k == "circ":
        return []
    if k == "poly":
        return [] if a == 0 else None
    out = []
    for x in spec["s"]:
        r = _angles(x, a)
        if r is None:
            return None
        out += r
    return out


def geo_compare(ctx, w, case, look, tags):
    """end-to-end correspondence of the COMPOSED model (CRModel/AssignGeo.lean: index scan + C06's exact predicates with the r/2
    circle + C04's placement): its lookups vs the library's, on every (obstacle, time step) whose answer does not hinge on float
    rounding or on GEOS's 64-gon (no lanelet in an ambiguity band of the oracle)"""
    from commonroad import TWO_PI
    steps, want, trig = [], [], {0.0: (1.0, 0.0)}
    for o in case["obstacles"]:
        if o["kind"] == "set":
            continue
        rows = {r[0]: r for r in look[o["id"]]}
        for t in horizon(o):
            st = o if t == o["t0"] else o["traj"][t - o["t0"] - 1]
            a = float(st["o"])
            angs = _angles(o["shape"], a)
            if angs is None:
                continue
            r = call(w.brute, o["id"], t)
            if r[0] != "ok":
                continue
            cm, cq, sm, sq, half = r[1]
            if cq or sq or (half is not None and half[1]):
                continue
            for x in angs + [a]:
                trig[x] = (math.cos(x), math.sin(x)) if x != 0 else (1.0, 0.0)
            steps.append({"o": o["id"], "t": t, "shape": _rspec(o["shape"]), "pos": [rat(st["pos"][0]), rat(st["pos"][1])], "ori": rat(a)})
            want.append([o["id"], t, rows[t][1], rows[t][2]])
    if not steps:
        return
    args = {"lanelets": [{"id": l["id"], "left": [[rat(x), rat(y)] for x, y in l["left"]], "right": [[rat(x), rat(y)] for x, y in l["right"]]}
                         for l in case["lanelets"]],
            "steps": steps, "trig": [[rat(a), rat(c), rat(s)] for a, (c, s) in trig.items()], "tol": rat(1e-15), "tau": rat(TWO_PI)}
    model = ctx.driver.ask("C07", "geo", args)
    if tags:
        ctx.tag("geo/composed-compared")
    ctx.compare(dict(case, ops=[]), want, model, "find_lanelet_by_position / find_lanelet_by_shape on the occupancies vs CR.Assign.envOf (exactGeo …)")


def tag_case(ctx, w, case):
    beyond = False
    for o in case["obstacles"]:
        ctx.tag("kind/" + o["kind"])
        if o["id"] == 0:
            ctx.tag("value/id0")
        if o["t0"] >= 10 ** 6:
            ctx.tag("value/big-t0")
        ctx.tag("shape/" + top_kind(o["shape"]))
        if o["shape"]["k"] == "rect" and (o["o"] != 0 or any(s["o"] != 0 for s in o.get("traj", []))):
            ctx.tag("shape/rect-rotated")
        for t in (horizon(o) if o["kind"] != "set" else []):
            r = call(w.brute, o["id"], t)
            if r[0] != "ok":
                continue
            cm, cq, sm, sq, _ = r[1]
            if sm - cm:
                beyond = True
                ctx.tag("geo/shape-beyond-center")
            if not sm and not sq:
                ctx.tag("geo/off-road")
            if len(cm) > 1:
                ctx.tag("geo/multi-lanelet-center")
            if sq:
                ctx.tag("geo/touching")
            # two or more lanelets with the SAME polygon (same vertices, same order) hold the centre / meet the occupancy
            for ids, name in ((cm, "center"), (sm, "shape")):
                rings = [w.ring_key(l) for l in ids]
                if len(set(rings)) < len(rings):
                    ctx.tag("geo/identical-polygons-" + name)
                regions = [w.region_key(l) for l in ids]
                if len(set(regions)) < len(set(rings)):
                    ctx.tag("geo/same-region-other-vertices-" + name)
    return beyond


def run(ctx):
    check_dimensions()
    for p in sorted(glob.glob(os.path.join(CORPUS_DIR, "C07", "*.json"))):
        run_case(ctx, json.load(open(p)))
    # a history costs ~0.13 s (exact rational brute-force oracle + composed-geometry comparison per obstacle and time step): the
    # thorough tier's 8 workers x 2400 histories took 8 minutes for little gain; now 8 x 1500 histories
    for _ in range(min(ctx.n(400), 1500)):
        run_case(ctx, gen_case(ctx))


search = run


def replay(ctx, case):
    import warnings
    warnings.filterwarnings("ignore")
    run_case(ctx, case, tags=False)


def shrink(case, key):
    """drop obstacles (and the operations naming them) and trailing operations while the same finding key is reported"""
    from common import Ctx

    def fails(c):
        cx = Ctx("C07", "quick", 0)
        try:
            run_case(cx, c, tags=False)
            return any(f.key == key for f in cx.failures)
        except Exception:  # noqa
            return False
        finally:
            cx.close()

    cur = case
    changed = True
    while changed:
        changed = False
        for o in list(cur["obstacles"]):
            if len(cur["obstacles"]) <= 1:
                break
            oid = o["id"]
            ops = []
            for op in cur["ops"]:
                if op[0] in ("add", "remove") and op[1] == oid:
                    continue
                if op[0] == "assign" and op[1] is not None:
                    ids = [i for i in op[1] if i != oid]
                    if not ids:
                        continue
                    op = ["assign", ids, op[2], op[3]]
                ops.append(op)
            cand = dict(cur, obstacles=[x for x in cur["obstacles"] if x["id"] != oid], ops=ops)
            if fails(cand):
                cur, changed = cand, True
        for k in range(len(cur["ops"])):
            cand = dict(cur, ops=cur["ops"][:k] + cur["ops"][k + 1:])
            if cand["ops"] and fails(cand):
                cur, changed = cand, True
                break
        for l in list(cur["lanelets"]):
            if len(cur["lanelets"]) <= 1:
                break
            cand = dict(cur, lanelets=[x for x in cur["lanelets"] if x["id"] != l["id"]])
            if fails(cand):
                cur, changed = cand, True
    return cur
