"""C19 — the dimension table: every constructor parameter, settable attribute and public operation that can influence what
the property observes (patches in the renderer's buffers, exceptions of draw / render, field values of nested parameter
groups), with how the generator varies it or why it cannot matter / is outside the quantifier.
`check()` compares the table with the real signatures on every run: a parameter, dataclass field or public method that the
table does not know stops the run (exit 2), so code growth cannot silently escape the generator."""
import dataclasses
import inspect

from common import InfraError

COLORS = ["#1d7eea", "red", "k", "#00aa16", "g", "#fe4009ff", "black"]

# ---- every field name declared by any parameter class of draw_params.py -> (how it is varied, values for the style stream)
BOOL = ("bool: flipped in the lattice stream (all 211 boolean fields of the tree), forced on in focus cases", None)
GROUP = ("group: assigned as a value in params histories (fresh instance through its constructor); read through flagsOf", None)
COLOR = ("style: colour drawn from valid matplotlib colour forms (hex, hex+alpha, name, single letter)", COLORS)
PARAM_FIELDS = {
    "time_begin": ("window: before / at / after every horizon boundary of every obstacle (initial step, first and last prediction step), inside gaps "
                   "and holes, set at top level, on sub-groups, through the constructor, "
                   "re-set on one shared object between frames", None),
    "time_end": ("window: begin, begin+1..3, another horizon point, begin+40, begin-1", None),
    "antialiased": BOOL, "axis_visible": BOOL, "colormap_tangent": BOOL, "draw_arrow": BOOL, "draw_border_vertices": BOOL,
    "draw_bounding_box": BOOL, "draw_center_bound": BOOL, "draw_continuous": BOOL, "draw_crossings": BOOL,
    "draw_direction": BOOL, "draw_history": BOOL, "draw_icon": BOOL, "draw_incoming_lanelets": BOOL,
    "draw_initial_state": BOOL, "draw_intersections": BOOL, "draw_left_bound": BOOL, "draw_line_markings": BOOL,
    "draw_mesh": BOOL, "draw_occupancies": BOOL, "draw_right_bound": BOOL, "draw_shape": BOOL, "draw_signals": BOOL,
    "draw_start_and_direction": BOOL, "draw_stop_line": BOOL, "draw_successors": BOOL, "draw_traffic_lights": BOOL,
    "draw_traffic_signs": BOOL, "draw_trajectory": BOOL, "fill_lanelet": BOOL, "show_label": BOOL, "unique_colors": BOOL,
    "draw_ids": ("filter: None, [], one id, subset, superset with unknown ids, only unknown ids (lanelets and planning problems)", None),
    "show_traffic_signs": ("filter: None, [], known ids, known + unknown ids", None),
    "speed_limit_unit": ("enum: auto, mph, kmh", ["auto", "mph", "kmh"]),
    "steps": ("history length 0, 1, 3, 5", [0, 1, 3, 5]), "step_size": ("history stride 1, 2", [1, 2]),
    "basecolor": COLOR, "center_bound_color": COLOR, "crossings_color": COLOR, "edgecolor": COLOR, "facecolor": COLOR,
    "green_color": COLOR, "incoming_lanelets_color": COLOR, "left_bound_color": COLOR, "red_color": COLOR,
    "red_yellow_color": COLOR, "right_bound_color": COLOR, "stop_line_color": COLOR, "successors_left_color": COLOR,
    "successors_right_color": COLOR, "successors_straight_color": COLOR, "yellow_color": COLOR,
    "label": ("style: text of the planning-problem annotation", ["", "ego", "start 1"]),
    "label_zorder": ("style: int / float z-order", [35, 3, 40.5]),
    "zorder": ("style: int / float z-order (int where float is usual and vice versa)", [20, 24.0, 5, 30.5]),
    "opacity": ("style: alpha in [0, 1], int and float", [0, 1, 0.3, 1.0]),
    "fade_color": ("style: fading per history step in [0, 1]", [0.0, 0.1, 0.5]),
    "linewidth": ("style: None (optional), 0, float, int", [None, 0.0, 0.5, 2]),
    "line_width": ("style: > 0", [0.17, 1, 0.5]), "draw_linewidth": ("style: >= 0", [0.5, 0.0, 2]),
    "radius": ("style: > 0 (a zero radius / scale makes matplotlib or `3.0 / scale_factor` fail: outside, see ASSUMPTIONS)", [0.5, 1, 2.5]),
    "scale_factor": ("style: > 0", [0.3, 1.0, 2]), "signal_radius": ("style: > 0", [0.5, 1, 0.25]),
    "width": ("style: > 0", [0.8, 1, 0.2]), "relative_angle": ("style: degrees", [0.0, 90.0, -45]),
    "kwargs_traffic_light_signs": ("not read by any drawing function (draw_traffic_light_signs ignores it); kept at {}", None),
    "arrow": GROUP, "bluelight": GROUP, "braking": GROUP, "direction": GROUP, "dynamic_obstacle": GROUP,
    "environment_obstacle": GROUP, "goal_region": GROUP, "history": GROUP, "horn": GROUP, "indicator": GROUP,
    "initial_state": GROUP, "intersection": GROUP, "lanelet": GROUP, "lanelet_network": GROUP, "occupancy": GROUP,
    "phantom_obstacle": GROUP, "planning_problem": GROUP, "planning_problem_set": GROUP, "shape": GROUP, "signals": GROUP,
    "state": GROUP, "static_obstacle": GROUP, "traffic_light": GROUP, "traffic_sign": GROUP, "trajectory": GROUP,
    "uncertain_position": GROUP, "vehicle_shape": GROUP,
}

# ---- MPRenderer: constructor, render / clear / draw_list arguments, public operations
RENDERER = {
    "__init__": {
        "draw_params": "case['renderer']['ctor_params'] + entry 'renderer-params': drawing with draw_params=None uses the renderer's own object",
        "plot_limits": "case['renderer']['plot_limits']: None, [x0,x1,y0,y1] ints / floats, [[x0,x1],[y0,y1]], 'auto'",
        "ax": "one shared Agg axes for all cases (figures are reused: speed); a fresh figure would behave the same",
        "figsize": "case['renderer']['figsize']",
        "focus_obstacle": "case['renderer']['focus']: any obstacle of the scenario (also one that is removed / not drawn later)",
    },
    "render": {"show": "False only: Figure.show() needs a GUI backend (outside under Agg)",
               "filename": "case['savefig']: png into a temporary directory",
               "keep_static_artists": "frames with keep True / False"},
    "clear": {"keep_static_artists": "True through render(keep_static_artists=True); explicit clear() after a draw that raised and in video-style frames"},
    "draw_list": {"drawable_list": "obstacle lists, [network] + obstacles, [scenario, planning problems]",
                  "draw_params": "one object, a list of the same object per drawable, None (renderer's own)"},
    "methods": {
        "add_callback": "used by the traffic-sign boxes themselves (every case with a light / sign)",
        "clear": "see above", "render": "every case", "render_dynamic": "video-style frames; the collections on the axes after it are observed (axes:* buckets)", "render_static": "video-style init",
        "remove_dynamic": "video-style frames; what it leaves on the axes is observed after the next render_dynamic (axes:video-frames>=2)", "draw_list": "entry points", "draw_scenario": "entry point",
        "create_video": "needs ffmpeg (not installed) and writes a file: outside; its per-frame step "
                        "(remove_dynamic, clear, draw_list, render_dynamic on one parameter object whose window is re-set) is replayed as 'video' style",
        "draw_dynamic_obstacle": "through obstacle.draw with the sub-group / the whole parameter object / None",
        "draw_static_obstacle": "same", "draw_phantom_obstacle": "same", "draw_environment_obstacle": "same",
        "draw_lanelet_network": "network.draw with sub-group / whole object", "draw_planning_problem_set": "entry points",
        "draw_planning_problem": "through the set", "draw_initital_state": "through the problem", "draw_goal_region": "through the problem",
        "draw_goal_state": "through the goal region", "draw_state": "draw_initial_state flag and planning problems",
        "draw_trajectory": "draw_trajectory flag", "draw_trajectories": "list form of draw_trajectory with unique colours: no obstacle shapes, "
                           "mutates draw_params.facecolor; explored in the lattice through unique_colors only via trajectories of obstacles (not called directly)",
        "draw_polygon": "every polygon / rectangle shape", "draw_rectangle": "rectangles", "draw_ellipse": "circles, signals",
        "draw_traffic_light_sign": "lights and signs of the network", "plot_limits": "property + setter: constructor argument",
        "plot_limits_focused": "read by render when limits are set / an obstacle is focused",
    },
}

# ---- BaseParam: public operations
BASEPARAM = {
    "__setattr__": "every step of a params history and every parameter setting of a draw case",
    "__setitem__": "item form of the assignment in 1/4 of the history steps",
    "__getitem__": "read of existing items in the read-only queries, of a missing item (KeyError) before item assignments",
    "__post_init__": "every construction (constructor keyword values incl. windows and group values)",
    "load": "construction from a yaml file re-runs the constructors (constructor propagation is covered); no assignment path of the "
            "property; not generated",
    "save": "read-only export; not generated",
}

# ---- constructors of the objects that are drawn: parameter -> how varied / why irrelevant
CTORS = {
    "StaticObstacle": {"obstacle_id": "100.., 0", "obstacle_type": "all types", "obstacle_shape": "rect / circle / polygon, centred and off-centre / rotated",
                       "initial_state": "time step 0..9, exact / uncertain position, exact / interval orientation and velocity; position re-set through the setter between frames",
                       "initial_center_lanelet_ids": "not read by drawing", "initial_shape_lanelet_ids": "not read by drawing",
                       "initial_signal_state": "None / random signal flags", "signal_series": "None / 0..3 states"},
    "DynamicObstacle": {"obstacle_id": "100.., 0", "obstacle_type": "all types (icon types in focus cases)", "obstacle_shape": "as static",
                        "initial_state": "as static", "prediction": "None / trajectory (1..6 states, starting directly after the initial state or after a gap) / set-based (int and interval steps, gap, holes, shuffled list); "
                                                                    "replaced / dropped / trajectory re-assigned through the setters between frames",
                        "initial_center_lanelet_ids": "not read by drawing", "initial_shape_lanelet_ids": "not read by drawing",
                        "initial_signal_state": "None / flags", "signal_series": "None / 0..n+1 states",
                        "initial_meta_information_state": "not read by drawing", "meta_information_series": "not read by drawing",
                        "external_dataset_id": "not read by drawing", "history": "None / one earlier state (occupancy_at_time and drawing ignore it)",
                        "signal_history": "not read by signal_state_at_time_step", "center_lanelet_ids_history": "not read by drawing",
                        "shape_lanelet_ids_history": "not read by drawing", "kwargs": "arbitrary extra attributes: not read by drawing"},
    "PhantomObstacle": {"obstacle_id": "100..", "prediction": "None / set-based"},
    "EnvironmentObstacle": {"obstacle_id": "100..", "obstacle_type": "building, pillar, median strip", "obstacle_shape": "all shapes incl. groups"},
    "TrajectoryPrediction": {"trajectory": "1..6 states; re-assigned between frames", "shape": "the obstacle shape",
                             "center_lanelet_assignment": "not read by drawing", "shape_lanelet_assignment": "not read by drawing",
                             "kwargs": "wheelbase_lengths (shape-group occupancies of articulated vehicles): not generated; the harness would "
                                       "take the shapes from occupancy_at_time all the same"},
    "SetBasedPrediction": {"initial_time_step": "first occupancy step", "occupancy_set": "1..5 occupancies, increasing or shuffled; [] only as outside-quantifier case"},
    "Occupancy": {"time_step": "int / Interval", "shape": "all shapes"},
    "Trajectory": {"initial_time_step": "initial step + 1 + gap, gap 0 / 1 / 2 / 4 / 7 (a prediction that starts later leaves steps without "
                                        "occupancy and state after the initial one; gaps shorter and longer than the trajectory; buckets "
                                        "obst:dyn-traj-gap, horizon:*, gap-obstacle:*, plain:in-gap/traj)", "state_list": "KSState with exact / uncertain position, orientation, velocity"},
    "Rectangle": {"length": "1..4.5", "width": "0.5..2", "center": "anywhere", "orientation": "0, 0.3, -1.2, 3.0"},
    "Circle": {"radius": "0.5..2.5", "center": "anywhere"}, "Polygon": {"vertices": "3..5 vertices, open"},
    "ShapeGroup": {"shapes": "1..3 primitive shapes"},
    "Lanelet": {"left_vertices": "2..5 vertices, 2-D and 3-D", "center_vertices": "same", "right_vertices": "same", "lanelet_id": "10..",
                "predecessor": "grid", "successor": "grid", "adjacent_left": "grid", "adjacent_left_same_direction": "True / False",
                "adjacent_right": "grid", "adjacent_right_same_direction": "True / False", "line_marking_left_vertices": "all markings",
                "line_marking_right_vertices": "all markings", "stop_line": "None / all markings", "lanelet_type": "not read by drawing",
                "user_one_way": "not read by drawing", "user_bidirectional": "not read by drawing", "traffic_signs": "0..2 signs",
                "traffic_lights": "0..2 lights", "adjacent_areas": "not read by drawing"},
    "StopLine": {"start": "left end", "end": "right end", "line_marking": "dashed / solid / broad", "traffic_sign_ref": "not read by drawing",
                 "traffic_light_ref": "not read by drawing"},
    "TrafficSign": {"traffic_sign_id": "500..", "traffic_sign_elements": "six German signs with / without value", "first_occurrence": "host lanelet / empty",
                    "position": "near the host lanelet / None", "virtual": "True / False"},
    "TrafficSignElement": {"traffic_sign_element_id": "six German signs", "additional_values": "none / one value"},
    "TrafficLight": {"traffic_light_id": "600..", "position": "end of the host lanelet / None", "traffic_light_cycle": "1..4 elements (required by the XSD)",
                     "color": "not read by drawing", "active": "True / False", "direction": "five directions", "shape": "not read by drawing"},
    "TrafficLightCycle": {"cycle_elements": "all five states, durations 1..5", "time_offset": "0, 1, 7", "active": "True / False"},
    "TrafficLightCycleElement": {"state": "all", "duration": "1, 2, 5"},
    "Intersection": {"intersection_id": "800", "incomings": "1..2", "crossings": "empty / one lanelet"},
    "IntersectionIncomingElement": {"incoming_id": "700..", "incoming_lanelets": "one", "successors_right": "0..1", "successors_straight": "0..1",
                                    "successors_left": "0..1", "left_of": "None / other incoming"},
    "PlanningProblem": {"planning_problem_id": "900..", "initial_state": "exact", "goal_region": "1..2 goal states"},
    "PlanningProblemSet": {"planning_problem_list": "0..2 problems"},
    "GoalRegion": {"state_list": "time interval, position shape / none, orientation interval / none", "lanelets_of_goal_position": "not read by drawing"},
    "Scenario": {"dt": "0.1 (not read by drawing)", "scenario_id": "default", "author": "not read", "tags": "not read", "affiliation": "not read",
                 "source": "not read", "location": "not read"},
}


def _classes():
    from commonroad.geometry.shape import Circle, Polygon, Rectangle, ShapeGroup
    from commonroad.planning.goal import GoalRegion
    from commonroad.planning.planning_problem import PlanningProblem, PlanningProblemSet
    from commonroad.prediction.prediction import Occupancy, SetBasedPrediction, TrajectoryPrediction
    from commonroad.scenario.intersection import Intersection, IntersectionIncomingElement
    from commonroad.scenario.lanelet import Lanelet, StopLine
    from commonroad.scenario.obstacle import DynamicObstacle, EnvironmentObstacle, PhantomObstacle, StaticObstacle
    from commonroad.scenario.scenario import Scenario
    from commonroad.scenario.traffic_light import TrafficLight, TrafficLightCycle, TrafficLightCycleElement
    from commonroad.scenario.traffic_sign import TrafficSign, TrafficSignElement
    from commonroad.scenario.trajectory import Trajectory
    return {c.__name__: c for c in (
        StaticObstacle, DynamicObstacle, PhantomObstacle, EnvironmentObstacle, TrajectoryPrediction, SetBasedPrediction, Occupancy,
        Trajectory, Rectangle, Circle, Polygon, ShapeGroup, Lanelet, StopLine, TrafficSign, TrafficSignElement, TrafficLight,
        TrafficLightCycle, TrafficLightCycleElement, Intersection, IntersectionIncomingElement, PlanningProblem, PlanningProblemSet,
        GoalRegion, Scenario)}


def _params(f):
    return [p for p in inspect.signature(f).parameters if p != "self"]


def check():
    """The table against the code of this tree; any difference is an infrastructure error (exit 2), never a verdict."""
    import commonroad.visualization.draw_params as dp
    from commonroad.visualization.mp_renderer import MPRenderer
    problems = []
    declared = set()
    for n, c in vars(dp).items():
        if isinstance(c, type) and issubclass(c, dp.BaseParam):
            declared.update(f.name for f in dataclasses.fields(c) if not f.name.startswith("_"))
    for n in sorted(declared - set(PARAM_FIELDS)):
        problems.append(f"draw_params.py declares the parameter {n!r}: not in PARAM_FIELDS")
    for n in sorted(set(PARAM_FIELDS) - declared):
        problems.append(f"PARAM_FIELDS lists {n!r}, which no parameter class declares any more")
    real = sorted(n for n, v in vars(dp.BaseParam).items() if callable(getattr(v, "__func__", v)) and not n.startswith("_BaseParam")
                  and n not in ("__init__", "__repr__", "__eq__", "__replace__", "__match_args__"))
    if real != sorted(BASEPARAM):
        problems.append(f"operations of BaseParam changed: {real} vs table {sorted(BASEPARAM)}")
    for m in ("__init__", "render", "clear", "draw_list"):
        real = _params(getattr(MPRenderer, m))
        if sorted(real) != sorted(RENDERER[m]):
            problems.append(f"MPRenderer.{m} has parameters {real}; table has {sorted(RENDERER[m])}")
    public = sorted(n for n in vars(MPRenderer) if not n.startswith("_"))
    if public != sorted(RENDERER["methods"]):
        problems.append(f"public members of MPRenderer changed: new {sorted(set(public) - set(RENDERER['methods']))}, "
                        f"gone {sorted(set(RENDERER['methods']) - set(public))}")
    for name, cls in _classes().items():
        real = _params(cls)
        if sorted(real) != sorted(CTORS[name]):
            problems.append(f"{name}(...) has parameters {real}; table has {sorted(CTORS[name])}")
    if problems:
        raise InfraError("C19 dimension table out of date (harness/c19_dims.py):\n  " + "\n  ".join(problems))
    return len(PARAM_FIELDS) + len(BASEPARAM) + sum(len(v) for v in RENDERER.values()) + sum(len(v) for v in CTORS.values())
