"""C12 — value descriptions, generators and builders for every scenario-element class with a hand-written __eq__/__hash__.

A *description* (desc) is plain JSON, so that every case can be stored in a replay file:
  float / int / bool / str / None         themselves
  {"nd": [[x, y], ...]} | {"nd": [x, y]}   numpy array (row-major, freshly allocated); with "layout": one of LAYOUTS the
                                           same logical values in another MEMORY layout (column-major, transposed view,
                                           strided / reversed view into a larger buffer, big-endian bytes)
  {"set": [a, b, ...]}                     python set, elements inserted in exactly that order
  {"dict": [[k, v], ...]}                  python dict, inserted in exactly that order
  {"enum": "LineMarking", "name": "DASHED"}
  [ ... ]                                  python list
  {"cls": "Rectangle", "args": {param: desc, ...}}   object built through the public constructor; a parameter that is
                                                     absent from "args" is left to the constructor's default
All randomness comes from the `random.Random` handed in (ctx.rng)."""
from __future__ import annotations

import copy
import enum
import math

# ------------------------------------------------------------------------------------------------ class registry

_REG = None


def registry():
    global _REG
    if _REG is None:
        import commonroad.common.common_lanelet as cl
        import commonroad.common.util as cu
        import commonroad.geometry.shape as sh
        import commonroad.planning.goal as go
        import commonroad.planning.planning_problem as pp
        import commonroad.prediction.prediction as pr
        import commonroad.scenario.area as ar
        import commonroad.scenario.intersection as it
        import commonroad.scenario.lanelet as ll
        import commonroad.scenario.obstacle as ob
        import commonroad.scenario.scenario as sc
        import commonroad.scenario.state as st
        import commonroad.scenario.traffic_light as tl
        import commonroad.scenario.traffic_sign as ts
        import commonroad.scenario.trajectory as tj
        _REG = {}
        for m in (cl, cu, sh, go, pp, pr, ar, it, ll, ob, sc, st, tl, ts, tj):
            for k, v in vars(m).items():
                if isinstance(v, type) and v.__module__ == m.__name__:
                    _REG[k] = v
    return _REG


STATE_CLASSES = ["InitialState", "PMState", "ExtendedPMState", "KSState", "KSTState", "STState", "STDState", "MBState",
                 "LongitudinalState", "LateralState", "InputState", "PMInputState", "LKSInputState", "CustomState"]

# ------------------------------------------------------------------------------------------------ build

_SENTINEL = object()


def build(d):
    """Materialise a description through the public constructors of the working tree under test."""
    import numpy as np
    if d is None or isinstance(d, (bool, int, float, str)):
        return d
    if isinstance(d, list):
        return [build(v) for v in d]
    if "nd" in d:
        return with_layout(np.array(d["nd"], dtype=float), d.get("layout"))
    if "set" in d:
        s = set()
        for v in d["set"]:
            s.add(build(v))
        return s
    if "dict" in d:
        out = {}
        for k, v in d["dict"]:
            out[build(k)] = build(v)
        return out
    if "enum" in d:
        return registry()[d["enum"]][d["name"]]
    if "np" in d:
        return getattr(np, d["np"])(d["v"])
    cls = d["cls"]
    args = {k: build(v) for k, v in d["args"].items()}
    R = registry()
    if d.get("via") == "alt":
        alt = build_alt(cls, args)
        if alt is not None:
            return alt
    if isinstance(d.get("via"), dict):
        return build_route(cls, args, d["via"])
    if cls == "LaneletNetwork":
        extra = {k: args.pop(k, []) for k in ("lanelets", "intersections", "traffic_signs", "traffic_lights", "areas")}
        net = R[cls](**args)
        for l in extra["lanelets"]:
            net.add_lanelet(l)
        for s in extra["traffic_signs"]:
            net.add_traffic_sign(s, set())
        for s in extra["traffic_lights"]:
            net.add_traffic_light(s, set())
        for s in extra["areas"]:
            net.add_area(s, set())
        for s in extra["intersections"]:
            net.add_intersection(s)
        return net
    if cls == "Scenario":
        extra = {k: args.pop(k, _SENTINEL) for k in ("lanelet_network", "static_obstacles", "dynamic_obstacles",
                                                     "environment_obstacle", "phantom_obstacle")}
        sc = R[cls](**args)
        if extra["lanelet_network"] is not _SENTINEL:
            sc.add_objects(extra["lanelet_network"])
        for k in ("static_obstacles", "dynamic_obstacles", "environment_obstacle", "phantom_obstacle"):
            if extra[k] is not _SENTINEL:
                for o in extra[k]:
                    sc.add_objects(o)
        return sc
    return R[cls](**args)


# memory layouts of an array with given logical values.  What an array-valued attribute IS for the property are its entries
# a[i][j]; how numpy lays them out (strides, ownership of the buffer, byte order) is not an attribute value.
LAYOUTS_2D = ["F", "T", "rows", "cols", "rev", "be"]
LAYOUTS_1D = ["rows", "rev", "be"]
_FILL = 7.25  # what the larger buffer holds around a strided view (never a value of the view)


def with_layout(a, how):
    """the array `a` (C-contiguous, owning its data) re-laid in memory; the result has the same shape and entries"""
    import numpy as np
    if not how or how == "C" or a.size == 0:
        return a
    if how == "F":       # column-major copy (np.asfortranarray; what e.g. np.linalg / scipy hand back)
        b = np.asfortranarray(a)
    elif how == "T":     # the usual np.array([xs, ys]).T: a transposed VIEW of a row-major (2, n) buffer
        b = np.ascontiguousarray(a.T).T
    elif how == "rows":  # every second row of a larger buffer (non-contiguous)
        big = np.full((2 * a.shape[0] + 1,) + a.shape[1:], _FILL)
        big[1::2] = a
        b = big[1::2]
    elif how == "cols":  # two inner columns of a wider table (rows not adjacent in memory)
        big = np.full((a.shape[0], a.shape[1] + 2), _FILL)
        big[:, 1:-1] = a
        b = big[:, 1:-1]
    elif how == "rev":   # negative stride
        b = np.ascontiguousarray(a[::-1])[::-1]
    elif how == "be":    # big-endian doubles (arrays read from files written on another platform)
        b = a.astype(">f8")
    else:
        raise ValueError(how)
    assert b.shape == a.shape and np.array_equal(a, b)
    return b


def _walk_nd(d, path, out):
    if isinstance(d, list):
        for i, e in enumerate(d):
            _walk_nd(e, path + [i], out)
    elif isinstance(d, dict):
        if "nd" in d:
            out.append(path)
        elif "set" in d:
            _walk_nd(d["set"], path + ["set"], out)
        elif "dict" in d:
            for i, kv in enumerate(d["dict"]):
                _walk_nd(kv[1], path + ["dict", i, 1], out)
        elif "cls" in d:
            for k, v in d["args"].items():
                _walk_nd(v, path + ["args", k], out)


def nd_paths(d):
    """paths of all array descriptions inside a description"""
    out = []
    _walk_nd(d, [], out)
    return out


def _at(d, path):
    for k in path:
        d = d[k]
    return d


def relayout(r, d, p_each=0.7):
    """same description with the memory layout of its arrays changed (each with probability p_each, at least one): identical
    attribute values.  Returns (description, [layouts used]) or None when the description holds no non-empty array."""
    paths = [p for p in nd_paths(d) if _at(d, p)["nd"]]
    if not paths:
        return None
    new = copy.deepcopy(d)
    forced = r.randrange(len(paths))
    used = []
    for i, p in enumerate(paths):
        if i != forced and r.random() >= p_each:
            continue
        node = _at(new, p)
        two = isinstance(node["nd"][0], list)
        cur = node.get("layout", "C")
        how = r.choice([l for l in (LAYOUTS_2D if two else LAYOUTS_1D) if l != cur])
        node["layout"] = how
        used.append(("2d:" if two else "1d:") + how)
    return new, used


def layout_alias(r, d):
    """two descriptions (dp, dq) that differ in ONE (n, 2) array, n >= 2, such that the differing arrays hold DIFFERENT
    points but exactly the same bytes in memory: one row-major, the other a transposed view (column-major).  E.g.
    [[0,1],[2,3]] row-major and [[0,2],[1,3]] column-major are both the buffer 0,1,2,3.  Returns (dp, dq, path) or None
    (no such array, or the two point lists differ by less than 1e-6 everywhere)."""
    import numpy as np
    paths = [p for p in nd_paths(d) if _at(d, p)["nd"] and isinstance(_at(d, p)["nd"][0], list) and len(_at(d, p)["nd"]) >= 2]
    r.shuffle(paths)
    for p in paths:
        a = np.array(_at(d, p)["nd"], dtype=float)
        n, m = a.shape
        dp, dq = copy.deepcopy(d), copy.deepcopy(d)
        if r.random() < 0.5:   # dp keeps a (row-major); dq: the points a.reshape(m, n).T laid out column-major = the buffer of a
            b = a.reshape(m, n).T
            _at(dp, p).pop("layout", None)
            _at(dq, p).update({"nd": b.tolist(), "layout": "T"})
        else:                  # dp holds a column-major; dq: the points a.T.reshape(n, m) row-major = that buffer
            b = a.T.reshape(n, m)
            _at(dp, p)["layout"] = r.choice(["T", "F"])
            _at(dq, p).update({"nd": b.tolist()})
            _at(dq, p).pop("layout", None)
        if np.max(np.abs(a - b)) < 1e-6:
            continue
        return dp, dq, p
    return None


ALT_CLASSES = ["Scenario", "LaneletNetwork", "PlanningProblemSet", "CustomState", "SignalState"] + \
    [c for c in STATE_CLASSES if c != "CustomState"]


def build_alt(cls, args):
    """the rarely used entry points: list form of add_objects, create_from_lanelet_list, add_planning_problem, an empty
    state / signal state filled attribute by attribute"""
    R = registry()
    if cls == "Scenario":
        extra = {k: args.pop(k, _SENTINEL) for k in ("lanelet_network", "static_obstacles", "dynamic_obstacles",
                                                     "environment_obstacle", "phantom_obstacle")}
        sc = R[cls](**args)
        if extra["lanelet_network"] is not _SENTINEL:
            sc.replace_lanelet_network(extra["lanelet_network"])
        objs = []
        for k in ("static_obstacles", "dynamic_obstacles", "environment_obstacle", "phantom_obstacle"):
            if extra[k] is not _SENTINEL:
                objs += list(extra[k])
        sc.add_objects(objs)  # one call with the whole list, all obstacle kinds mixed
        return sc
    if cls == "LaneletNetwork":
        extra = {k: args.pop(k, []) for k in ("lanelets", "intersections", "traffic_signs", "traffic_lights", "areas")}
        net = R[cls].create_from_lanelet_list(list(extra["lanelets"]), cleanup_ids=False)
        if "information" in args:
            net.information = args["information"]
        for s in extra["traffic_signs"]:
            net.add_traffic_sign(s, set())
        for s in extra["traffic_lights"]:
            net.add_traffic_light(s, set())
        for s in extra["areas"]:
            net.add_area(s, set())
        for s in extra["intersections"]:
            net.add_intersection(s)
        return net
    if cls == "PlanningProblemSet":
        pps = R[cls]()
        for p in args.get("planning_problem_list") or []:
            pps.add_planning_problem(p)
        return pps
    if cls == "CustomState":
        st = R[cls](time_step=args["time_step"]) if "time_step" in args else R[cls]()
        for k, v in args.items():
            if k != "time_step":
                st.add_attribute(k)
                st.set_value(k, v)
        return st
    if cls == "SignalState" or cls in STATE_CLASSES:
        st = R[cls]()
        for k, v in args.items():
            setattr(st, k, v)
        return st
    return None


def build_route(cls, args, via):
    """Assemble a Scenario / LaneletNetwork through another sequence of public calls than `build` uses.  `via`:
      "elements": "network" (add_objects(LaneletNetwork), as build does) | "single" (every lanelet / sign / light / intersection
                  through scenario.add_objects(element)) | "member" (through scenario.lanelet_network.add_*)      [Scenario]
      "order":    seed of the shuffle of the road elements (dict-compared; obstacle order is kept: the obstacle lists are
                  compared in insertion order)
      "extras":   [{"desc": element description with a fresh id, "add": "scenario" | "network", "remove": "scenario" | "network"}]
                  an extra element that is added and removed again before the comparison
      "cleanup":  call lanelet_network.cleanup_lanelet_references() at the end (what remove_lanelet does as a side effect)"""
    import random
    R = registry()
    rr = random.Random(via.get("order", 0))

    def shuffled(l):
        l = list(l)
        if "order" in via:
            rr.shuffle(l)
        return l

    def add_net_elements(net, e, sc=None, how="member"):
        for l in shuffled(e["lanelets"]):
            sc.add_objects(l) if how == "single" else net.add_lanelet(l)
        for t in shuffled(e["traffic_signs"]):
            sc.add_objects(t, set()) if how == "single" else net.add_traffic_sign(t, set())
        for t in shuffled(e["traffic_lights"]):
            sc.add_objects(t, set()) if how == "single" else net.add_traffic_light(t, set())
        for a in shuffled(e["areas"]):
            net.add_area(a, set())
        for i in shuffled(e["intersections"]):
            sc.add_objects(i) if how == "single" else net.add_intersection(i)

    def extras(net, sc):
        for ex in via.get("extras", []):
            o = build(ex["desc"])
            kind = ex["desc"]["cls"]
            through_sc = sc is not None and ex["add"] == "scenario"
            if kind == "Lanelet":
                sc.add_objects(o) if through_sc else net.add_lanelet(o)
            elif kind == "TrafficSign":
                sc.add_objects(o, set()) if through_sc else net.add_traffic_sign(o, set())
            elif kind == "TrafficLight":
                sc.add_objects(o, set()) if through_sc else net.add_traffic_light(o, set())
            elif kind == "Intersection":
                sc.add_objects(o) if through_sc else net.add_intersection(o)
            elif kind == "Area":
                net.add_area(o, set())
            else:
                sc.add_objects(o)
        for ex in via.get("extras", []):
            kind = ex["desc"]["cls"]
            through_sc = sc is not None and ex["remove"] == "scenario"
            a = ex["desc"]["args"]
            if kind == "Lanelet":
                sc.remove_lanelet(net.find_lanelet_by_id(a["lanelet_id"])) if through_sc else net.remove_lanelet(a["lanelet_id"])
            elif kind == "TrafficSign":
                sc.remove_traffic_sign(net.find_traffic_sign_by_id(a["traffic_sign_id"])) if through_sc \
                    else net.remove_traffic_sign(a["traffic_sign_id"])
            elif kind == "TrafficLight":
                sc.remove_traffic_light(net.find_traffic_light_by_id(a["traffic_light_id"])) if through_sc \
                    else net.remove_traffic_light(a["traffic_light_id"])
            elif kind == "Intersection":
                sc.remove_intersection(net.find_intersection_by_id(a["intersection_id"])) if through_sc \
                    else net.remove_intersection(a["intersection_id"])
            elif kind == "Area":
                net.remove_area(a["area_id"])
            else:
                sc.remove_obstacle(sc.obstacle_by_id(a["obstacle_id"]))

    if cls == "LaneletNetwork":
        e = {k: args.pop(k, []) for k in ("lanelets", "intersections", "traffic_signs", "traffic_lights", "areas")}
        net = R[cls](**args)
        add_net_elements(net, e)
        extras(net, None)
        if via.get("cleanup"):
            net.cleanup_lanelet_references()
        return net
    if cls == "Scenario":
        extra = {k: args.pop(k, _SENTINEL) for k in ("lanelet_network", "static_obstacles", "dynamic_obstacles",
                                                     "environment_obstacle", "phantom_obstacle")}
        sc = R[cls](**args)
        how = via.get("elements", "network")
        if extra["lanelet_network"] is not _SENTINEL:
            src = extra["lanelet_network"]
            if how == "network":
                sc.add_objects(src)
            else:
                sc.lanelet_network.information = src.information
                e = {"lanelets": src.lanelets, "traffic_signs": src.traffic_signs, "traffic_lights": src.traffic_lights,
                     "areas": src.areas, "intersections": src.intersections}
                add_net_elements(sc.lanelet_network, e, sc, how)
        for k in ("static_obstacles", "dynamic_obstacles", "environment_obstacle", "phantom_obstacle"):
            if extra[k] is not _SENTINEL:
                for o in extra[k]:
                    sc.add_objects(o)
        extras(sc.lanelet_network, sc)
        if via.get("cleanup"):
            sc.lanelet_network.cleanup_lanelet_references()
        return sc
    raise ValueError(f"no construction routes for {cls}")


# ------------------------------------------------------------------------------------------------ types

DELTAS = [1.7e-10, 3e-10, 1e-9, 1e-6, 1e-3, 0.25, 1.0]
SUB = 2e-11          # sub-threshold probe (correspondence only): stays inside the 10-decimal bucket of a "nice" value


class T:
    def gen(self, r, d):
        raise NotImplementedError

    def perturb(self, r, v, d):
        """a description of a different valid value (or None when there is none)"""
        raise NotImplementedError


def _no_collision(v):
    """CPython: hash(-1) == hash(-2) (== -2), the one systematic collision of numeric hashes: -1.0 is never generated"""
    return -1.0625 if v == -1.0 else v


class Real(T):
    def __init__(self, lo=-50.0, hi=50.0, sign=0, big=True):
        self.lo, self.hi, self.sign, self.big = lo, hi, sign, big

    def gen(self, r, d=0):
        m = r.random()
        if m < 0.5:
            v = r.randint(math.ceil(self.lo * 16), math.floor(self.hi * 16)) / 16
        elif m < 0.75:
            v = round(r.uniform(self.lo, self.hi), r.choice([1, 2, 4]))
        elif m < 0.9 or not self.big:
            v = r.uniform(self.lo, self.hi)
        else:
            # large magnitude next to small ones in one array switches numpy's printing to exponent format
            v = r.choice([1000.0, 1024.5, 2500.25, 100000.0, 250000.5, 999999.25]) + r.randint(0, 64) / 16
            if v > self.hi and self.hi < 1000:
                v = self.hi
        v = min(max(float(v), self.lo), self.hi)
        return _no_collision(v)

    def perturb(self, r, v, d=0):
        if not isinstance(v, float):
            return self.gen(r, d)
        for _ in range(8):
            dl = r.choice(DELTAS)
            if abs(v) >= 500 and r.random() < 0.7:
                dl = r.choice([1e-9, 1e-8, 1e-7])  # far below the resolution of numpy's exponent print format at this magnitude
            s = self.sign or r.choice([-1, 1])
            w = _no_collision(v + s * dl)
            if abs(w - v) > 1.5e-10:
                return w
        return v + (self.sign or 1) * 1.0


class Angle(Real):
    def __init__(self):
        super().__init__(-3.0, 3.0, 0, big=False)


class IntT(T):
    def __init__(self, lo=0, hi=60):
        self.lo, self.hi = lo, hi

    def gen(self, r, d=0):
        return self.lo if r.random() < 0.08 else r.randint(self.lo, self.hi)  # the smallest admissible value (id 0) regularly

    def perturb(self, r, v, d=0):
        while True:
            w = r.choice([self.gen(r), (v if isinstance(v, int) else self.lo) + 1])
            if w != v and self.lo <= w <= self.hi + 1:
                return w


class BoolT(T):
    def gen(self, r, d=0):
        return r.random() < 0.5

    def perturb(self, r, v, d=0):
        return not v


class StrT(T):
    def __init__(self, *choices):
        self.choices = list(choices)

    def gen(self, r, d=0):
        return r.choice(self.choices)

    def perturb(self, r, v, d=0):
        return r.choice([c for c in self.choices if c != v])


class EnumT(T):
    def __init__(self, name, only=None):
        self.name, self.only = name, only

    def members(self):
        return self.only or [m.name for m in registry()[self.name]]

    def gen(self, r, d=0):
        return {"enum": self.name, "name": r.choice(self.members())}

    def perturb(self, r, v, d=0):
        cur = v["name"] if isinstance(v, dict) else None
        return {"enum": self.name, "name": r.choice([m for m in self.members() if m != cur])}


class Opt(T):
    def __init__(self, t, p_none=0.3):
        self.t, self.p = t, p_none

    def gen(self, r, d=0):
        return None if r.random() < self.p else self.t.gen(r, d)

    def perturb(self, r, v, d=0):
        if v is None:
            return self.t.gen(r, d)
        if r.random() < 0.25:
            return None
        return self.t.perturb(r, v, d)


class Alt(T):
    """one of several types; a perturbation stays inside the alternative or switches to another one"""

    def __init__(self, *ts):
        self.ts = ts

    def which(self, v):
        for i, t in enumerate(self.ts):
            if t.accepts(v):
                return i
        return None

    def gen(self, r, d=0):
        return r.choice(self.ts).gen(r, d)

    def perturb(self, r, v, d=0):
        i = self.which(v)
        if i is not None and len(self.ts) > 1 and r.random() < 0.2:
            # the same content in the OTHER container form: a number k <-> the one-element list [k] (a class that prints or
            # normalises both alike must still tell them apart in == exactly when hash does; round-6 seed C12_13)
            if isinstance(v, int) and not isinstance(v, bool) and any(t.accepts([v]) for j, t in enumerate(self.ts) if j != i):
                return [v]
            if isinstance(v, list) and len(v) == 1 and any(t.accepts(v[0]) for j, t in enumerate(self.ts) if j != i):
                return v[0]
        if i is None or (len(self.ts) > 1 and r.random() < 0.25):
            return r.choice([t for j, t in enumerate(self.ts) if j != i]).gen(r, d)
        return self.ts[i].perturb(r, v, d)


def _accepts_real(self, v):
    return isinstance(v, float)


def _accepts_int(self, v):
    return isinstance(v, int) and not isinstance(v, bool)


Real.accepts = _accepts_real
IntT.accepts = _accepts_int


class Arr(T):
    """numpy array: 1-D of `cols` entries (rows=None) or rows x cols"""

    def __init__(self, rows=None, cols=2, real=None):
        self.rows, self.cols, self.real = rows, cols, real or Real(-60, 60)

    def gen(self, r, d=0):
        if self.rows is None:
            a = [self.real.gen(r) for _ in range(self.cols)]
            if r.random() < 0.15:  # large next to small magnitude (x = 1000 m, y = 0.5 m): numpy prints such arrays with exponents
                a = [r.choice([1000.0, 1024.5, 2500.25]) + r.randint(0, 64) / 16, r.choice([0.5, 0.25, -0.125, 0.0625])]
            return {"nd": a}
        n = r.randint(*self.rows)
        a = [[self.real.gen(r) for _ in range(self.cols)] for _ in range(n)]
        if r.random() < 0.15:
            a[0] = [r.choice([1000.0, 1024.5, 2500.25]) + r.randint(0, 64) / 16, r.choice([0.5, 0.25, -0.125, 0.0625])]
        return {"nd": a}

    def accepts(self, v):
        return isinstance(v, dict) and "nd" in v

    def perturb(self, r, v, d=0):
        if not self.accepts(v):
            return self.gen(r, d)
        w = copy.deepcopy(v)
        a = w["nd"]
        if a and isinstance(a[0], list):
            i, j = r.randrange(len(a)), r.randrange(len(a[0]))
            a[i][j] = self.real.perturb(r, a[i][j])
        else:
            i = r.randrange(len(a))
            a[i] = self.real.perturb(r, a[i])
        return w


class IdSet(T):
    """set of ids; members are chosen so that they collide in CPython's small-set tables (k, k+8, k+16, k+32): only then
    does the iteration order of a set depend on the insertion order"""

    def __init__(self, lo=0, hi=4, base=(0, 40)):
        self.lo, self.hi, self.base = lo, hi, base

    def gen(self, r, d=0):
        n = r.randint(self.lo, self.hi)
        out = []
        b = r.randint(*self.base)
        while len(out) < n:
            c = b + 8 * r.choice([0, 1, 2, 4, 8]) if r.random() < 0.8 else r.randint(*self.base)
            if c not in out:
                out.append(c)
        return {"set": out}

    def accepts(self, v):
        return isinstance(v, dict) and "set" in v

    def perturb(self, r, v, d=0):
        if not self.accepts(v):
            w = self.gen(r, d)
            if not w["set"]:
                w["set"] = [r.randint(*self.base)]
            return w
        cur = list(v["set"])
        m = r.random()
        fresh = max(cur + [0]) + r.choice([1, 8, 16])
        if not cur or m < 0.4:
            cur.insert(r.randint(0, len(cur)), fresh)
        elif m < 0.7:
            cur.pop(r.randrange(len(cur)))
        else:
            cur[r.randrange(len(cur))] = fresh
        return {"set": cur}


class EnumSet(T):
    def __init__(self, name, lo=0, hi=3):
        self.name, self.lo, self.hi = name, lo, hi

    def gen(self, r, d=0):
        ms = [m.name for m in registry()[self.name]]
        n = min(r.randint(self.lo, self.hi), len(ms))
        return {"set": [{"enum": self.name, "name": m} for m in r.sample(ms, n)]}

    def accepts(self, v):
        return isinstance(v, dict) and "set" in v

    def perturb(self, r, v, d=0):
        ms = [m.name for m in registry()[self.name]]
        cur = [e["name"] for e in v["set"]] if self.accepts(v) else []
        rest = [m for m in ms if m not in cur]
        m = r.random()
        if (not cur or m < 0.5) and rest:
            cur.insert(r.randint(0, len(cur)), r.choice(rest))
        elif m < 0.75 or not rest:
            cur.pop(r.randrange(len(cur)))
        else:
            cur[r.randrange(len(cur))] = r.choice(rest)
        return {"set": [{"enum": self.name, "name": m} for m in cur]}


class ListT(T):
    """list of elements; `key(desc)` of the elements is kept distinct when given (ids, sign ids, time steps)"""

    def __init__(self, t, lo=0, hi=3, key=None):
        self.t, self.lo, self.hi, self.key = t, lo, hi, key

    def _ok(self, l):
        if self.key is None:
            return True
        ks = [self.key(e) for e in l]
        return len(set(map(repr, ks))) == len(ks)

    def gen(self, r, d=0):
        n = r.randint(self.lo, self.hi)
        out = []
        tries = 0
        while len(out) < n and tries < 50:
            tries += 1
            e = self.t.gen(r, d + 1)
            if self._ok(out + [e]):
                out.append(e)
        return out

    def accepts(self, v):
        return isinstance(v, list)

    def perturb(self, r, v, d=0):
        if not isinstance(v, list):
            for _ in range(20):
                w = self.gen(r, d)
                if w:
                    return w
            return None
        for _ in range(20):
            cur = copy.deepcopy(v)
            m = r.random()
            if not cur or (m < 0.3 and len(cur) <= self.hi):
                cur.insert(r.randint(0, len(cur)), self.t.gen(r, d + 1))
            elif m < 0.5 and len(cur) > self.lo:
                cur.pop(r.randrange(len(cur)))
            else:
                i = r.randrange(len(cur))
                cur[i] = self.t.perturb(r, cur[i], d + 1)
            if cur != v and self._ok(cur) and len(cur) >= self.lo and None not in cur:
                return cur
        return None


class DictT(T):
    def __init__(self, kt, vt, lo=0, hi=3):
        self.kt, self.vt, self.lo, self.hi = kt, vt, lo, hi

    def gen(self, r, d=0):
        out, ks = [], []
        for _ in range(r.randint(self.lo, self.hi)):
            k = self.kt.gen(r)
            if k not in ks:
                ks.append(k)
                out.append([k, self.vt.gen(r, d + 1)])
        return {"dict": out}

    def accepts(self, v):
        return isinstance(v, dict) and "dict" in v

    def perturb(self, r, v, d=0):
        if not self.accepts(v):
            w = self.gen(r, d)
            if not w["dict"]:
                w["dict"] = [[self.kt.gen(r), self.vt.gen(r, d + 1)]]
            return w
        cur = copy.deepcopy(v["dict"])
        m = r.random()
        ks = [k for k, _ in cur]
        if not cur or m < 0.3:
            k = max([k for k in ks if isinstance(k, int)] + [0]) + 1 if not isinstance(self.kt, StrT) else "".join(ks) + "_"
            cur.append([k, self.vt.gen(r, d + 1)])
        elif m < 0.5:
            cur.pop(r.randrange(len(cur)))
        elif m < 0.65:
            i = r.randrange(len(cur))
            if isinstance(cur[i][0], int):
                cur[i][0] = max([k for k in ks if isinstance(k, int)] + [0]) + 1
            else:
                cur[i][0] = "".join(ks) + "_"
        else:
            i = r.randrange(len(cur))
            cur[i][1] = self.vt.perturb(r, cur[i][1], d + 1)
        return {"dict": cur}


class ObjT(T):
    """an object of one of the named classes"""

    def __init__(self, *names, switch=0.2):
        self.names, self.switch = list(names), switch

    def gen(self, r, d=0):
        return gen_obj(r, r.choice(self.names), d + 1)

    def accepts(self, v):
        return isinstance(v, dict) and v.get("cls") in self.names

    def perturb(self, r, v, d=0):
        if not self.accepts(v) or (len(self.names) > 1 and r.random() < self.switch):
            cur = v.get("cls") if isinstance(v, dict) else None
            return gen_obj(r, r.choice([n for n in self.names if n != cur] or self.names), d + 1)
        for _ in range(10):
            p = r.choice(SPECS[v["cls"]].param_names(v))
            w = perturb_param(r, v, p, d + 1)
            if w is not None:
                return w
        return None


# ------------------------------------------------------------------------------------------------ class specs

class P:
    def __init__(self, name, t, default=False, getter=None, p_omit=0.3):
        self.name, self.t, self.default, self.getter, self.p_omit = name, t, default, getter or name, p_omit


class Spec:
    """constructor parameters (in constructor order) with their value types; `family` is the class whose __eq__ decides
    (isinstance check); gen/perturb can be overridden for cross-parameter constraints"""

    def __init__(self, name, params, family=None, gen=None, perturb=None, coupled=()):
        self.name, self.params, self.family = name, params, family or name
        self._gen, self._perturb, self.coupled = gen, perturb, set(coupled)

    def param(self, n):
        for p in self.params:
            if p.name == n:
                return p
        raise KeyError(n)

    def param_names(self, desc=None):
        return [p.name for p in self.params]

    def gen(self, r, d):
        if self._gen:
            return self._gen(r, d)
        args = {}
        all_defaults = r.random() < 0.2
        for p in self.params:
            if p.default and (all_defaults or r.random() < p.p_omit):
                continue
            args[p.name] = p.t.gen(r, d)
        return {"cls": self.name, "args": args}


SPECS: dict = {}


def gen_obj(r, cls, d=0):
    return SPECS[cls].gen(r, d)


def perturb_param(r, desc, pname, d=0):
    """description equal to `desc` except for constructor parameter `pname` (None: no such valid value was produced)"""
    spec = SPECS[desc["cls"]]
    if spec._perturb:
        w = spec._perturb(r, desc, pname, d)
        if w is not NotImplemented:
            return w
    p = spec.param(pname)
    new = copy.deepcopy(desc)
    if pname in desc["args"]:
        v = p.t.perturb(r, desc["args"][pname], d)
    else:
        v = p.t.gen(r, d)
    if v is None and not isinstance(p.t, Opt):
        return None
    new["args"][pname] = v
    if new == desc:
        return None
    return new


# ---- shapes, intervals --------------------------------------------------------------------------------------------

POS = Real(0.25, 12.0, big=False)


def _gen_polygon(r, d):
    cx, cy = Real(-60, 60).gen(r), Real(-60, 60).gen(r)
    n = r.choice([3, 4, 5])
    pts = []
    for i in range(n):
        a = 2 * math.pi * i / n + 0.1
        rad = r.choice([1.0, 2.0, 3.5])
        pts.append([round(cx + rad * math.cos(a), 3), round(cy + rad * math.sin(a), 3)])
    if r.random() < 0.5:
        pts.reverse()
    return {"cls": "Polygon", "args": {"vertices": {"nd": pts}}}


def _gen_interval(r, d, cls="Interval", lo=-40.0, hi=40.0, ints=False):
    if ints:
        s = r.randint(0, 40)
        return {"cls": cls, "args": {"start": s, "end": s + r.randint(2, 30)}}
    s = Real(lo, hi, big=False).gen(r)
    return {"cls": cls, "args": {"start": s, "end": s + r.choice([2.0, 2.5, 3.0])}}


def _perturb_interval(r, desc, pname, d):
    v = desc["args"][pname]
    new = copy.deepcopy(desc)
    if isinstance(v, int):
        new["args"][pname] = v - 1 if pname == "start" else v + 1
    else:
        new["args"][pname] = Real(sign=-1 if pname == "start" else 1).perturb(r, v)
    return new


SHAPES = ["Rectangle", "Circle", "Polygon"]
ALLSHAPES = SHAPES + ["ShapeGroup"]


def _mk_basic():
    S = SPECS
    S["Rectangle"] = Spec("Rectangle", [P("length", POS), P("width", POS), P("center", Arr(), True), P("orientation", Angle(), True)])
    S["Circle"] = Spec("Circle", [P("radius", POS), P("center", Arr(), True)])
    S["Polygon"] = Spec("Polygon", [P("vertices", Arr((3, 5)))], gen=_gen_polygon)
    S["ShapeGroup"] = Spec("ShapeGroup", [P("shapes", ListT(ObjT(*SHAPES), 0, 3))])
    S["Interval"] = Spec("Interval", [P("start", Real()), P("end", Real())],
                         gen=lambda r, d: _gen_interval(r, d, ints=r.random() < 0.3), perturb=_perturb_interval)
    S["AngleInterval"] = Spec("AngleInterval", [P("start", Real()), P("end", Real())], family="Interval",
                              gen=lambda r, d: _gen_interval(r, d, "AngleInterval", -3.0, 0.0), perturb=_perturb_interval)
    S["Time"] = Spec("Time", [P("hours", IntT(0, 23)), P("minutes", IntT(0, 59)), P("day", Opt(IntT(1, 28)), True),
                              P("month", Opt(IntT(1, 12)), True), P("year", Opt(IntT(1990, 2030)), True)])


# ---- states -------------------------------------------------------------------------------------------------------

def state_fields(cls):
    import dataclasses
    return [f.name for f in dataclasses.fields(registry()[cls])]


def _state_value_type(name, goal=False):
    if name == "time_step":
        return Alt(IntT(0, 50), ObjT("Interval")) if not goal else ObjT("Interval")
    if name == "position":
        if goal:
            return ObjT(*ALLSHAPES)
        return Alt(Arr(), ObjT(*SHAPES))
    if name in ("orientation", "hitch_angle"):
        if goal:
            return ObjT("AngleInterval")
        return Alt(Angle(), ObjT("AngleInterval"))
    if goal:
        return ObjT("Interval")
    return Alt(Real(-30, 30, big=False), ObjT("Interval"))


def _gen_time_interval(r, d):
    return _gen_interval(r, d, ints=True)


def _gen_state(cls, goal=False):
    def g(r, d):
        args = {}
        if cls == "CustomState":
            pool = ["position", "orientation", "velocity", "acceleration", "yaw_rate", "jerk", "steering_angle"]
            names = ["time_step"] + r.sample(pool, r.randint(0, 4))
            r.shuffle(names)
        else:
            names = state_fields(cls)
        exact = r.random() < 0.6
        for n in names:
            t = _state_value_type(n, goal)
            if cls != "CustomState" and n != "time_step" and r.random() < 0.2:
                continue  # left to the dataclass default (None)
            if n == "time_step":
                args[n] = r.randint(0, 50) if (exact or r.random() < 0.5) and not goal else _gen_time_interval(r, d)
            elif isinstance(t, Alt):
                args[n] = t.ts[0].gen(r, d) if exact or r.random() < 0.6 else t.ts[1].gen(r, d + 1)
            else:
                args[n] = t.gen(r, d)
        return {"cls": cls, "args": args}
    return g


def _perturb_state(r, desc, pname, d):
    t = _state_value_type(pname)
    new = copy.deepcopy(desc)
    if pname in desc["args"] and desc["args"][pname] is not None:
        v = t.perturb(r, desc["args"][pname], d)
    else:
        v = t.gen(r, d)
    if v is None:
        return None
    new["args"][pname] = v
    return new


class StateSpec(Spec):
    def param_names(self, desc=None):
        if self.name == "CustomState":
            return list(desc["args"].keys()) if desc else ["time_step"]
        return state_fields(self.name)

    def param(self, n):
        return P(n, _state_value_type(n), default=(n != "time_step" or self.name != "CustomState"))


def _mk_states():
    for c in STATE_CLASSES:
        SPECS[c] = StateSpec(c, [], family="State", gen=_gen_state(c), perturb=_perturb_state)
    slots = ["horn", "indicator_left", "indicator_right", "braking_lights", "hazard_warning_lights", "flashing_blue_lights"]
    SPECS["SignalState"] = Spec("SignalState", [P(s, BoolT(), True, p_omit=0.4) for s in slots] + [P("time_step", IntT(0, 50), True, p_omit=0.2)])
    md = lambda vt: Opt(DictT(StrT("a", "b", "c", "key", "k2"), vt, 0, 3), 0.2)
    SPECS["MetaInformationState"] = Spec("MetaInformationState", [
        P("meta_data_str", md(StrT("x", "y", "zz")), True), P("meta_data_int", md(IntT(0, 9)), True),
        P("meta_data_float", md(Real(-5, 5, big=False)), True), P("meta_data_bool", md(BoolT()), True)])


# ---- trajectory, occupancy, predictions -----------------------------------------------------------------------------

def _gen_traj_states(r, d, t0, n, cls=None):
    cls = cls or r.choice(["KSState", "PMState", "InitialState", "CustomState", "STState", "ExtendedPMState"])
    first = _gen_state(cls)(r, d)
    first["args"] = {k: v for k, v in first["args"].items() if v is not None}
    names = list(first["args"].keys())
    out = []
    for i in range(n):
        s = {"cls": cls, "args": {}}
        for k in names:
            if k == "time_step":
                s["args"][k] = t0 + i
            else:
                t = _state_value_type(k)
                s["args"][k] = t.ts[0].gen(r, d)
        out.append(s)
    return out


def _gen_trajectory(r, d):
    t0 = r.randint(0, 20)
    return {"cls": "Trajectory", "args": {"initial_time_step": t0, "state_list": _gen_traj_states(r, d, t0, r.randint(1, 3))}}


def _perturb_trajectory(r, desc, pname, d):
    new = copy.deepcopy(desc)
    sl = new["args"]["state_list"]
    if pname == "initial_time_step":
        return None  # cannot change alone: state_list[0].time_step must equal it (see shift_trajectory for the coupled probe)
    m = r.random()
    if m < 0.3 and len(sl) < 4:
        last = copy.deepcopy(sl[-1])
        last["args"]["time_step"] += 1
        sl.append(last)
    elif m < 0.45 and len(sl) > 1:
        sl.pop()
    else:
        i = r.randrange(len(sl))
        ks = [k for k in sl[i]["args"] if not (i == 0 and k == "time_step")]
        if not ks:
            return None
        k = r.choice(ks)
        t = _state_value_type(k)
        sl[i]["args"][k] = (t.ts[0] if isinstance(t, Alt) else t).perturb(r, sl[i]["args"][k], d)
    return new


def shift_trajectory(desc, k=1):
    """coupled probe: the whole trajectory one step later (initial_time_step and every state's time_step)"""
    new = copy.deepcopy(desc)
    new["args"]["initial_time_step"] += k
    for s in new["args"]["state_list"]:
        s["args"]["time_step"] += k
    return new


def _occ_key(o):
    return o["args"]["time_step"] if isinstance(o, dict) else None


LANELET_ASSIGNMENT = Opt(DictT(IntT(0, 20), IdSet(0, 3), 0, 3), 0.4)


def _mk_predictions():
    S = SPECS
    S["Trajectory"] = Spec("Trajectory", [P("initial_time_step", IntT(0, 20)), P("state_list", T())],
                           gen=_gen_trajectory, perturb=_perturb_trajectory, coupled=["initial_time_step"])
    S["Occupancy"] = Spec("Occupancy", [P("time_step", Alt(IntT(0, 50), ObjT("Interval"))), P("shape", ObjT(*ALLSHAPES))],
                          gen=lambda r, d: {"cls": "Occupancy", "args": {
                              "time_step": r.randint(0, 50) if r.random() < 0.7 else _gen_time_interval(r, d),
                              "shape": ObjT(*ALLSHAPES).gen(r, d)}})
    S["SetBasedPrediction"] = Spec("SetBasedPrediction", [P("initial_time_step", IntT(0, 20)),
                                                          P("occupancy_set", ListT(ObjT("Occupancy"), 1, 3, key=_occ_key))])
    S["TrajectoryPrediction"] = Spec("TrajectoryPrediction", [
        P("trajectory", ObjT("Trajectory")), P("shape", ObjT(*SHAPES)),
        P("center_lanelet_assignment", LANELET_ASSIGNMENT, True), P("shape_lanelet_assignment", LANELET_ASSIGNMENT, True)])


# ---- obstacles ------------------------------------------------------------------------------------------------------

def _gen_initial_state(r, d):
    s = _gen_state("InitialState")(r, d)
    s["args"]["time_step"] = r.randint(0, 20)
    if not isinstance(s["args"].get("position"), dict) or "nd" not in s["args"]["position"]:
        s["args"]["position"] = Arr().gen(r)
    if not isinstance(s["args"].get("orientation"), float):
        s["args"]["orientation"] = Angle().gen(r)
    return s


class InitialStateT(ObjT):
    def __init__(self, full=False):
        super().__init__("InitialState")
        self.full = full

    def gen(self, r, d=0):
        s = _gen_initial_state(r, d)
        if self.full:  # PlanningProblem demands exact position, velocity, orientation, yaw_rate, slip_angle, time_step
            for k in ("velocity", "yaw_rate", "slip_angle"):
                if not isinstance(s["args"].get(k), float):
                    s["args"][k] = Real(-30, 30, big=False).gen(r)
        return s


OBST_TYPES = ["CAR", "TRUCK", "BUS", "BICYCLE", "PEDESTRIAN", "PARKED_VEHICLE", "UNKNOWN"]


def _mk_obstacles():
    S = SPECS
    common_tail = [
        P("initial_center_lanelet_ids", Opt(IdSet(0, 3)), True), P("initial_shape_lanelet_ids", Opt(IdSet(0, 3)), True),
        P("initial_signal_state", Opt(ObjT("SignalState")), True), P("signal_series", Opt(ListT(ObjT("SignalState"), 0, 2)), True)]
    S["StaticObstacle"] = Spec("StaticObstacle", [
        P("obstacle_id", IntT(0, 900)), P("obstacle_type", EnumT("ObstacleType", OBST_TYPES)), P("obstacle_shape", ObjT(*SHAPES)),
        P("initial_state", InitialStateT())] + common_tail)
    S["DynamicObstacle"] = Spec("DynamicObstacle", [
        P("obstacle_id", IntT(0, 900)), P("obstacle_type", EnumT("ObstacleType", OBST_TYPES)), P("obstacle_shape", ObjT(*SHAPES)),
        P("initial_state", InitialStateT()),
        P("prediction", Opt(ObjT("TrajectoryPrediction", "SetBasedPrediction")), True)] + common_tail + [
        P("initial_meta_information_state", Opt(ObjT("MetaInformationState")), True),
        P("meta_information_series", Opt(ListT(ObjT("MetaInformationState"), 0, 2)), True),
        P("external_dataset_id", Opt(IntT(0, 99)), True),
        P("history", Opt(ListT(ObjT("KSState", "InitialState", "CustomState"), 0, 2)), True),
        P("signal_history", Opt(ListT(ObjT("SignalState"), 0, 2)), True),
        P("center_lanelet_ids_history", Opt(ListT(IdSet(0, 3), 0, 2)), True),
        P("shape_lanelet_ids_history", Opt(ListT(IdSet(0, 3), 0, 2)), True)])
    S["PhantomObstacle"] = Spec("PhantomObstacle", [P("obstacle_id", IntT(0, 900)), P("prediction", Opt(ObjT("SetBasedPrediction")), True)])
    S["EnvironmentObstacle"] = Spec("EnvironmentObstacle", [
        P("obstacle_id", IntT(0, 900)), P("obstacle_type", EnumT("ObstacleType", ["BUILDING", "PILLAR", "MEDIAN_STRIP", "UNKNOWN"])),
        P("obstacle_shape", ObjT(*SHAPES))])


# ---- road network ---------------------------------------------------------------------------------------------------

def _gen_lanelet(r, d, lid=None):
    n = r.choice([2, 2, 3, 4]) if r.random() > 0.04 or d > 0 else 520  # > 1000 entries: numpy abbreviates the printed array
    x0, y0 = Real(-60, 60).gen(r), Real(-60, 60).gen(r)
    w = r.choice([1.5, 1.75, 2.0])
    xs = [x0 + 5.0 * i for i in range(n)]
    wob = [r.choice([0.0, 0.25, -0.125]) for _ in range(n)]
    args = {
        "left_vertices": {"nd": [[x, y0 + w + o] for x, o in zip(xs, wob)]},
        "center_vertices": {"nd": [[x, y0 + o] for x, o in zip(xs, wob)]},
        "right_vertices": {"nd": [[x, y0 - w + o] for x, o in zip(xs, wob)]},
        "lanelet_id": lid if lid is not None else (0 if r.random() < 0.08 else r.randint(0, 900)),
    }
    sp = SPECS["Lanelet"]
    all_defaults = r.random() < 0.2
    for p in sp.params[4:]:
        if all_defaults or r.random() < p.p_omit:
            continue
        args[p.name] = p.t.gen(r, d)
    for side in ("adjacent_left", "adjacent_right"):
        if args.get(side) is not None and args.get(side + "_same_direction") is None:
            args[side + "_same_direction"] = r.random() < 0.5  # the constructor demands a bool next to a neighbour id
    return {"cls": "Lanelet", "args": args}


def _perturb_lanelet(r, desc, pname, d):
    if pname in ("adjacent_left_same_direction", "adjacent_right_same_direction"):
        side = "adjacent_left" if "left" in pname else "adjacent_right"
        if desc["args"].get(side) is None:
            return None  # the constructor ignores the flag when there is no neighbour
        new = copy.deepcopy(desc)
        new["args"][pname] = not desc["args"][pname]
        return new
    if pname in ("adjacent_left", "adjacent_right") and desc["args"].get(pname) is None:
        new = copy.deepcopy(desc)
        new["args"][pname] = r.randint(1, 900)
        if new["args"].get(pname + "_same_direction") is None:
            return None  # a neighbour id needs its direction flag: not a single-parameter change
        return new
    return NotImplemented


def _mk_network():
    S = SPECS
    S["StopLine"] = Spec("StopLine", [P("start", Arr()), P("end", Arr()), P("line_marking", EnumT("LineMarking")),
                                      P("traffic_sign_ref", Opt(IdSet(0, 3)), True), P("traffic_light_ref", Opt(IdSet(0, 3)), True)])
    S["Lanelet"] = Spec("Lanelet", [
        P("left_vertices", Arr((2, 4))), P("center_vertices", Arr((2, 4))), P("right_vertices", Arr((2, 4))),
        P("lanelet_id", IntT(0, 900)),
        P("predecessor", Opt(ListT(IntT(0, 900), 0, 3, key=lambda e: e), 0.2), True),
        P("successor", Opt(ListT(IntT(0, 900), 0, 3, key=lambda e: e), 0.2), True),
        P("adjacent_left", Opt(IntT(0, 900)), True, getter="adj_left"),
        P("adjacent_left_same_direction", Opt(BoolT(), 0.1), True, getter="adj_left_same_direction"),
        P("adjacent_right", Opt(IntT(0, 900)), True, getter="adj_right"),
        P("adjacent_right_same_direction", Opt(BoolT(), 0.1), True, getter="adj_right_same_direction"),
        P("line_marking_left_vertices", EnumT("LineMarking"), True), P("line_marking_right_vertices", EnumT("LineMarking"), True),
        P("stop_line", Opt(ObjT("StopLine")), True),
        P("lanelet_type", Opt(EnumSet("LaneletType"), 0.2), True),
        P("user_one_way", Opt(EnumSet("RoadUser"), 0.2), True), P("user_bidirectional", Opt(EnumSet("RoadUser"), 0.2), True),
        P("traffic_signs", Opt(IdSet(0, 3), 0.2), True), P("traffic_lights", Opt(IdSet(0, 3), 0.2), True),
        P("adjacent_areas", Opt(IdSet(0, 3), 0.2), True)], gen=_gen_lanelet, perturb=_perturb_lanelet)
    S["MapInformation"] = Spec("MapInformation", [
        P("commonroad_version", StrT("2023a", "2020a", "2024a"), True), P("map_id", StrT("map_id", "DEU_Test-1", "ZAM_X-2"), True),
        P("date", Opt(ObjT("Time"), 0.0), True), P("author", StrT("author", "A. B.", ""), True),
        P("affiliation", StrT("affiliation", "TUM", ""), True), P("source", StrT("source", "osm", ""), True),
        P("licence_name", StrT("licence_name", "BSD", ""), True), P("licence_text", StrT("", "text", "other"), True)],
        gen=lambda r, d: _gen_with(r, d, "MapInformation", force={"date": ObjT("Time")}))
    signs = ["MAX_SPEED", "MIN_SPEED", "YIELD", "STOP", "PRIORITY", "TOWN_SIGN", "NO_OVERTAKING_START", "U_TURN"]
    S["TrafficSignElement"] = Spec("TrafficSignElement", [
        P("traffic_sign_element_id", EnumT("TrafficSignIDGermany", signs)),
        P("additional_values", ListT(StrT("10", "20", "30.5", "50", "x"), 0, 2, key=lambda e: e), True)])
    S["TrafficSign"] = Spec("TrafficSign", [
        P("traffic_sign_id", IntT(0, 900)),
        P("traffic_sign_elements", ListT(ObjT("TrafficSignElement"), 1, 3, key=lambda e: e["args"]["traffic_sign_element_id"]["name"])),
        P("first_occurrence", IdSet(0, 3)), P("position", Arr()), P("virtual", BoolT(), True)])
    S["TrafficLightCycleElement"] = Spec("TrafficLightCycleElement", [P("state", EnumT("TrafficLightState")), P("duration", IntT(1, 30))])
    S["TrafficLightCycle"] = Spec("TrafficLightCycle", [
        P("cycle_elements", Opt(ListT(ObjT("TrafficLightCycleElement"), 0, 4), 0.1), True), P("time_offset", IntT(0, 20), True),
        P("active", BoolT(), True)])
    S["TrafficLight"] = Spec("TrafficLight", [
        P("traffic_light_id", IntT(0, 900)), P("position", Arr()), P("traffic_light_cycle", Opt(ObjT("TrafficLightCycle")), True),
        P("color", Opt(ListT(EnumT("TrafficLightState"), 0, 3, key=lambda e: e["name"]), 0.2), True), P("active", BoolT(), True),
        P("direction", EnumT("TrafficLightDirection"), True), P("shape", Opt(ObjT("Rectangle")), True)])
    S["IntersectionIncomingElement"] = Spec("IntersectionIncomingElement", [
        P("incoming_id", IntT(0, 900)), P("incoming_lanelets", Opt(IdSet(0, 3), 0.1), True),
        P("successors_right", Opt(IdSet(0, 3), 0.2), True), P("successors_straight", Opt(IdSet(0, 3), 0.2), True),
        P("successors_left", Opt(IdSet(0, 3), 0.2), True), P("left_of", Opt(IntT(0, 900)), True)])
    S["Intersection"] = Spec("Intersection", [
        P("intersection_id", IntT(0, 900)),
        P("incomings", ListT(ObjT("IntersectionIncomingElement"), 1, 3, key=lambda e: e["args"]["incoming_id"])),
        P("crossings", Opt(IdSet(0, 3), 0.2), True)])
    S["AreaBorder"] = Spec("AreaBorder", [
        P("area_border_id", IntT(0, 900)), P("border_vertices", Arr((2, 4))),
        P("adjacent", Opt(ListT(IntT(0, 900), 0, 3, key=lambda e: e)), True), P("line_marking", Opt(EnumT("LineMarking")), True)])
    S["Area"] = Spec("Area", [
        P("area_id", IntT(0, 900)), P("border", Opt(ListT(ObjT("AreaBorder"), 0, 2, key=lambda e: e["args"]["area_border_id"]), 0.2), True),
        P("area_types", Opt(EnumSet("AreaType"), 0.2), True)])
    idk = lambda k: (lambda e: e["args"][k])
    S["LaneletNetwork"] = Spec("LaneletNetwork", [
        P("information", ObjT("MapInformation"), True),
        P("lanelets", ListT(ObjT("Lanelet"), 0, 3, key=idk("lanelet_id")), True, p_omit=0.1),
        P("intersections", ListT(ObjT("Intersection"), 0, 2, key=idk("intersection_id")), True),
        P("traffic_signs", ListT(ObjT("TrafficSign"), 0, 2, key=idk("traffic_sign_id")), True),
        P("traffic_lights", ListT(ObjT("TrafficLight"), 0, 2, key=idk("traffic_light_id")), True),
        P("areas", ListT(ObjT("Area"), 0, 2, key=idk("area_id")), True)])


def _gen_with(r, d, cls, force=None):
    desc = Spec.gen(_plain(SPECS[cls]), r, d)
    for k, t in (force or {}).items():
        if k not in desc["args"] and r.random() < 0.7:
            desc["args"][k] = t.gen(r, d)
    return desc


def _plain(spec):
    s = copy.copy(spec)
    s._gen = None
    return s


# ---- planning, scenario -------------------------------------------------------------------------------------------------

def _gen_goal_state(r, d):
    cls = r.choice(["CustomState", "InitialState", "KSState"])
    args = {"time_step": _gen_time_interval(r, d)}
    for k in ("position", "velocity", "orientation"):
        if r.random() < 0.6:
            args[k] = _state_value_type(k, goal=True).gen(r, d)
    return {"cls": cls, "args": args}


class GoalStateT(ObjT):
    def __init__(self):
        super().__init__("CustomState", "InitialState", "KSState", switch=0.0)

    def gen(self, r, d=0):
        return _gen_goal_state(r, d)

    def perturb(self, r, v, d=0):
        ks = list(v["args"].keys())
        for _ in range(10):
            k = r.choice(ks)
            w = copy.deepcopy(v)
            nv = _state_value_type(k, goal=True).perturb(r, v["args"][k], d + 1)
            if nv is not None:
                w["args"][k] = nv
                return w
        return None


def _gen_scenario_id(r, d):
    args = {}
    if r.random() < 0.8:
        args["cooperative"] = r.random() < 0.3
    if r.random() < 0.8:
        args["country_id"] = r.choice(["ZAM", "DEU", "USA", "ESP"])
    if r.random() < 0.8:
        args["map_name"] = r.choice(["Test", "Muc", "Lanker", "Ffb"])
    if r.random() < 0.8:
        args["map_id"] = r.randint(1, 40)
    m = r.random()
    if m < 0.75:
        args["configuration_id"] = r.randint(1, 40)
        if m < 0.55:
            args["obstacle_behavior"] = r.choice(["S", "T", "P", "I"])
            if m < 0.4:
                args["prediction_id"] = r.randint(1, 9) if m < 0.2 else [r.randint(1, 9) for _ in range(r.randint(1, 3))]
    if r.random() < 0.5:
        args["scenario_version"] = r.choice(["2018b", "2020a"])
    return {"cls": "ScenarioID", "args": args}


def _gen_scenario(r, d):
    used = set()

    def fresh():
        while True:
            i = 0 if (not used and r.random() < 0.3) else r.randint(0, 5000)
            if i not in used:
                used.add(i)
                return i

    def reid(desc):
        """give every id-carrying object in the tree a scenario-wide fresh id"""
        if isinstance(desc, list):
            for e in desc:
                reid(e)
        elif isinstance(desc, dict) and "cls" in desc:
            for k in ("lanelet_id", "traffic_sign_id", "traffic_light_id", "intersection_id", "incoming_id", "obstacle_id", "area_id"):
                if k in desc["args"]:
                    desc["args"][k] = fresh()
            for v in desc["args"].values():
                reid(v)
        return desc

    args = {"dt": r.choice([0.1, 0.04, 0.5, 0.2, 1.0])}
    sp = _plain(SPECS["Scenario"])
    for p in sp.params[1:]:
        if r.random() < p.p_omit:
            continue
        args[p.name] = reid(p.t.gen(r, d))
    # obstacles may only reference lanelets that exist in the scenario's network (add_objects registers them there)
    lids = [l["args"]["lanelet_id"] for l in args.get("lanelet_network", {"args": {}})["args"].get("lanelets", [])]

    def existing():
        return {"set": r.sample(lids, r.randint(0, len(lids)))}
    for k in ("static_obstacles", "dynamic_obstacles"):
        for o in args.get(k, []):
            if o["args"].get("initial_shape_lanelet_ids") is not None:
                o["args"]["initial_shape_lanelet_ids"] = existing()
            pred = o["args"].get("prediction")
            if pred and pred["args"].get("shape_lanelet_assignment") is not None:
                for kv in pred["args"]["shape_lanelet_assignment"]["dict"]:
                    kv[1] = existing()
    return {"cls": "Scenario", "args": args}


def _perturb_scenario(r, desc, pname, d):
    if pname == "dt":
        new = copy.deepcopy(desc)
        new["args"]["dt"] = Real(0.01, 2.0, sign=1, big=False).perturb(r, desc["args"]["dt"])
        return new
    return NotImplemented


def _mk_planning():
    S = SPECS
    S["GoalRegion"] = Spec("GoalRegion", [
        P("state_list", ListT(GoalStateT(), 1, 3)),
        P("lanelets_of_goal_position", Opt(DictT(IntT(0, 3), ListT(IntT(0, 900), 0, 3, key=lambda e: e), 0, 2), 0.5), True)])
    S["PlanningProblem"] = Spec("PlanningProblem", [P("planning_problem_id", IntT(0, 900)), P("initial_state", InitialStateT(full=True)),
                                                    P("goal_region", ObjT("GoalRegion"), getter="goal")])
    S["PlanningProblemSet"] = Spec("PlanningProblemSet", [
        P("planning_problem_list", Opt(ListT(ObjT("PlanningProblem"), 0, 3, key=lambda e: e["args"]["planning_problem_id"]), 0.1), True,
          getter="planning_problem_dict")])
    S["GeoTransformation"] = Spec("GeoTransformation", [
        P("geo_reference", Opt(StrT("+proj=utm +zone=32", "EPSG:4326", "+proj=tmerc")), True), P("x_translation", Opt(Real(-100, 100)), True),
        P("y_translation", Opt(Real(-100, 100)), True), P("z_rotation", Opt(Angle()), True), P("scaling", Opt(Real(0.5, 2.0, big=False)), True)])
    S["Environment"] = Spec("Environment", [
        P("time", Opt(ObjT("Time")), True), P("time_of_day", Opt(EnumT("TimeOfDay")), True), P("weather", Opt(EnumT("Weather")), True),
        P("underground", Opt(EnumT("Underground")), True)])
    S["Location"] = Spec("Location", [
        P("geo_name_id", IntT(0, 3000000), True), P("gps_latitude", Real(-90, 90, big=False), True),
        P("gps_longitude", Real(-180, 180, big=False), True), P("geo_transformation", Opt(ObjT("GeoTransformation")), True),
        P("environment", Opt(ObjT("Environment")), True)])
    S["ScenarioID"] = Spec("ScenarioID", [
        P("cooperative", BoolT(), True), P("country_id", StrT("ZAM", "DEU", "USA", "ESP"), True),
        P("map_name", StrT("Test", "Muc", "Lanker", "Ffb"), True), P("map_id", IntT(1, 40), True),
        P("configuration_id", Opt(IntT(1, 40)), True), P("obstacle_behavior", Opt(StrT("S", "T", "P", "I")), True),
        P("prediction_id", Opt(Alt(IntT(1, 9), ListOfInts())), True), P("scenario_version", StrT("2018b", "2020a"), True)],
        gen=_gen_scenario_id)
    S["Scenario"] = Spec("Scenario", [
        P("dt", Real(0.01, 2.0, big=False)), P("scenario_id", ObjT("ScenarioID"), True),
        P("author", Opt(StrT("a", "Jane Doe", "")), True), P("tags", Opt(EnumSet("Tag")), True),
        P("affiliation", Opt(StrT("TUM", "x", "")), True), P("source", Opt(StrT("osm", "synthetic", "")), True),
        P("location", Opt(ObjT("Location")), True),
        P("lanelet_network", ObjT("LaneletNetwork"), True, p_omit=0.2),
        P("static_obstacles", ListT(ObjT("StaticObstacle"), 0, 2, key=lambda e: e["args"]["obstacle_id"]), True),
        P("dynamic_obstacles", ListT(ObjT("DynamicObstacle"), 0, 2, key=lambda e: e["args"]["obstacle_id"]), True),
        P("environment_obstacle", ListT(ObjT("EnvironmentObstacle"), 0, 2, key=lambda e: e["args"]["obstacle_id"]), True),
        P("phantom_obstacle", ListT(ObjT("PhantomObstacle"), 0, 2, key=lambda e: e["args"]["obstacle_id"]), True)],
        gen=_gen_scenario, perturb=_perturb_scenario)


class ListOfInts(ListT):
    def __init__(self):
        super().__init__(IntT(1, 9), 1, 3)


_mk_basic()
_mk_states()
_mk_predictions()
_mk_obstacles()
_mk_network()
_mk_planning()

CLASSES = list(SPECS.keys())

# ------------------------------------------------------------------------------------------------ encoding through public getters

ABSENT = {"s": "<absent>"}


def family_of(obj):
    R = registry()
    n = type(obj).__name__
    if n in SPECS:
        return SPECS[n]
    for c in type(obj).__mro__:
        if c.__name__ in SPECS and R.get(c.__name__) is c:
            return SPECS[c.__name__]
    if isinstance(obj, R["State"]):
        return SPECS["CustomState"]
    return None


def getters(spec):
    return [p.getter for p in spec.params]


def encode(v, sort_sets=False):
    """Dump of a value through the public getters of its class, in the shape the Lean model reads:
    null | {"r": "n/d"} (every number) | {"s": str} | [ ... ] | {"c": family, "f": [field, ...]}.
    With sort_sets the members of sets and dicts are sorted (canonical snapshot used to decide whether two objects
    differ in a constructor-visible attribute)."""
    import json

    import numpy as np
    from common import rat
    if v is None:
        return None
    if isinstance(v, (bool, np.bool_, int, np.integer)):
        return {"r": f"{int(v)}/1"}  # Python: True == 1 == 1.0, and their hashes agree
    if isinstance(v, (float, np.floating)):
        return {"r": rat(v)}
    if isinstance(v, str):
        return {"s": v}
    if isinstance(v, enum.Enum):
        return {"s": f"{type(v).__name__}.{v.name}"}
    if isinstance(v, np.ndarray):
        return encode(v.tolist(), sort_sets)
    if isinstance(v, (list, tuple)):
        return [encode(e, sort_sets) for e in v]
    if isinstance(v, (set, frozenset)):
        out = [encode(e, sort_sets) for e in v]
        return sorted(out, key=lambda e: json.dumps(e, sort_keys=True)) if sort_sets else out
    if isinstance(v, dict) or type(v).__name__ in ("dict_items",):
        items = v.items() if isinstance(v, dict) else v
        out = [[encode(k, sort_sets), encode(x, sort_sets)] for k, x in items]
        return sorted(out, key=lambda e: json.dumps(e, sort_keys=True)) if sort_sets else out
    spec = family_of(v)
    if spec is None:
        raise TypeError(f"cannot encode {type(v)}")
    if spec.family == "State":
        names = sorted(v.attributes)
        return {"c": "State", "f": [{"s": ",".join(names)}] + [encode(getattr(v, n), sort_sets) for n in names]}
    if spec.name == "SignalState":
        return {"c": "SignalState", "f": [encode(getattr(v, g), sort_sets) if hasattr(v, g) else ABSENT for g in getters(spec)]}
    if spec.name == "PlanningProblemSet":
        return {"c": spec.family, "f": [encode(list(v.planning_problem_dict.values()), sort_sets)]}
    if spec.name == "Scenario":  # scenario.py:597-636 compares and hashes str(dt), not dt
        return {"c": spec.family, "f": [{"s": str(v.dt)} if g == "dt" else encode(getattr(v, g), sort_sets) for g in getters(spec)]}
    return {"c": spec.family, "f": [encode(getattr(v, g), sort_sets) for g in getters(spec)]}


def tenc(v):
    """Typed dump of a value through the public getters, in the shape the hashability model reads (Python container
    types kept): null | {"r": "n/d"} | {"s": str} | {"t": "list"|"tuple"|"set"|"frozenset"|"dict"|"ndarray", "e": [...]}
    (dict: [key, value] pairs; ndarray: no elements) | {"c": family, "f": [attribute, ...]}."""
    import numpy as np
    from common import rat
    if v is None:
        return None
    if isinstance(v, (bool, np.bool_, int, np.integer)):
        return {"r": f"{int(v)}/1"}
    if isinstance(v, (float, np.floating)):
        return {"r": rat(v)}
    if isinstance(v, str):
        return {"s": v}
    if isinstance(v, enum.Enum):
        return {"s": f"{type(v).__name__}.{v.name}"}
    if isinstance(v, np.ndarray):
        return {"t": "ndarray", "e": []}
    for t, n in ((list, "list"), (tuple, "tuple"), (frozenset, "frozenset"), (set, "set")):
        if isinstance(v, t):
            return {"t": n, "e": [tenc(e) for e in v]}
    if isinstance(v, dict):
        return {"t": "dict", "e": [[tenc(k), tenc(x)] for k, x in v.items()]}
    spec = family_of(v)
    if spec is None:
        raise TypeError(f"cannot encode {type(v)}")
    if spec.family == "State":
        names = sorted(v.attributes)
        return {"c": "State", "f": [{"s": ",".join(names)}] + [tenc(getattr(v, n)) for n in names]}
    if spec.name == "SignalState":
        return {"c": "SignalState", "f": [tenc(getattr(v, g)) if hasattr(v, g) else ABSENT for g in getters(spec)]}
    return {"c": spec.family, "f": [tenc(getattr(v, g)) for g in getters(spec)]}


# values of the wrong type for (almost) every attribute: what __hash__ does with them exercises the builder of the attribute
ILL_TYPED = [None, [1], [[1]], {"dict": [["k", [1]]]}]


def ill_typed(r, d):
    """correspondence probe for the hashability model: one constructor argument replaced by None / [1] / [[1]] / {'k': [1]}.
    Returns (description, parameter, probe index) — the caller keeps it only if the constructor accepts it."""
    spec = SPECS[d["cls"]]
    names = spec.param_names(d)
    if not names:
        return None
    n = r.choice(names)
    i = r.randrange(len(ILL_TYPED))
    new = copy.deepcopy(d)
    new["args"][n] = copy.deepcopy(ILL_TYPED[i])
    if d["cls"] == "CustomState" and r.random() < 0.5:
        new["args"]["extra_attribute"] = copy.deepcopy(ILL_TYPED[i])
    return new, n, i


# ------------------------------------------------------------------------------------------------ read-only histories

# ordinary queries that take a time step (or an id / a point); called with a few arguments, exceptions are ignored
TIME_QUERIES = ["occupancy_at_time", "state_at_time", "occupancy_at_time_step", "state_at_time_step", "get_state_at_time_step",
                "occupancies_at_time_step", "signal_state_at_time_step", "obstacle_states_at_time_step"]
ID_QUERIES = ["find_lanelet_by_id", "find_traffic_sign_by_id", "find_traffic_light_by_id", "find_intersection_by_id",
              "find_area_by_id", "obstacle_by_id", "find_planning_problem_by_id"]
POINT_QUERIES = ["contains_point", "find_lanelet_by_position"]


def walk_objects(v, seen=None, depth=0):
    """the object and every scenario-element object reachable through the public getters of the class specs"""
    seen = set() if seen is None else seen
    if depth > 12 or v is None or isinstance(v, (bool, int, float, str, enum.Enum)):
        return
    import numpy as np
    if isinstance(v, np.ndarray):
        return
    if isinstance(v, (list, tuple, set, frozenset)):
        for e in list(v):
            yield from walk_objects(e, seen, depth + 1)
        return
    if isinstance(v, dict):
        for e in list(v.values()):
            yield from walk_objects(e, seen, depth + 1)
        return
    spec = family_of(v)
    if spec is None or id(v) in seen:
        return
    seen.add(id(v))
    yield v
    names = sorted(v.attributes) if spec.family == "State" else [g for g in getters(spec) if hasattr(v, g)]
    for g in names:
        try:
            yield from walk_objects(getattr(v, g), seen, depth + 1)
        except Exception:  # noqa
            pass


def read_only_history(x):
    """Look at an object the way a user does without changing it: on the object and on everything reachable from it read
    every public non-callable attribute / property, take str / repr / hash, and call the ordinary queries by time step,
    id and point. Returns the number of reads made. Deterministic; exceptions of individual reads are ignored."""
    import warnings

    import numpy as np
    n = 0
    with warnings.catch_warnings():
        warnings.simplefilter("ignore")
        for o in list(walk_objects(x)):
            for name in dir(type(o)):
                if name.startswith("_"):
                    continue
                try:
                    a = getattr(type(o), name)
                except Exception:  # noqa
                    continue
                if callable(a) and not isinstance(a, property):
                    continue
                try:
                    getattr(o, name)
                    n += 1
                except Exception:  # noqa
                    pass
            for f in (str, repr, hash):
                try:
                    f(o)
                    n += 1
                except Exception:  # noqa
                    pass
            for q, args in ([(m, [0, 1, 2, 3, 5, 21]) for m in TIME_QUERIES] + [(m, [1, 2, 7]) for m in ID_QUERIES]
                            + [(m, [np.array([0.5, 0.25])]) for m in POINT_QUERIES]):
                m = getattr(o, q, None)
                if m is None:
                    continue
                for a in args:
                    try:
                        m([a] if q == "find_lanelet_by_position" else a)
                        n += 1
                    except Exception:  # noqa
                        pass
    return n


# ------------------------------------------------------------------------------------------------ description transformers

def permute_sets(r, d):
    """same description with the insertion order of every set and dict shuffled"""
    if isinstance(d, list):
        return [permute_sets(r, e) for e in d]
    if isinstance(d, dict):
        if "set" in d:
            l = [permute_sets(r, e) for e in d["set"]]
            if len(l) == 2:
                l.reverse()
            else:
                r.shuffle(l)
            return {"set": l}
        if "dict" in d:
            l = [[k, permute_sets(r, v)] for k, v in d["dict"]]
            if len(l) == 2:
                l.reverse()
            else:
                r.shuffle(l)
            return {"dict": l}
        if "cls" in d:
            return {"cls": d["cls"], "args": {k: permute_sets(r, v) for k, v in d["args"].items()}}
    return d


def count_sets(d):
    if isinstance(d, list):
        return sum(count_sets(e) for e in d)
    if isinstance(d, dict):
        if "set" in d:
            return (1 if len(d["set"]) >= 2 else 0) + count_sets(d["set"])
        if "dict" in d:
            return (1 if len(d["dict"]) >= 2 else 0) + sum(count_sets(v) for _, v in d["dict"])
        if "cls" in d:
            return sum(count_sets(v) for v in d["args"].values())
    return 0


def sub_threshold(r, d):
    """correspondence probe: one real number of the description moved by 2e-11 (inside its 10-decimal bucket); only
    numbers with at most 4 decimals are moved. Returns (description, path) or None."""
    paths = []

    def walk(x, path):
        if isinstance(x, float):
            if round(x, 4) == x and abs(x) < 3000:
                paths.append(path)
        elif isinstance(x, list):
            for i, e in enumerate(x):
                walk(e, path + [i])
        elif isinstance(x, dict):
            for k in ("nd", "set", "args"):
                if k in x:
                    if k == "args":
                        for n, e in x[k].items():
                            walk(e, path + ["args", n])
                    else:
                        walk(x[k], path + [k])
            if "dict" in x:
                for i, (k, v) in enumerate(x["dict"]):
                    walk(v, path + ["dict", i, 1])
    walk(d, [])
    if not paths:
        return None
    p = r.choice(paths)
    new = copy.deepcopy(d)
    cur = new
    for k in p[:-1]:
        cur = cur[k]
    cur[p[-1]] = cur[p[-1]] + SUB
    return new, p


def none_vs_empty(r, d):
    """correspondence probe: one optional set / list argument given as the empty container instead of being omitted or None"""
    spec = SPECS[d["cls"]]
    cands = []
    for p in spec.params:
        t = p.t.t if isinstance(p.t, Opt) else p.t
        if p.default and isinstance(t, (IdSet, EnumSet, ListT)) and d["args"].get(p.name) is None:
            cands.append((p.name, {"set": []} if isinstance(t, (IdSet, EnumSet)) else []))
    if not cands:
        return None
    n, e = r.choice(cands)
    new = copy.deepcopy(d)
    new["args"][n] = e
    return new, n


def reorder_kwargs(r, d):
    """same CustomState with its keyword arguments given in another order (identical attribute values)"""
    ks = list(d["args"].keys())
    if d["cls"] != "CustomState" or len(ks) < 2:
        return None
    ks2 = ks[::-1] if len(ks) == 2 else r.sample(ks, len(ks))
    if ks2 == ks:
        ks2 = ks[::-1]
    return {"cls": d["cls"], "args": {k: d["args"][k] for k in ks2}}


def reorder_lists(r, d):
    """correspondence probe: one list argument with at least two elements reversed"""
    spec = SPECS[d["cls"]]
    cands = [k for k, v in d["args"].items() if isinstance(v, list) and len(v) >= 2 and v != v[::-1] and d["cls"] != "Trajectory"]
    if not cands:
        return None
    n = r.choice(cands)
    new = copy.deepcopy(d)
    new["args"][n] = new["args"][n][::-1]
    return new, n
