"""C20 — lanelet arc-length geometry (distance / interpolate_position / merge_lanelets) and successor / predecessor
route enumeration (find_lanelet_successors_in_range / find_lanelet_predecessors_in_range).
models: lean/CRModel/ArcLen.lean, lean/CRModel/Route.lean; theorems: lean/CRProps/C20.lean."""
from __future__ import annotations

import glob
import itertools
import json
import math
import os
import signal
from decimal import Decimal, getcontext
from fractions import Fraction

from common import CORPUS_DIR, call, rat, unrat

RULE = ("case kinds poly, polyfloat, poly3, merge, net, lanhist (lanelet histories: queries, vertex setters, failing setter, translation, copies, then the observation) and mergechain (all_lanelets_by_merging_* on geometrically consistent trees / rings); every lanelet is built with randomly drawn optional attributes (DIMENSIONS), networks through eight entry points, route queries before and after link edits, max_length as float / int / numpy scalars / inf / keyword / default. Original four kinds:  poly: centre polylines of 2..8 vertices whose steps are Pythagorean directions scaled by k/16 (segment lengths "
        "and all numpy arithmetic exact), arbitrary grid right/left boundaries (30% of them repeat a vertex two or three times in a row: pivot of a sharp corner), arc lengths 0, full length, every vertex, dyadic "
        "fractions of every segment, random interior, out of range; plus polylines with a repeated vertex (NaN branch, correspondence "
        "only). polyfloat: arbitrary double coordinates (oracle with conditioning-aware tolerance only). merge: two lanelets linked "
        "via successor and/or predecessor lists in either argument order, joint exact / within isclose tolerance / left-only / open, "
        "also unlinked. net: directed graphs without self-successors (chain, cycle, diamond, dense, sparse random up to 9 lanelets; "
        "all labelled digraphs on <= 3 nodes in quick and <= 4 nodes in thorough, exhaustively), predecessor lists mirrored or "
        "independent, lanelet lengths k/4, range limits 0, negative, exactly at / just below / just above accumulated path lengths, "
        "default 50, 2^40. distinct = distinct canonical JSON of the case; non-trivial = every case")
ASSUMPTIONS = [
    "numpy diff/square/sum/sqrt/cumsum/searchsorted denote their list counterparts; on the Pythagorean k/16 grid they are exact, so the "
    "correspondence is bit-exact there (vertices, dyadic segment fractions) and within 1e-9 relative elsewhere",
    "segment lengths are parameters of the model (sent as the exact rationals numpy computed)",
    "np.isclose is modelled with rtol=1e-5, atol=1e-8 as exact decimal rationals (no generated joint lies near that boundary)",
    "the property quantifies over lanelet graphs whose successor / predecessor ids name lanelets of the network; networks with "
    "dangling ids (AttributeError on None) are modelled (findSuccessorsR / findPredecessorsR) and compared, but excluded from the oracle",
    "maximality in the strong sense (a returned path has no admissible extension) and duplicate-freeness of the returned LIST are "
    "not claimed by the property text and are false for the code (C20_witness_route_not_maximal, C20_witness_route_duplicates, "
    "replayed from corpus/C20/net_witness_*.json); the oracle therefore checks neither, the correspondence compares order and "
    "multiplicity exactly",
    "theorems are stated for 2-D points; 3-D centre lines (kind poly3) are covered by the correspondence of `cum` and the oracle only",
    "DIMENSIONS lists every constructor parameter, settable attribute and public method of Lanelet and LaneletNetwork with one decision "
    "each (varied / irrelevant / outside); check_dimensions() compares it with the real signatures on every run (exit 2 on a new one)",
    "histories: a lanelet whose vertex arrays are edited IN PLACE after distance was read (the arrays are handed out by reference; no "
    "setter runs) is outside the quantifier; in-place edits before the first query are generated. lanelet_id re-assigned after a "
    "network was assembled is outside (the network's id table is C09/C10's subject)",
    "inner_distance and polygon staleness after the vertex setters are not judged here (the property speaks about the centre-line "
    "distance): a stale inner_distance is excluded from the correspondence and counted in excluded_ambiguous",
    "all_lanelets_by_merging_*_from_lanelet: when int(str(id1) + str(id2)) of an intermediate merge equals the id of a real lanelet, "
    "merge_lanelets (which identifies lanelets by id) misreads the links (may raise or append at the wrong end); the model predicts "
    "this (mergeChain), the property sentence (two lanelets in successor relation) does not cover it: compared, not judged. Same for a "
    "predecessor that is also a successor of the start (closed ring)",
    "aliasing: every array / list RETURNED BY A COMPUTATION (interpolate_position points, the merged lanelet's vertices and distance, "
    "merged route lanelets, route paths) is modified in place by the harness and the lanelet / inputs / network / later answers are "
    "observed again. The attribute getters distance, inner_distance, center/left/right_vertices, successor, predecessor hand out the "
    "object's own array / list by design (they have setters; distance is the cache itself): modifying those in place is editing the "
    "lanelet and is outside the quantifier, as is the merged lanelet sharing its predecessor / successor LIST objects with its inputs",
    "the exhaustive stream enumerates every labelled digraph without self-successors on <= 3 (quick) / <= 4 (thorough) nodes",
]
TRUSTED = ["C20: termination of the real route functions is observed through a call budget on LaneletNetwork.find_lanelet_by_id "
           "(a counting subclass) derived from the number of simple paths of the graph, plus a 30 s wall-clock alarm; the mergechain runner "
           "(all_lanelets_by_merging_*) has the same watchdog with a budget derived from the model's answer",
           "C20 translator tie: harness/translate/src_c20.py (py -> Lean, regenerated every run) and the call table CRModel/PyExtC20.lean"]
REQUIRED_BUCKETS = ["poly", "poly3d", "poly/s=0", "poly/s=length", "poly/s=vertex", "poly/s=interior", "poly/s=out-of-range",
                    "poly/repeated-vertex", "polyfloat", "merge/joined-exact", "merge/left-boundary-repeats-vertex",
                    "merge/right-boundary-repeats-vertex", "merge/pred-boundary-repeats-vertex", "merge/suc-boundary-repeats-vertex",
                    "poly/boundary-repeats-vertex", "merge/open", "merge/unlinked", "merge/swapped-args",
                    "net", "net/cyclic", "net/diamond", "net/range=path-length", "net/range-huge", "net/exhaustive",
                    "net/pred-independent", "net/dangling-id", "net/witness",
                    # generator audit (DIMENSIONS): optional attributes, histories, entry points, value classes
                    "poly/decor", "poly/large-offset", "poly/pre-distance", "poly/pre-deepcopy", "poly/pre-pickle", "poly/pre-polygon",
                    "poly/s-type-int", "poly/s-type-npint", "poly/s-type-np64", "poly/query-after-failed-call",
                    "merge/decor", "merge/obstacle-registries", "merge/repeated-call", "merge/retry-after-failed-call",
                    "lanhist", "lanhist/setter-after-query", "lanhist/failed-setter", "lanhist/set_center", "lanhist/set_all",
                    "lanhist/set_center_same", "lanhist/translate", "lanhist/deepcopy", "lanhist/pickle", "lanhist/inplace_before_query",
                    "mergechain", "mergechain/tree", "mergechain/ring", "mergechain/chain>=3", "mergechain/range-default-arg",
                    "net/decor", "net/duplicate-links", "net/range-type-int", "net/range-type-npint", "net/range-type-np64",
                    "net/range-type-inf", "net/range-type-default", "net/range-type-keyword",
                    # results must not alias state: returned arrays / lists modified in place, then re-observed
                    "alias/interp-result-modified", "alias/interp-at-vertex", "alias/merge-result-modified",
                    "alias/routes-result-modified", "alias/mergechain-result-modified",
                    # integer-dtype vertex arrays with segments of non-integer length
                    "poly/int-dtype-diagonal", "merge/int-dtype-diagonal", "net/int-dtype-diagonal"]
REQUIRED_BUCKETS += ["net/via-" + v for v in ("add_lanelet", "add_lanelet_rtree", "from_list", "from_list_cleanup", "from_network",
                                              "add_from_network", "scenario_network", "scenario_lanelets")]
REQUIRED_BUCKETS += ["net/pre-" + q for q in ("lanelets", "lanelet_polygons", "find_by_position", "distances", "polygons", "deepcopy",
                                              "find_by_id")]
REQUIRED_BUCKETS += ["net/edit-" + e for e in ("add_successor", "remove_successor", "add_predecessor", "remove_predecessor",
                                               "successor_same_object", "successor_shuffled_copy", "successor_inplace_append",
                                               "predecessor_inplace_remove", "remove_lanelet", "add_lanelet_late",
                                               "add_existing_successor")]
WORKERS = {"quick": 1, "thorough": 8}
EXTRA_MODULES = ["CRProps.T20"]      # translator tie: Gen.SrcC20 (regenerated from the working tree every run) = hand model

DIRS = [(3, 4, 5), (4, 3, 5), (5, 12, 13), (12, 5, 13), (8, 15, 17), (15, 8, 17), (7, 24, 25), (20, 21, 29), (1, 0, 1), (0, 1, 1)]
TOL = 1e-9


# ------------------------------------------------------------------------------------------------ dimension table
# Every constructor parameter, settable attribute and public operation of the classes the property is anchored in, with how the
# generator varies it ("varied: ..."), why it cannot influence what the property observes ("irrelevant: ...") or why it lies
# outside the property's quantifier ("outside: ...").  check_dimensions() compares the table with the real signatures on every
# run: a parameter / property / method the table does not know (or one that has gone) stops the run with exit 2.
DIMENSIONS = {
    "Lanelet.__init__": {
        "left_vertices": "varied: offset or independent grid polylines, pivots (repeated vertices), int dtype, map-scale offsets, 3-D",
        "center_vertices": "varied: Pythagorean grid polylines 2..8 vertices, repeated vertex (NaN stream), arbitrary doubles, int dtype, map-scale offsets, 3-D",
        "right_vertices": "varied: as left_vertices",
        "lanelet_id": "varied: 0, small, 5-digit ids; constructed with another id and re-assigned through the setter before use (decor reid)",
        "predecessor": "varied: None / [] / lists, shuffled, mirrored or independent of the successor lists, duplicates, dangling ids",
        "successor": "varied: as predecessor",
        "adjacent_left": "varied: decor (never read by the observed functions; drawn so that it is not always None)",
        "adjacent_left_same_direction": "varied: decor", "adjacent_right": "varied: decor", "adjacent_right_same_direction": "varied: decor",
        "line_marking_left_vertices": "varied: decor", "line_marking_right_vertices": "varied: decor", "stop_line": "varied: decor",
        "lanelet_type": "varied: decor", "user_one_way": "varied: decor", "user_bidirectional": "varied: decor",
        "traffic_signs": "varied: decor", "traffic_lights": "varied: decor", "adjacent_areas": "varied: decor",
    },
    "Lanelet.setters": {
        "center_vertices": "varied: lanhist set_center / set_all / same object handed back / failing assignment, before and after distance was read",
        "left_vertices": "varied: lanhist set_all / failing assignment", "right_vertices": "varied: lanhist set_all / failing assignment",
        "distance": "varied: lanhist set_distance_same (own value handed back); outside: a caller-supplied different array (the property speaks about the computed distance)",
        "lanelet_id": "varied: decor reid (before the lanelet is used); outside: re-assignment after a network was assembled (the network's id table is C09/C10's subject)",
        "predecessor": "varied: constructor path (None -> [])", "successor": "varied: net edits successor_same_object / successor_shuffled_copy",
        "adj_left": "varied: decor via constructor", "adj_left_same_direction": "varied: decor via constructor",
        "adj_right": "varied: decor via constructor", "adj_right_same_direction": "varied: decor via constructor",
        "adjacent_areas": "varied: decor via constructor", "lanelet_type": "varied: decor via constructor",
        "line_marking_left_vertices": "varied: decor via constructor", "line_marking_right_vertices": "varied: decor via constructor",
        "stop_line": "varied: decor via constructor", "traffic_lights": "varied: decor via constructor",
        "traffic_signs": "varied: decor via constructor", "user_bidirectional": "varied: decor via constructor",
        "user_one_way": "varied: decor via constructor",
        "static_obstacles_on_lanelet": "varied: decor static_obs (merge_lanelets merges these registries)",
        "dynamic_obstacles_on_lanelet": "varied: decor dynamic_obs (merge_lanelets merges these registries)",
    },
    "Lanelet.readonly": {
        "inner_distance": "varied: compared with CR.Arc.cumDistMin; read before the observation (pre / lanhist q)",
        "polygon": "varied: read before the observation (pre / lanhist q); its content is C06/C11's subject",
    },
    "Lanelet.methods": {
        "interpolate_position": "varied: observed; argument as float / int / numpy int64 / float64, failing calls followed by admissible ones",
        "merge_lanelets": "varied: observed; both argument orders, repeated call on the same objects, failed call + add_successor + retry",
        "find_lanelet_successors_in_range": "varied: observed; max_length positional float / int / numpy scalars / inf / keyword / default",
        "find_lanelet_predecessors_in_range": "varied: observed; as successors",
        "all_lanelets_by_merging_successors_from_lanelet": "varied: mergechain (trees, rings; default and explicit max_length)",
        "all_lanelets_by_merging_predecessors_from_lanelet": "varied: mergechain",
        "add_successor": "varied: net edits add_successor / add_existing_successor", "remove_successor": "varied: net edits",
        "add_predecessor": "varied: net edits", "remove_predecessor": "varied: net edits",
        "translate_rotate": "varied: lanhist translate (angle 0: exact); rotation is C05's subject",
        "convert_to_2d": "varied: poly3 (3-D queries, convert_to_2d, planar queries)",
        "convert_to_polygon": "irrelevant: returns the polygon attribute (deprecated alias)",
        "contains_points": "irrelevant: reads the polygon only (C06)", "get_obstacles": "irrelevant: reads the polygon and obstacle occupancies (C06/C07)",
        "orientation_by_position": "irrelevant: reads the centre vertices, caches nothing the property observes",
        "add_adjacent_area_to_lanelet": "irrelevant: edits a set the observed functions never read",
        "add_traffic_light_to_lanelet": "irrelevant: edits a set the observed functions never read",
        "add_traffic_sign_to_lanelet": "irrelevant: edits a set the observed functions never read",
        "add_static_obstacle_to_lanelet": "varied: decor static_obs through the setter (same registry)",
        "add_dynamic_obstacle_to_lanelet": "varied: decor dynamic_obs through the setter (same registry)",
        "dynamic_obstacle_by_time_step": "irrelevant: reads the obstacle registry only",
    },
    "LaneletNetwork.__init__": {"information": "irrelevant: map meta data, never read by the observed functions"},
    "LaneletNetwork.methods": {
        "add_lanelet": "varied: via add_lanelet (rtree False / True), net edit add_lanelet_late",
        "create_from_lanelet_list": "varied: via from_list (cleanup_ids False) / from_list_cleanup (default True)",
        "create_from_lanelet_network": "varied: via from_network", "add_lanelets_from_network": "varied: via add_from_network",
        "remove_lanelet": "varied: net edit remove_lanelet (rtree False / True) between two rounds of route queries",
        "cleanup_lanelet_references": "varied: through create_from_lanelet_list(cleanup_ids=True) and remove_lanelet",
        "find_lanelet_by_id": "varied: the lookup the route functions use; counted for the termination watchdog; read-only pre query",
        "find_lanelet_by_position": "varied: read-only pre query", "find_lanelet_by_shape": "irrelevant: read-only spatial query (C06)",
        "find_most_likely_lanelet_by_state": "irrelevant: read-only spatial query", "lanelets_in_proximity": "irrelevant: read-only spatial query",
        "translate_rotate": "irrelevant: moves vertices rigidly, link lists and lengths unchanged (C05/C11)",
        "convert_to_2d": "irrelevant: network lanelets of the route stream are planar",
        "add_area": "irrelevant: areas are not read by the observed functions", "remove_area": "irrelevant: as add_area",
        "find_area_by_id": "irrelevant: as add_area",
        "add_intersection": "irrelevant: intersections are not read by the observed functions", "remove_intersection": "irrelevant: as add_intersection",
        "find_intersection_by_id": "irrelevant: as add_intersection",
        "add_traffic_light": "irrelevant: lights are not read by the observed functions", "remove_traffic_light": "irrelevant: as add_traffic_light",
        "find_traffic_light_by_id": "irrelevant: as add_traffic_light", "cleanup_traffic_light_references": "irrelevant: as add_traffic_light",
        "get_traffic_lights_referenced_lanelets": "irrelevant: as add_traffic_light",
        "add_traffic_sign": "irrelevant: signs are not read by the observed functions", "remove_traffic_sign": "irrelevant: as add_traffic_sign",
        "find_traffic_sign_by_id": "irrelevant: as add_traffic_sign", "cleanup_traffic_sign_references": "irrelevant: as add_traffic_sign",
        "get_traffic_sign_referenced_lanelets": "irrelevant: as add_traffic_sign",
        "filter_obstacles_in_network": "irrelevant: obstacle query (C06)", "map_obstacles_to_lanelets": "irrelevant: obstacle registry (C07)",
        "draw": "irrelevant: rendering (C19)",
    },
    "LaneletNetwork.properties": {
        "lanelets": "varied: read-only pre query; read back to obtain the graph the route functions see",
        "lanelet_polygons": "varied: read-only pre query", "areas": "irrelevant: see add_area", "information": "irrelevant: meta data",
        "intersections": "irrelevant: see add_intersection", "map_inc_lanelets_to_intersections": "irrelevant: see add_intersection",
        "traffic_lights": "irrelevant: see add_traffic_light", "traffic_signs": "irrelevant: see add_traffic_sign",
    },
}


def check_dimensions():
    """The table above must list exactly the real constructor parameters, properties and public methods (exit 2 otherwise)."""
    import inspect
    from common import InfraError
    from commonroad.scenario.lanelet import Lanelet, LaneletNetwork

    def params(f):
        return [p for p in inspect.signature(f).parameters if p != "self"]

    def props(cls, settable):
        return [n for n, v in inspect.getmembers(cls) if isinstance(v, property) and (v.fset is not None) == settable]

    def methods(cls):
        return [n for n, v in inspect.getmembers(cls) if not n.startswith("_") and not isinstance(v, property) and callable(v)]

    real = {
        "Lanelet.__init__": params(Lanelet.__init__), "Lanelet.setters": props(Lanelet, True), "Lanelet.readonly": props(Lanelet, False),
        "Lanelet.methods": methods(Lanelet), "LaneletNetwork.__init__": params(LaneletNetwork.__init__),
        "LaneletNetwork.methods": methods(LaneletNetwork),
        "LaneletNetwork.properties": props(LaneletNetwork, True) + props(LaneletNetwork, False),
    }
    problems = []
    for group, names in real.items():
        known = DIMENSIONS[group]
        for n in names:
            if n not in known:
                problems.append(f"{group}: '{n}' exists in the code but is not in DIMENSIONS (decide how the generator varies it)")
        for n in known:
            if n not in names:
                problems.append(f"{group}: '{n}' is in DIMENSIONS but no longer exists in the code")
        for n, how in known.items():
            if not how.split(":")[0] in ("varied", "irrelevant", "outside"):
                problems.append(f"{group}: '{n}' has no decision")
    if problems:
        raise InfraError("C20 dimension table out of date:\n  " + "\n  ".join(problems))


# ------------------------------------------------------------------------------------------------ helpers

def F(x) -> Fraction:
    return x if isinstance(x, Fraction) else unrat(x)


def pts_to_np(pts):
    import numpy as np
    return np.array([[float(F(x)), float(F(y))] for x, y in pts], dtype=float)


def pts_rat(arr):
    return [[rat(float(x)), rat(float(y))] for x, y in arr]


def np_seglens(arr):
    """The segment-length parameters of the model: what numpy computes (lanelet.py:362-364)."""
    import numpy as np
    return [float(v) for v in np.sqrt(np.square(np.diff(arr, axis=0)).sum(axis=1))]


def frac_sqrt(q: Fraction):
    """Exact square root of a rational if it is a rational square, else None."""
    n, d = q.numerator, q.denominator
    a, b = math.isqrt(n), math.isqrt(d)
    return Fraction(a, b) if a * a == n and b * b == d else None


def seglens_exact(pts):
    """Exact (Fraction) or 50-digit (Decimal) segment lengths of a polyline given as Fraction pairs."""
    out, exact = [], True
    for (x0, y0), (x1, y1) in zip(pts, pts[1:]):
        q = (x1 - x0) ** 2 + (y1 - y0) ** 2
        r = frac_sqrt(q)
        if r is None:
            exact = False
            getcontext().prec = 60
            dq = Decimal(q.numerator) / Decimal(q.denominator)
            ds = dq.sqrt()
            r = Fraction(ds)
        out.append(r)
    return out, exact


LINE_MARKINGS = ["DASHED", "SOLID", "BROAD_DASHED", "NO_MARKING", "UNKNOWN"]
LANELET_TYPES = ["URBAN", "HIGHWAY", "INTERSECTION", "SIDEWALK"]
ROAD_USERS = ["VEHICLE", "CAR", "BUS", "BICYCLE", "PEDESTRIAN"]


def gen_decor(r, p=0.6):
    """Optional constructor arguments / attributes of a Lanelet that the property does not mention (DIMENSIONS: 'decor'):
    drawn at random so that none of them is always at its default."""
    if r.random() > p:
        return {}
    d = {}
    if r.random() < 0.5:
        d["adj_left"] = [r.choice([0, 4, 88, 1234]), r.random() < 0.5]
    if r.random() < 0.5:
        d["adj_right"] = [r.choice([0, 6, 89]), r.random() < 0.5]
    if r.random() < 0.5:
        d["line_left"] = r.choice(LINE_MARKINGS)
    if r.random() < 0.5:
        d["line_right"] = r.choice(LINE_MARKINGS)
    if r.random() < 0.3:
        d["stop_line"] = [[r.randint(-9, 9), r.randint(-9, 9)], [r.randint(-9, 9), r.randint(10, 19)], r.choice(LINE_MARKINGS)]
    for k, pool in (("types", LANELET_TYPES), ("one_way", ROAD_USERS), ("bidir", ROAD_USERS)):
        if r.random() < 0.4:
            d[k] = r.sample(pool, r.randint(0, 2))
    for k in ("signs", "lights", "areas", "static_obs"):
        if r.random() < 0.3:
            d[k] = r.sample(range(200, 230), r.randint(0, 3))
    if r.random() < 0.25:
        d["dynamic_obs"] = {str(t): r.sample(range(300, 310), r.randint(1, 2)) for t in r.sample(range(0, 6), r.randint(1, 2))}
    if r.random() < 0.3:
        d["none_links"] = True        # empty predecessor / successor lists are passed as None (the constructor default)
    if r.random() < 0.25:
        d["reid"] = r.choice([0, 7, 99999])     # constructed with another id, lanelet_id re-assigned before any use
    if r.random() < 0.3:
        d["int_arrays"] = True        # integer dtype vertex arrays where all coordinates are integers
    return d


def make_lanelet(left, center, right, lid=1, pred=None, succ=None, decor=None):
    import numpy as np
    from commonroad.scenario.lanelet import Lanelet
    from commonroad.common.common_lanelet import LineMarking, LaneletType, RoadUser, StopLine
    d = decor or {}
    L, C, R = pts_to_np(left), pts_to_np(center), pts_to_np(right)
    if d.get("int_arrays") and all(float(v).is_integer() for a in (L, C, R) for v in a.flat):
        L, C, R = L.astype(np.int64), C.astype(np.int64), R.astype(np.int64)
    pred, succ = list(pred or []), list(succ or [])
    kw = {"predecessor": None if (d.get("none_links") and not pred) else pred,
          "successor": None if (d.get("none_links") and not succ) else succ}
    if "adj_left" in d:
        kw["adjacent_left"], kw["adjacent_left_same_direction"] = d["adj_left"]
    if "adj_right" in d:
        kw["adjacent_right"], kw["adjacent_right_same_direction"] = d["adj_right"]
    if "line_left" in d:
        kw["line_marking_left_vertices"] = LineMarking[d["line_left"]]
    if "line_right" in d:
        kw["line_marking_right_vertices"] = LineMarking[d["line_right"]]
    if "stop_line" in d:
        a, b, m = d["stop_line"]
        kw["stop_line"] = StopLine(np.array(a, dtype=float), np.array(b, dtype=float), LineMarking[m])
    if "types" in d:
        kw["lanelet_type"] = {LaneletType[t] for t in d["types"]}
    if "one_way" in d:
        kw["user_one_way"] = {RoadUser[t] for t in d["one_way"]}
    if "bidir" in d:
        kw["user_bidirectional"] = {RoadUser[t] for t in d["bidir"]}
    if "signs" in d:
        kw["traffic_signs"] = set(d["signs"])
    if "lights" in d:
        kw["traffic_lights"] = set(d["lights"])
    if "areas" in d:
        kw["adjacent_areas"] = set(d["areas"])
    lan = Lanelet(L, C, R, d["reid"] if "reid" in d else lid, **kw)
    if "reid" in d:
        lan.lanelet_id = lid
    if "static_obs" in d:
        lan.static_obstacles_on_lanelet = set(d["static_obs"])
    if "dynamic_obs" in d:
        lan.dynamic_obstacles_on_lanelet = {int(t): set(v) for t, v in d["dynamic_obs"].items()}
    return lan


def gen_center(r, n, repeated=False):
    x, y = Fraction(r.randint(-64, 64), 4), Fraction(r.randint(-64, 64), 4)
    pts = [(x, y)]
    rep_at = r.randrange(n - 1) if repeated else None
    for i in range(n - 1):
        if rep_at == i:
            pts.append((x, y))
            continue
        a, b, _ = r.choice(DIRS)
        k = Fraction(r.choice([1, 2, 3, 4, 8, 16, 16, 32, 48, r.randint(1, 64)]), 16)
        x, y = x + r.choice([-1, 1]) * a * k, y + r.choice([-1, 1]) * b * k
        pts.append((x, y))
    return pts


def gen_boundary(r, center, sign):
    if r.random() < 0.5:
        off = Fraction(r.randint(1, 32), 8) * sign
        pts = [(x, y + off) for x, y in center]
    else:
        pts = [(Fraction(r.randint(-512, 512), 8), Fraction(r.randint(-512, 512), 8)) for _ in center]
    if r.random() < 0.3:
        # a boundary may pivot on one point (the inner side of a sharp corner: the same vertex twice or three times in a row)
        # while the centre line keeps distinct consecutive vertices; any position, also the first / last segment
        i = r.randrange(len(pts) - 1)
        for k in range(i + 1, min(len(pts), i + 1 + r.choice([1, 1, 2]))):
            pts[k] = pts[i]
    return pts


def gen_poly(ctx, repeated=False):
    r = ctx.rng
    n = r.choice([2, 2, 3, 3, 4, 5, 6, 8])
    if repeated:
        n = max(n, 3)
    c = gen_center(r, n, repeated)
    if r.random() < 0.15:    # map-scale coordinates (UTM-like offsets); still exact: 2^k offsets, 1/16 grid
        bx, by = 2 ** 20 * r.randint(1, 7), 2 ** 22 * r.choice([-1, 1])
        c = [(x + bx, y + by) for x, y in c]
    lens, _ = seglens_exact(c)
    cum = [Fraction(0)]
    for le in lens:
        cum.append(cum[-1] + le)
    total = cum[-1]
    ss = []  # (s, exact-expected?)
    ss += [(Fraction(0), True), (total, True)]
    for d in cum[1:-1]:
        ss.append((d, True))
    for i, le in enumerate(lens):
        for _ in range(2):
            m = r.choice([1, 2, 3, 4])
            j = r.randint(1, 2 ** m - 1)
            ss.append((cum[i] + le * Fraction(j, 2 ** m), True))
        ss.append((cum[i] + le * Fraction(r.randint(1, 999), 1000), False))
    ss.append((Fraction(r.randint(0, 10 ** 6), 10 ** 6) * total, False))
    ss += [(Fraction(-1, 16), True), (total + Fraction(1, 16), True), (Fraction(-r.randint(1, 100)), True),
           (total * 2 + 1, True)]
    # just outside the admissible interval by one ulp
    tf = float(total)
    ss += [(Fraction(math.nextafter(tf, math.inf)), True), (Fraction(-5e-324), True)]
    r.shuffle(ss)     # failing calls (out of range) are followed by admissible ones on the same lanelet
    sl = [[rat(Fraction(float(s))), bool(e and Fraction(float(s)) == s)] for s, e in ss]
    stypes = []       # scalar type the arc length is passed as
    for sv, _ in sl:
        integral = F(sv).denominator == 1 and abs(F(sv)) < 2 ** 50
        stypes.append(r.choice(["float", "int", "npint", "np64"]) if integral else r.choice(["float", "float", "np64"]))
    return {"kind": "poly", "center": [[rat(x), rat(y)] for x, y in c],
            "right": [[rat(x), rat(y)] for x, y in gen_boundary(r, c, -1)],
            "left": [[rat(x), rat(y)] for x, y in gen_boundary(r, c, +1)],
            "ss": sl, "stypes": stypes, "decor": gen_decor(r),
            "pre": r.sample(["distance", "inner_distance", "polygon", "deepcopy", "pickle", "interp0"], r.randint(0, 3))}


def gen_center_int(r, n):
    """Integer coordinates, at least one segment of NON-integer (irrational) length: diagonal steps that are no Pythagorean triple."""
    while True:
        x, y = r.randint(-50, 50), r.randint(-50, 50)
        pts = [(x, y)]
        for _ in range(n - 1):
            dx, dy = r.choice([(1, 1), (2, 1), (1, -1), (3, 2), (-1, 2), (2, 5), (r.randint(-6, 6), r.randint(-6, 6)), (3, 4), (1, 0)])
            if (dx, dy) == (0, 0):
                dx = 1
            x, y = x + dx, y + dy
            pts.append((x, y))
        if any(math.isqrt((a[0] - b[0]) ** 2 + (a[1] - b[1]) ** 2) ** 2 != (a[0] - b[0]) ** 2 + (a[1] - b[1]) ** 2 for a, b in zip(pts, pts[1:])) \
                and all(a != b for a, b in zip(pts, pts[1:])):
            return [(Fraction(a), Fraction(b)) for a, b in pts]


def gen_polyfloat(ctx):
    r = ctx.rng
    n = r.choice([2, 3, 4, 6])
    if r.random() < 0.4:
        # integer-dtype vertex arrays whose segments have non-integer lengths (value class: int where float is usual)
        c = gen_center_int(r, n)
        w = r.randint(1, 4)
        right = [(x + r.randint(-2, 2), y - w) for x, y in c]
        left = [(x + r.randint(-2, 2), y + w) for x, y in c]
        return {"kind": "polyfloat", "center": [[rat(x), rat(y)] for x, y in c], "right": [[rat(x), rat(y)] for x, y in right],
                "left": [[rat(x), rat(y)] for x, y in left], "fracs": [rat(r.random()) for _ in range(4)],
                "decor": {"int_arrays": True}}
    scale = r.choice([1.0, 1.0, 10.0, 1e3, 1e5, 1e-2])
    c = [(r.uniform(-scale, scale), r.uniform(-scale, scale))]
    for _ in range(n - 1):
        ang = r.uniform(0, 2 * math.pi)
        le = r.uniform(0.05, 1.0) * scale
        c.append((c[-1][0] + le * math.cos(ang), c[-1][1] + le * math.sin(ang)))
    right = [(x + r.uniform(-1, 1) * scale, y - r.uniform(0.1, 1) * scale) for x, y in c]
    left = [(x + r.uniform(-1, 1) * scale, y + r.uniform(0.1, 1) * scale) for x, y in c]
    return {"kind": "polyfloat", "center": [[rat(x), rat(y)] for x, y in c], "right": [[rat(x), rat(y)] for x, y in right],
            "left": [[rat(x), rat(y)] for x, y in left], "fracs": [rat(r.random()) for _ in range(4)]}


def gen_merge(ctx):
    r = ctx.rng
    na, nb = r.choice([2, 2, 3, 4]), r.choice([2, 2, 3, 5])
    intdiag = r.random() < 0.2      # integer-dtype vertex arrays with diagonal (irrational-length) segments
    if intdiag:
        ca, cb0 = gen_center_int(r, na), gen_center_int(r, nb)
        w = r.randint(1, 4)
        gen_b = lambda rr, c, sign: [(x, y + sign * w) for x, y in c]  # noqa: E731
    else:
        ca, cb0 = gen_center(r, na), gen_center(r, nb)
        gen_b = gen_boundary
    la, ra = gen_b(r, ca, +1), gen_b(r, ca, -1)
    joint = r.choice(["exact", "exact", "exact", "tol", "left-only", "open", "open-left"])
    if intdiag:
        joint = r.choice(["exact", "exact", "exact", "left-only", "open"])

    def shift(poly, to):
        dx, dy = to[0] - poly[0][0], to[1] - poly[0][1]
        return [(x + dx, y + dy) for x, y in poly]

    lb0, rb0 = gen_b(r, cb0, +1), gen_b(r, cb0, -1)
    eps = Fraction(1, 2 ** 40)
    if joint == "exact":
        cb, lb, rb = shift(cb0, ca[-1]), shift(lb0, la[-1]), shift(rb0, ra[-1])
    elif joint == "tol":
        cb, lb, rb = shift(cb0, ca[-1]), shift(lb0, (la[-1][0] + eps, la[-1][1] - eps)), shift(rb0, ra[-1])
    elif joint == "left-only":
        cb, lb, rb = shift(cb0, (ca[-1][0] + 1, ca[-1][1])), shift(lb0, la[-1]), shift(rb0, (ra[-1][0], ra[-1][1] - 2))
    elif joint == "open":
        cb = shift(cb0, (ca[-1][0] + 3, ca[-1][1] + 4))
        lb, rb = shift(lb0, (la[-1][0] + 3, la[-1][1] + 4)), shift(rb0, (ra[-1][0] + 3, ra[-1][1] + 4))
    else:  # left differs in one coordinate only, centre and right join
        cb, lb, rb = shift(cb0, ca[-1]), shift(lb0, (la[-1][0], la[-1][1] + Fraction(1, 16))), shift(rb0, ra[-1])
    ida, idb = r.sample([0, 1, 2, 7, 9, 10, 11, 42, 99, 100, 1234, r.randint(0, 10 ** 5)], 2)
    link = r.choice(["succ", "pred", "both", "both", "cycle", "rev-only", "none"])
    other = [i for i in (3, 5, 77) if i not in (ida, idb)]
    a_pred, a_succ, b_pred, b_succ = r.sample(other, r.randint(0, 2)), [], [], r.sample(other, r.randint(0, 2))
    if link in ("succ", "both", "cycle"):
        a_succ = a_succ + [idb]
    if link in ("pred", "both", "cycle"):
        b_pred = b_pred + [ida]
    if link == "cycle":
        b_succ = b_succ + [ida]
        if r.random() < 0.5:
            a_pred = a_pred + [idb]
    if link == "rev-only":   # b -> a only: the code then takes b as predecessor
        b_succ = b_succ + [ida]
    if r.random() < 0.3 and link != "none":
        a_succ = a_succ + r.sample(other, 1)

    def lan(i, p, s, le, ce, ri):
        return {"id": i, "pred": p, "succ": s, "left": [[rat(x), rat(y)] for x, y in le],
                "center": [[rat(x), rat(y)] for x, y in ce], "right": [[rat(x), rat(y)] for x, y in ri]}

    a, b = lan(ida, a_pred, a_succ, la, ca, ra), lan(idb, b_pred, b_succ, lb, cb, rb)
    a["decor"], b["decor"] = gen_decor(r), gen_decor(r)
    if intdiag:
        a["decor"]["int_arrays"] = b["decor"]["int_arrays"] = True
    swapped = r.random() < 0.4
    return {"kind": "merge", "l1": b if swapped else a, "l2": a if swapped else b, "joint": joint, "link": link,
            "retry_link": link == "none" and r.random() < 0.7}


def gen_lengths(r, ids, uniform=None):
    if uniform is not None:
        return {i: Fraction(uniform) for i in ids}
    return {i: Fraction(r.choice([1, 2, 2, 3, 4, 4, 5, 8, 10, 12, r.randint(1, 40)]), 4) for i in ids}


def walk_sums(r, succ, lens, ids, k=6):
    """Accumulated lengths along random walks (so that range limits hit `<` / `<=` boundaries)."""
    out = set()
    for _ in range(k):
        v = r.choice(ids)
        acc = Fraction(0)
        seen = set()
        for _ in range(r.randint(1, 5)):
            nx = [s for s in succ[v] if s not in seen]
            if not nx:
                break
            v = r.choice(nx)
            seen.add(v)
            acc += lens[v]
            out.add(acc)
    return sorted(out)


def net_case(ids, succ, pred, lens, queries, shape, lens_poly=None):
    return {"kind": "net", "shape": shape,
            "nodes": [{"id": i, "succ": list(succ[i]), "pred": list(pred[i]), "len": rat(lens[i])} for i in ids],
            "queries": [{"start": s, "max": rat(m)} for s, m in queries]}


def mirror(ids, succ):
    pred = {i: [] for i in ids}
    for i in ids:
        for s in succ[i]:
            pred[s].append(i)
    return pred


def gen_net(ctx):
    r = ctx.rng
    shape = r.choice(["chain", "cycle", "diamond", "dense", "sparse", "sparse", "random", "two-cycles", "tree"])
    if shape == "dense":
        n = r.randint(2, 6)
    elif shape == "diamond":
        n = r.randint(4, 8)
    else:
        n = r.randint(1, 9)
    ids = r.sample(range(0, 60), n)
    succ = {i: [] for i in ids}

    def add(a, b):
        if a != b and b not in succ[a]:
            succ[a].append(b)

    if shape == "chain":
        for a, b in zip(ids, ids[1:]):
            add(a, b)
    elif shape == "cycle":
        for a, b in zip(ids, ids[1:] + ids[:1]):
            add(a, b)
        for _ in range(r.randint(0, 2)):
            add(r.choice(ids), r.choice(ids))
    elif shape == "diamond":
        # start -> {m1..mk} -> sink (-> tail ...), possibly closing back to the start
        st, sink = ids[0], ids[-1]
        mids = ids[1:-1][:r.randint(2, 3)]
        rest = [i for i in ids[1:-1] if i not in mids]
        for m in mids:
            add(st, m)
            add(m, sink)
        prev = sink
        for t in rest:
            add(prev, t)
            prev = t
        if r.random() < 0.5:
            add(prev, st)
    elif shape == "dense":
        for a in ids:
            for b in ids:
                if r.random() < 0.8:
                    add(a, b)
    elif shape == "two-cycles":
        h = max(1, n // 2)
        for part in (ids[:h], ids[h:]):
            for a, b in zip(part, part[1:] + part[:1]):
                add(a, b)
        add(ids[0], ids[-1])
        add(ids[-1], ids[0])
    elif shape == "tree":
        for k, b in enumerate(ids[1:], 1):
            add(ids[r.randrange(k)], b)
    else:
        deg = 2 if shape == "sparse" else 3
        for a in ids:
            for _ in range(r.randint(0, deg)):
                add(a, r.choice(ids))
    for i in ids:
        r.shuffle(succ[i])
    if r.random() < 0.75:
        pred = mirror(ids, succ)
        for i in ids:
            r.shuffle(pred[i])
        indep = False
    else:
        pred = {i: [] for i in ids}
        for a in ids:
            for _ in range(r.randint(0, 2)):
                b = r.choice(ids)
                if b != a and b not in pred[a]:
                    pred[a].append(b)
        indep = True
    lens = gen_lengths(r, ids, uniform=r.choice([None, None, None, 1, Fraction(5, 2)]))
    sums = walk_sums(r, succ, lens, ids) + walk_sums(r, pred, lens, ids, 3)
    starts = ids if n <= 4 else r.sample(ids, 4)
    queries = []
    for st in starts:
        ms = {Fraction(0), Fraction(2 ** 40), Fraction(50)}
        for s in r.sample(sums, min(len(sums), 4)):
            ms.add(s)
            ms.add(s + r.choice([Fraction(-1, 4), Fraction(1, 4)]))
        for s in succ[st][:2] + pred[st][:1]:
            ms.add(lens[s])     # range == length of a direct successor / predecessor
        if r.random() < 0.3:
            ms.add(Fraction(-1))
        if shape == "dense" and n >= 6:
            ms.discard(Fraction(2 ** 40))
            ms.add(Fraction(r.randint(4, 12)))
        for m in sorted(ms):
            queries.append((st, m))
    dangling = r.random() < 0.08
    if dangling:   # some link targets name no lanelet (find_lanelet_by_id -> None): outside the property, correspondence only
        for _ in range(r.randint(1, 2)):
            r.choice([succ, pred])[r.choice(ids)].append(r.choice([97, 98, 99]))
    if r.random() < 0.1 and n >= 2 and shape != "dense":
        # value class: the same id twice in a successor / predecessor list
        for _ in range(r.randint(1, 2)):
            tbl = r.choice([succ, pred])
            v = r.choice(ids)
            if tbl[v]:
                tbl[v].insert(r.randrange(len(tbl[v]) + 1), r.choice(tbl[v]))
    c = net_case(ids, succ, pred, lens, queries, shape)
    c["pred_independent"] = indep
    c["dangling"] = dangling
    widen_net_case(r, c, ids)
    return c


def widen_net_case(r, c, ids):
    """Dimensions beyond the graph itself: entry point that assembles the network, optional lanelet attributes, read-only queries
    before the observation, scalar type / default / keyword form of max_length, link edits after the first round of queries."""
    for nd in c["nodes"]:
        if r.random() < 0.12:
            nd["diag"] = r.randint(1, 6)
    c["via"] = r.choice(NET_VIAS)
    if c.get("dangling") and c["via"] == "from_list_cleanup" and r.random() < 0.5:
        c["via"] = "from_list"
    for nd in c["nodes"]:
        if r.random() < 0.3:
            nd["decor"] = gen_decor(r, 1.0)
            if c["via"] == "from_network":      # create_from_lanelet_network copies the referenced signs / lights: they would
                for k in ("signs", "lights", "areas"):   # have to exist in the network (dangling references are C10's subject)
                    nd["decor"].pop(k, None)
    c["pre"] = r.sample(NET_PRE, r.choice([0, 0, 1, 2, 3]))
    for q in c["queries"]:
        mx = F(q["max"])
        opts = ["float", "float", "float", "np64", "keyword"]
        if mx.denominator == 1:
            opts += ["int", "npint"]
        if mx == 50:
            opts += ["default", "default"]
        if mx >= 2 ** 39:
            opts += ["inf", "inf"]
        q["type"] = r.choice(opts)
    if r.random() < 0.35 and len(ids) >= 2:
        edits = []
        for _ in range(r.randint(1, 3)):
            a, b = r.sample(ids, 2)
            edits.append([r.choice(LINK_EDITS), a, b])
        c["edits"] = edits


def exhaustive_nets(k):
    """Every labelled digraph without self-successors on nodes 1..k (predecessors mirrored), unit lengths."""
    ids = list(range(1, k + 1))
    pairs = [(a, b) for a in ids for b in ids if a != b]
    for mask in range(2 ** len(pairs)):
        succ = {i: [] for i in ids}
        for j, (a, b) in enumerate(pairs):
            if mask >> j & 1:
                succ[a].append(b)
        yield ids, succ


def exhaustive_case(ids, succ, r):
    pred = mirror(ids, succ)
    lens = gen_lengths(r, ids, uniform=1) if r.random() < 0.7 else gen_lengths(r, ids)
    total = sum(lens.values())
    ms = [Fraction(1), Fraction(2), Fraction(3), total, Fraction(2 ** 40)]
    queries = [(st, m) for st in ids for m in ms]
    c = net_case(ids, succ, pred, lens, queries, "exhaustive")
    c["pred_independent"] = False
    c["via"] = r.choice(NET_VIAS)
    if r.random() < 0.15 and len(ids) >= 2:
        a, b = r.sample(ids, 2)
        c["edits"] = [[r.choice(LINK_EDITS), a, b]]
    return c


# ------------------------------------------------------------------------------------------------ poly: run + oracle

def canon_interp(res):
    """Canonical implementation output of interpolate_position."""
    import numpy as np
    if res[0] == "err":
        return {"err": res[1]}
    c, rr, ll, idx = res[1]
    if any(np.isnan(np.asarray(v, dtype=float)).any() for v in (c, rr, ll)):
        return {"err": "zero-div"}   # numpy 0/0: NaN coordinates, no exception (model: .zeroDiv)
    return {"ok": {"c": [rat(c[0]), rat(c[1])], "r": [rat(rr[0]), rat(rr[1])], "l": [rat(ll[0]), rat(ll[1])], "idx": int(idx)}}


def close_pt(a, b, tol=TOL):
    return all(abs(F(x) - F(y)) <= Fraction(tol) * (1 + abs(F(y))) for x, y in zip(a, b))


def snap_interp(impl, model):
    """Where the implementation divides / multiplies floats the comparison is within 1e-9 relative: an implementation value
    inside that band is replaced by the model value, so that ctx.compare stays an equality test."""
    if "ok" in impl and isinstance(model, dict) and "ok" in model and impl["ok"]["idx"] == model["ok"]["idx"]:
        if all(close_pt(impl["ok"][k], model["ok"][k]) for k in ("c", "r", "l")):
            return model
    return impl


def run_poly(ctx, case):
    import numpy as np
    c, ri, le = case["center"], case["right"], case["left"]
    cF = [(F(x), F(y)) for x, y in c]
    repeated = any(a == b for a, b in zip(cF, cF[1:]))
    ctx.tag("poly")
    if any(u == v for side in (ri, le) for u, v in zip(side, side[1:])):
        ctx.tag("poly/boundary-repeats-vertex")
    if repeated:
        ctx.tag("poly/repeated-vertex")
    ctx.case(case)
    res = call(make_lanelet, le, c, ri, 1, None, None, case.get("decor"))
    if res[0] == "err":
        ctx.fail(f"C20/Lanelet/raises-{res[1]}", f"Lanelet constructor raises for a valid polyline: {res[2]}", case)
        return
    lan = res[1]
    if case.get("decor"):
        ctx.tag("poly/decor")
    if max(abs(v) for pt in cF for v in pt) > 2 ** 19:
        ctx.tag("poly/large-offset")
    # read-only queries / copies BEFORE the observation (lazily computed attributes materialised, caches carried by copies)
    for q in case.get("pre", []):
        ctx.tag("poly/pre-" + q)
        if q == "deepcopy":
            import copy
            lan = copy.deepcopy(lan)
        elif q == "pickle":
            import pickle
            lan = pickle.loads(pickle.dumps(lan))
        elif q == "interp0":
            call(lan.interpolate_position, 0.0)
        elif q == "polygon":
            _ = lan.polygon
        else:
            _ = getattr(lan, q)
    observe_poly(ctx, case, lan)


def observe_poly(ctx, case, lan):
    """Correspondence + oracle of distance / inner_distance / interpolate_position for `lan`, whose primary data are `case`'s."""
    import numpy as np
    c, ri, le = case["center"], case["right"], case["left"]
    cF = [(F(x), F(y)) for x, y in c]
    repeated = any(a == b for a, b in zip(cF, cF[1:]))
    C = pts_to_np(c)
    lens = np_seglens(C)
    lens_r = [rat(v) for v in lens]
    dres = call(lambda: lan.distance)
    if dres[0] == "err":
        ctx.fail(f"C20/distance/raises-{dres[1]}", f"Lanelet.distance raises: {dres[2]}", case)
        return
    d = [float(v) for v in dres[1]]
    grid = seglens_exact(cF)[1]       # Pythagorean grid geometry: numpy's arithmetic is exact; otherwise within 1e-9 relative
    mc = ctx.driver.ask("C20", "cum", {"lens": lens_r})
    dc = [rat(v) for v in d]
    if not grid and len(dc) == len(mc) and close_pt(dc, mc):
        dc = mc
    ctx.compare(case, dc, mc, "Lanelet.distance vs CR.Arc.cumDist")
    # the side condition of the Euclidean theorems (C20_cum_euclid, C20_interp_arclength): the lengths numpy computed are the
    # non-negative roots of the squared vertex distances — exact on the grid, so the model's decidable `isEuclid` must say true
    if grid:
        ctx.compare(case, True, ctx.driver.ask("C20", "euclid", {"center": c, "lens": lens_r}),
                    "numpy segment lengths satisfy CR.Arc.isEuclid (l_i >= 0, l_i^2 = |c_i+1 - c_i|^2)")
    # inner_distance (same helper, two polylines, np.amin)
    ires = call(lambda: lan.inner_distance)
    ll, lr = np_seglens(pts_to_np(le)), np_seglens(pts_to_np(ri))
    mi = ctx.driver.ask("C20", "cum_min", {"lens_left": [rat(v) for v in ll], "lens_right": [rat(v) for v in lr]})
    ii = [rat(float(v)) for v in ires[1]] if ires[0] == "ok" else {"err": ires[1]}
    if isinstance(ii, list) and len(ii) == len(mi) and close_pt(ii, mi):
        ii = mi     # boundary segment lengths are not exact: float cumsum vs rational sum within 1e-9 relative
    if not case.get("skip_inner"):
        ctx.compare(case, ii, mi, "Lanelet.inner_distance vs CR.Arc.cumDistMin")
    ss = case["ss"]
    sfl = [float(F(s)) for s, _ in ss]
    stypes = case.get("stypes") or ["float"] * len(sfl)

    def typed(v, t):
        if t == "int":
            return int(v)
        if t == "npint":
            return np.int64(int(v))
        if t == "np64":
            return np.float64(v)
        return v

    for t in set(stypes):
        ctx.tag("poly/s-type-" + t)
    seen_fail = False
    impl = []
    for sv, t in zip(sfl, stypes):
        im = canon_interp(call(lan.interpolate_position, typed(sv, t)))
        if "ok" in im and seen_fail:
            ctx.tag("poly/query-after-failed-call")
        seen_fail = seen_fail or im.get("err") == "assert"
        impl.append(im)
    model = ctx.driver.ask("C20", "interp", {"center": c, "right": ri, "left": le, "lens": lens_r, "ss": [s for s, _ in ss]})
    impl_c = [im if (ex and grid) else snap_interp(im, mo) for im, mo, (_, ex) in zip(impl, model, ss)]
    for s in sfl:
        if s == 0:
            ctx.tag("poly/s=0")
        elif s == d[-1]:
            ctx.tag("poly/s=length")
        elif s in d:
            ctx.tag("poly/s=vertex")
        elif 0 < s < d[-1]:
            ctx.tag("poly/s=interior")
        else:
            ctx.tag("poly/s=out-of-range")
    ctx.compare(case, impl_c, model, "Lanelet.interpolate_position vs CR.Arc.interpolate")
    if repeated:
        ctx.excluded += 1     # the property quantifies over polylines with distinct consecutive vertices
        return
    oracle_poly(ctx, case, lan, d, sfl, impl)
    alias_pass(ctx, case, lan, [sv for sv in sfl if 0 <= sv <= d[-1]])


def alias_pass(ctx, case, lan, sfl):
    """Results of queries must not alias the lanelet's state: every array interpolate_position returns is modified IN PLACE by the
    caller (as in `pos += lateral_offset`), then the lanelet is observed again — its vertices, its distance, and the answers
    of the same queries.  (The property sentence holds for every query, also the second one on the same lanelet.)"""
    import numpy as np
    names = ("center_vertices", "right_vertices", "left_vertices")
    snap = {k: np.array(getattr(lan, k), dtype=float, copy=True) for k in names}
    dsnap = np.array(lan.distance, dtype=float, copy=True)
    first = [call(lan.interpolate_position, s) for s in sfl]
    vals = [[np.array(a, dtype=float, copy=True) for a in r[1][:3]] + [int(r[1][3])] if r[0] == "ok" else None for r in first]
    touched = False
    for r in first:
        if r[0] != "ok":
            continue
        for a in r[1][:3]:
            if isinstance(a, np.ndarray):
                try:
                    a += 1000.25
                    touched = True
                except (ValueError, TypeError):
                    pass            # a read-only result cannot be modified by the caller: fine
    if not touched:
        return
    ctx.tag("alias/interp-result-modified")
    if any(float(s) in set(dsnap.tolist()) for s, r in zip(sfl, first) if r[0] == "ok"):
        ctx.tag("alias/interp-at-vertex")
    for k in names:
        now = np.array(getattr(lan, k), dtype=float)
        if now.shape != snap[k].shape or not np.array_equal(now, snap[k], equal_nan=True):
            ctx.fail(f"C20/interpolate_position/lanelet-{k}-changed-by-modifying-a-result",
                     f"after the caller modified the arrays interpolate_position returned (in place), {k} of the lanelet changed", case)
            return
    dn = np.array(lan.distance, dtype=float)
    if dn.shape != dsnap.shape or not np.array_equal(dn, dsnap, equal_nan=True):
        ctx.fail("C20/interpolate_position/distance-changed-by-modifying-a-result",
                 "after the caller modified the arrays interpolate_position returned (in place), the lanelet's distance changed", case)
        return
    for s, v in zip(sfl, vals):
        r2 = call(lan.interpolate_position, s)
        if v is None:
            continue
        same = r2[0] == "ok" and int(r2[1][3]) == v[3] and all(
            np.array_equal(np.array(b, dtype=float), a, equal_nan=True) for a, b in zip(v[:3], r2[1][:3]))
        if not same:
            ctx.fail("C20/interpolate_position/answer-changes-after-an-earlier-result-was-modified",
                     f"interpolate_position({s}) answered {[x.tolist() for x in v[:3]]}; after the caller modified earlier results in "
                     f"place the same call answers {[np.array(b).tolist() for b in r2[1][:3]] if r2[0] == 'ok' else r2[1]}", case)
            return


def oracle_poly(ctx, case, lan, d, sfl, impl, extra_tol=None):
    """The property sentence on the real code: cumulative distance starts at 0, is non-decreasing, ends at the centre line's
    length; interpolate_position(s) is the centre point at arc length s (brute-force walk with exact segment lengths) and the
    right / left points at the same segment parameter."""
    c = [(F(x), F(y)) for x, y in case["center"]]
    ri = [(F(x), F(y)) for x, y in case["right"]]
    le = [(F(x), F(y)) for x, y in case["left"]]
    lens, exact = seglens_exact(c)
    cum = [Fraction(0)]
    for v in lens:
        cum.append(cum[-1] + v)
    total = cum[-1]
    sub = {k: case[k] for k in ("kind", "center", "right", "left")}
    sub.update({k: case[k] for k in ("decor", "pre") if k in case})
    stl = case.get("stypes") if len(case.get("stypes") or []) == len(sfl) else None
    scale = 1 + max(abs(v) for p in c + ri + le for v in p)
    tol = Fraction(TOL) * scale
    if len(d) != len(c):
        ctx.fail("C20/distance/wrong-length", f"distance has {len(d)} entries for {len(c)} vertices", sub | {"ss": []})
        return
    if d[0] != 0:
        ctx.fail("C20/distance/does-not-start-at-0", f"distance[0] = {d[0]}", sub | {"ss": []})
    if any(b < a for a, b in zip(d, d[1:])):
        ctx.fail("C20/distance/decreasing", f"distance = {d}", sub | {"ss": []})
    if abs(Fraction(d[-1]) - total) > (0 if exact else tol):
        ctx.fail("C20/distance/last-is-not-centre-length", f"distance[-1] = {d[-1]}, centre line length = {float(total)}",
                 sub | {"ss": []})
    dl = Fraction(d[-1])
    for si, (s, im) in enumerate(zip(sfl, impl)):
        sF = Fraction(s)
        if not (0 <= sF <= total and sF <= dl):
            continue   # the property speaks about 0 <= s <= length only
        one = sub | {"ss": [[rat(sF), False]]} | ({"stypes": [stl[si]]} if stl else {})
        if "err" in im:
            what = "returns NaN coordinates" if im["err"] == "zero-div" else f"raises {im['err']}"
            ctx.fail(f"C20/interpolate_position/{'nan' if im['err'] == 'zero-div' else 'raises-' + im['err']}",
                     f"interpolate_position({s}) {what} although 0 <= s <= length {float(total)}", one)
            continue
        # brute-force walk to the segment containing s
        i = 0
        while i < len(lens) - 1 and cum[i + 1] < sF:
            i += 1
        t = (sF - cum[i]) / lens[i]
        want_c = (c[i][0] + t * (c[i + 1][0] - c[i][0]), c[i][1] + t * (c[i + 1][1] - c[i][1]))
        got = im["ok"]
        if not all(abs(F(g) - w) <= tol for g, w in zip(got["c"], want_c)):
            ctx.fail("C20/interpolate_position/centre-point-not-at-arc-length",
                     f"s={s}: centre {[float(F(g)) for g in got['c']]}, point at arc length s is {[float(w) for w in want_c]}", one)
            continue
        # right / left: the points at the same segment parameter, on a segment that contains s (two candidates at a vertex)
        cands = [k for k in range(len(lens)) if cum[k] - tol <= sF <= cum[k + 1] + tol]
        bad = None
        for k in cands:
            tk = (sF - cum[k]) / lens[k]
            bad_k = None
            for name, poly in (("right", ri), ("left", le)):
                want = (poly[k][0] + tk * (poly[k + 1][0] - poly[k][0]), poly[k][1] + tk * (poly[k + 1][1] - poly[k][1]))
                # conditioning: an error of a few ulp of the total length in s - cum[k] is amplified by |delta| / len_k
                amp = Fraction(64, 2 ** 53) * (total / lens[k]) * max(abs(poly[k + 1][0] - poly[k][0]), abs(poly[k + 1][1] - poly[k][1]))
                tt = tol + (0 if exact else amp)
                if not all(abs(F(g) - w) <= tt for g, w in zip(got[name[0]], want)):
                    bad_k = (name, want)
                    break
            if bad_k is None:
                bad = None
                break
            bad = bad or bad_k
        if bad is not None:
            name, want = bad
            ctx.fail(f"C20/interpolate_position/{name}-point-not-at-same-parameter",
                     f"s={s}: {name} {[float(F(g)) for g in got[name[0]]]}, same segment parameter gives {[float(w) for w in want]}", one)
            continue
        k = got["idx"]
        if not (0 <= k < len(lens)) or k not in cands:
            ctx.fail("C20/interpolate_position/segment-id-does-not-contain-s", f"s={s}: segment id {k}, cumulative {list(map(float, cum))}",
                     one)


def run_polyfloat(ctx, case):
    ctx.tag("polyfloat")
    ctx.case(case)
    res = call(make_lanelet, case["left"], case["center"], case["right"], 1, None, None, case.get("decor"))
    if res[0] == "err":
        ctx.fail(f"C20/Lanelet/raises-{res[1]}", f"Lanelet constructor raises for a valid polyline: {res[2]}", case)
        return
    lan = res[1]
    d = [float(v) for v in lan.distance]
    if lan.center_vertices.dtype.kind in "iu":
        ctx.tag("poly/int-dtype-diagonal")
        # correspondence of the cumulative distance with the model on the float lengths of the same vertices (within 1e-9)
        mc = ctx.driver.ask("C20", "cum", {"lens": [rat(v) for v in np_seglens(pts_to_np(case["center"]))]})
        dc = [rat(v) for v in d]
        ctx.compare(case, mc if len(dc) == len(mc) and close_pt(dc, mc) else dc, mc, "Lanelet.distance (integer dtype vertices) vs CR.Arc.cumDist")
    sfl = [0.0, d[-1]] + d[1:-1]
    for i, f in enumerate(case["fracs"]):
        sfl.append(float(F(f)) * d[-1])
        j = i % (len(d) - 1)
        sfl.append(d[j] + float(F(f)) * (d[j + 1] - d[j]))
    sfl = [s for s in sfl if 0 <= s <= d[-1]]
    impl = [canon_interp(call(lan.interpolate_position, s)) for s in sfl]
    # the exact centre length may be a hair below the float sum: the oracle skips s beyond the exact length
    oracle_poly(ctx, case, lan, d, sfl, impl)
    alias_pass(ctx, case, lan, sfl)


# ------------------------------------------------------------------------------------------------ merge

def lanelet_of(d):
    return make_lanelet(d["left"], d["center"], d["right"], d["id"], d["pred"], d["succ"], d.get("decor"))


def canon_lanelet(m):
    ints = lambda l: None if l is None else [int(v) for v in l]  # noqa: E731
    return {"id": int(m.lanelet_id), "pred": ints(m.predecessor), "succ": ints(m.successor),
            "left": pts_rat(m.left_vertices), "center": pts_rat(m.center_vertices), "right": pts_rat(m.right_vertices)}


def run_merge(ctx, case, objs=None):
    import numpy as np
    from commonroad.scenario.lanelet import Lanelet
    l1, l2 = case["l1"], case["l2"]
    if objs is None:
        ctx.case(case)
        a, b = lanelet_of(l1), lanelet_of(l2)
        if l1.get("decor") or l2.get("decor"):
            ctx.tag("merge/decor")
        if any("static_obs" in l.get("decor", {}) or "dynamic_obs" in l.get("decor", {}) for l in (l1, l2)):
            ctx.tag("merge/obstacle-registries")
    else:
        a, b = objs
    res = call(Lanelet.merge_lanelets, a, b)
    if res[0] == "ok":
        m = res[1]
        impl = {"ok": canon_lanelet(m)}
    else:
        impl = {"err": res[1]}
    strip = lambda l: {k: l[k] for k in ("id", "pred", "succ", "left", "center", "right")}  # noqa: E731
    model = ctx.driver.ask("C20", "merge", {"l1": strip(l1), "l2": strip(l2)})
    ctx.compare(case, impl, model, "Lanelet.merge_lanelets vs CR.Arc.mergeLanelets")
    if res[0] == "ok":
        # the caller modifies the merged lanelet's arrays in place: the two inputs must not change (no shared arrays)
        names = ("left_vertices", "center_vertices", "right_vertices")
        snap = [{k: np.array(getattr(x, k), dtype=float, copy=True) for k in names} for x in (a, b)]
        dsn = [np.array(x.distance, dtype=float, copy=True) for x in (a, b)]
        res2 = call(Lanelet.merge_lanelets, a, b)        # a second result: the first one stays untouched for the oracle below
        if res2[0] == "ok":
            m2 = res2[1]
            for arr in [getattr(m2, k) for k in names] + [m2.distance]:
                try:
                    arr += 1000.25
                except (ValueError, TypeError):
                    pass
            ctx.tag("alias/merge-result-modified")
        for x, sn, dd, nm in zip((a, b), snap, dsn, ("first", "second")):
            if any(not np.array_equal(np.array(getattr(x, k), dtype=float), sn[k]) for k in names) or \
                    not np.array_equal(np.array(x.distance, dtype=float), dd):
                ctx.fail("C20/merge_lanelets/input-changed-by-modifying-the-merged-lanelet",
                         f"after the caller modified the merged lanelet's vertex / distance arrays in place the {nm} argument's "
                         f"vertices or distance changed", {"kind": "merge", "l1": l1, "l2": l2})
                return
        # the same two objects merged a second time (object reuse): same answer
        res2 = call(Lanelet.merge_lanelets, a, b)
        ctx.tag("merge/repeated-call")
        ctx.compare(case, {"ok": canon_lanelet(res2[1])} if res2[0] == "ok" else {"err": res2[1]}, model,
                    "second Lanelet.merge_lanelets call on the same objects vs CR.Arc.mergeLanelets")
    elif case.get("retry_link") and objs is None:
        # a failed merge (unlinked) followed by add_successor on the same objects and a second merge
        ctx.tag("merge/retry-after-failed-call")
        a.add_successor(l2["id"])
        case2 = dict(case, l1=dict(l1, succ=list(l1["succ"]) + [l2["id"]]), retry_link=False)
        run_merge(ctx, case2, (a, b))
    linked = l1["id"] in l2["succ"] or l2["id"] in l1["succ"] or l1["id"] in l2["pred"] or l2["id"] in l1["pred"]
    if not linked:
        ctx.tag("merge/unlinked")
    pred_is_l1 = l1["id"] in l2["pred"] or l2["id"] in l1["succ"]
    p, s = (l1, l2) if pred_is_l1 else (l2, l1)
    if res[0] == "ok" and isinstance(model, dict) and "ok" in model:
        joined = len(model["ok"]["center"]) == len(p["center"]) + len(s["center"]) - 1
        exact_joint = p["center"][-1] == s["center"][0]
        mm = ctx.driver.ask("C20", "cum", {"lens": [rat(v) for v in np_seglens(pts_to_np(model["ok"]["center"]))]})
        md = [rat(float(v)) for v in m.distance]
        if (not exact_joint or not seglens_exact([(F(x), F(y)) for x, y in model["ok"]["center"]])[1]) and len(md) == len(mm) and close_pt(md, mm):
            md = mm   # the bridging segment of an open joint has no exact length: float cumsum vs rational sum within 1e-9 relative
        ctx.compare(case, md, mm, "merged.distance vs cumDist of the merged centre line")
        ctx.tag("merge/joined" if joined else "merge/open")
    # ---- oracle: a lanelet merged with a successor that starts where it ends
    first, second = None, None
    fwd = l2["id"] in l1["succ"] or l1["id"] in l2["pred"]
    bwd = l1["id"] in l2["succ"] or l2["id"] in l1["pred"]
    if fwd and not bwd:
        first, second = l1, l2
    elif bwd and not fwd:
        first, second = l2, l1
        ctx.tag("merge/swapped-args")
    if first is None:
        return
    ends = all(first[k][-1] == second[k][0] for k in ("left", "center", "right"))
    if not ends:
        return
    ctx.tag("merge/joined-exact")
    for side in ("left", "right"):
        for which, lan_ in (("pred", first), ("suc", second)):
            if any(u == v for u, v in zip(lan_[side], lan_[side][1:])):
                ctx.tag(f"merge/{side}-boundary-repeats-vertex")
                ctx.tag(f"merge/{which}-boundary-repeats-vertex")
    sub = {"kind": "merge", "l1": l1, "l2": l2}
    if res[0] == "err":
        ctx.fail(f"C20/merge_lanelets/raises-{res[1]}", f"merge of lanelet {first['id']} with its successor {second['id']} raises {res[2]}", sub)
        return
    for k, arr in (("left", m.left_vertices), ("center", m.center_vertices), ("right", m.right_vertices)):
        want = first[k] + second[k][1:]
        if pts_rat(arr) != [[rat(F(x)), rat(F(y))] for x, y in want]:
            ctx.fail(f"C20/merge_lanelets/{k}-not-concatenation",
                     f"{k} boundary of the merged lanelet has {len(arr)} vertices, concatenation with the joint kept once has {len(want)}"
                     if len(arr) != len(want) else f"{k} boundary of the merged lanelet differs from the concatenation", sub)
            return
    # lengths of the parts: the Euclidean lengths of their centre lines, computed here from the case's coordinates
    la = sum(seglens_exact([(F(x), F(y)) for x, y in first["center"]])[0], Fraction(0))
    lb = sum(seglens_exact([(F(x), F(y)) for x, y in second["center"]])[0], Fraction(0))
    lm = m.distance[-1]
    if a.center_vertices.dtype.kind in "iu" and b.center_vertices.dtype.kind in "iu" and (la + lb).denominator != 1:
        ctx.tag("merge/int-dtype-diagonal")
    if abs(Fraction(float(lm)) - (la + lb)) > Fraction(TOL) * (1 + la + lb):
        ctx.fail("C20/merge_lanelets/length-not-sum", f"merged length {lm}, centre-line lengths of the parts {float(la)} + {float(lb)}", sub)


# ------------------------------------------------------------------------------------------------ routes

class Budget(Exception):
    pass


class _Alarm(Exception):
    pass


def _on_alarm(signum, frame):
    raise _Alarm()


NET_VIAS = ["add_lanelet", "add_lanelet_rtree", "from_list", "from_list_cleanup", "from_network", "add_from_network",
            "scenario_network", "scenario_lanelets"]
NET_PRE = ["lanelets", "lanelet_polygons", "find_by_position", "distances", "polygons", "deepcopy", "find_by_id"]
LINK_EDITS = ["add_successor", "remove_successor", "add_predecessor", "remove_predecessor", "successor_same_object",
              "successor_shuffled_copy", "successor_inplace_append", "predecessor_inplace_remove", "remove_lanelet",
              "add_lanelet_late", "add_existing_successor"]


def build_net(nodes, via="add_lanelet"):
    """Real lanelets (straight, length = len) in a real LaneletNetwork assembled through one of the public entry points."""
    import numpy as np
    from commonroad.scenario.lanelet import LaneletNetwork
    lans = []
    for k, nd in enumerate(nodes):
        le = F(nd["len"])
        y = 4 * k
        if nd.get("diag"):
            # integer-dtype vertices, diagonal centre line of length diag * sqrt(2)
            g = int(nd["diag"])
            c = [(Fraction(0), Fraction(y)), (Fraction(g), Fraction(y + g))]
            lans.append(make_lanelet([(x, yy + 1) for x, yy in c], c, [(x, yy - 1) for x, yy in c], nd["id"], nd["pred"], nd["succ"],
                                     dict(nd.get("decor") or {}, int_arrays=True)))
            continue
        # two segments when the length allows it, so that distance[-1] is a real cumulative sum
        if le.denominator <= 4 and le >= Fraction(1, 2) and k % 2:
            h = le / 2
            c = [(Fraction(0), Fraction(y)), (h, Fraction(y)), (le, Fraction(y))]
        else:
            c = [(Fraction(0), Fraction(y)), (le, Fraction(y))]
        lans.append(make_lanelet([(x, yy + 1) for x, yy in c], c, [(x, yy - 1) for x, yy in c], nd["id"], nd["pred"], nd["succ"],
                                 nd.get("decor")))
    if via in ("add_lanelet", "add_lanelet_rtree"):
        net = LaneletNetwork()
        for la in lans:
            net.add_lanelet(la, rtree=(via == "add_lanelet_rtree"))
    elif via == "from_list":
        net = LaneletNetwork.create_from_lanelet_list(lans, cleanup_ids=False)
    elif via == "from_list_cleanup":
        net = LaneletNetwork.create_from_lanelet_list(lans)     # default cleanup_ids=True drops references to unknown ids
    elif via == "from_network":
        n0 = LaneletNetwork()
        for la in lans:
            n0.add_lanelet(la, rtree=False)
        net = LaneletNetwork.create_from_lanelet_network(n0, cleanup_ids=False)
    elif via == "add_from_network":
        n0 = LaneletNetwork()
        for la in lans:
            n0.add_lanelet(la, rtree=False)
        net = LaneletNetwork()
        net.add_lanelets_from_network(n0)
    elif via == "scenario_network":
        from commonroad.scenario.scenario import Scenario
        n0 = LaneletNetwork()
        for la in lans:
            n0.add_lanelet(la, rtree=False)
        sc = Scenario(0.1)
        sc.add_objects(n0)
        net = sc.lanelet_network
    elif via == "scenario_lanelets":
        from commonroad.scenario.scenario import Scenario
        sc = Scenario(0.1)
        sc.add_objects(lans[:1])
        for la in lans[1:]:
            sc.add_objects(la)
        net = sc.lanelet_network
    else:
        raise RuntimeError(f"C20: unknown network entry point {via}")
    return net


def install_counter(net):
    """Count (and bound) the find_lanelet_by_id calls of this network object: the termination watchdog."""
    orig = net.find_lanelet_by_id
    st = {"calls": 0, "budget": 10 ** 9}

    def counted(lanelet_id):
        st["calls"] += 1
        if st["calls"] > st["budget"]:
            raise Budget()
        return orig(lanelet_id)

    net.find_lanelet_by_id = counted
    st["orig"] = orig
    return st


def read_graph(net):
    """The graph the route functions see NOW: successor / predecessor lists and lengths of the lanelets in the network."""
    out = []
    for la in net.lanelets:
        out.append({"id": int(la.lanelet_id), "succ": [int(v) for v in la.successor], "pred": [int(v) for v in la.predecessor],
                    "len": rat(float(la.distance[-1]))})
    return out


def apply_link_edit(net, lookup, op, a, b):
    """One public mutation of the links after the network was assembled (and queried). a, b: lanelet ids."""
    la = lookup(a)
    if la is None:
        return
    if op == "add_successor":
        la.add_successor(b)
    elif op == "add_existing_successor":
        if la.successor:
            la.add_successor(la.successor[0])       # already present: must not be duplicated
    elif op == "remove_successor":
        if la.successor:
            la.remove_successor(la.successor[b % len(la.successor)])
    elif op == "add_predecessor":
        la.add_predecessor(b)
    elif op == "remove_predecessor":
        if la.predecessor:
            la.remove_predecessor(la.predecessor[b % len(la.predecessor)])
    elif op == "successor_same_object":
        la.successor = la.successor                 # the very same list handed back to the setter
    elif op == "successor_shuffled_copy":
        la.successor = list(reversed(la.successor))
    elif op == "successor_inplace_append":
        if b not in la.successor:
            la.successor.append(b)                  # the list is returned by reference
    elif op == "predecessor_inplace_remove":
        if la.predecessor:
            la.predecessor.pop()
    elif op == "remove_lanelet":
        net.remove_lanelet(a, rtree=bool(b % 2))
    elif op == "add_lanelet_late":
        new_id = 70 + b % 20
        if lookup(new_id) is None:
            c = [(Fraction(0), Fraction(-8)), (Fraction(3, 2), Fraction(-8))]
            net.add_lanelet(make_lanelet([(x, y + 1) for x, y in c], c, [(x, y - 1) for x, y in c], new_id, [a], []), rtree=False)
            la.add_successor(new_id)
    else:
        raise RuntimeError(f"C20: unknown link edit {op}")


def count_simple_paths(nbr, start, cap=400000):
    """Number of duplicate-free link chains that start at a direct neighbour of `start` (brute force, capped)."""
    cnt = 0
    stack = [(s, frozenset([s])) for s in nbr[start]]
    while stack:
        v, seen = stack.pop()
        cnt += 1
        if cnt > cap:
            return cap
        for s in nbr[v]:
            if s not in seen:
                stack.append((s, seen | {s}))
    return cnt


def check_routes(ctx, fname, nbr, lens, start, mx, paths, sub):
    """Graph-path checker for one returned list of paths (property sentence, last clause)."""
    key = f"C20/{fname}"
    direct = nbr[start]
    word = "successor" if "succ" in fname else "predecessor"
    if not isinstance(paths, list):
        ctx.fail(f"{key}/not-a-list", f"returned {type(paths).__name__}", sub)
        return
    for p in paths:
        p = [int(v) for v in p]
        if not p:
            ctx.fail(f"{key}/empty-path", "an empty path is returned", sub)
            return
        if p[0] not in direct:
            ctx.fail(f"{key}/path-does-not-start-at-direct-{word}", f"path {p} starts at {p[0]}, direct {word}s of {start} are {direct}", sub)
            return
        for u, v in zip(p, p[1:]):
            if v not in nbr.get(u, []):
                ctx.fail(f"{key}/not-a-{word}-link", f"path {p}: {v} is not a {word} of {u}", sub)
                return
        if len(set(p)) != len(p):
            ctx.fail(f"{key}/path-has-loop", f"path {p} visits a lanelet twice", sub)
            return
        if start in p:
            ctx.fail(f"{key}/path-revisits-start", f"path {p} contains the start lanelet {start}", sub)
            return
        acc = Fraction(0)
        for j, v in enumerate(p[:-1]):
            acc += lens[v]
            if not acc < mx:
                ctx.fail(f"{key}/extended-at-or-beyond-range",
                         f"path {p} was extended after {p[:j + 1]} although its accumulated length {float(acc)} is not below the range {float(mx)}",
                         sub)
                return
    heads = {int(p[0]) for p in paths}
    miss = [s for s in direct if s not in heads]
    if miss:
        ctx.fail(f"{key}/direct-{word}-not-covered", f"direct {word}s {miss} of {start} head no returned path {paths}", sub)


def typed_range(mx, t):
    """The max_length argument as the scalar type `t` (value class: int / numpy scalars / inf where a float is usual)."""
    import numpy as np
    if t == "int" and mx.denominator == 1:
        return int(mx)
    if t == "np64":
        return np.float64(float(mx))
    if t == "npint" and mx.denominator == 1 and abs(mx) < 2 ** 62:
        return np.int64(int(mx))
    if t == "inf" and mx >= 2 ** 39:
        return math.inf
    return float(mx)


def observe_routes(ctx, case, net, counter, queries, rnd):
    """One round of route queries on the network as it is now: correspondence (model on the graph read back from the real
    objects) and oracle (graph-path checker on the same graph)."""
    nodes = read_graph(net)
    # the lengths the route functions add up are distance[-1] of the lanelets: each must be its centre line's Euclidean length
    for la in net.lanelets:
        cv = [[float(v) for v in p] for p in la.center_vertices]
        want = math.fsum(math.hypot(*(b_ - a_ for a_, b_ in zip(p, q))) for p, q in zip(cv, cv[1:]))
        got = float(la.distance[-1])
        if la.center_vertices.dtype.kind in "iu" and not float(want).is_integer():
            ctx.tag("net/int-dtype-diagonal")
        if abs(got - want) > TOL * (1 + want):
            ctx.fail("C20/distance/last-is-not-centre-length/network-lanelet",
                     f"lanelet {la.lanelet_id} ({la.center_vertices.dtype} vertices {cv}): distance[-1] = {got}, centre line length = {want}",
                     {"kind": "net", "nodes": [dict(nd, succ=[], pred=[]) for nd in case["nodes"] if nd["id"] == la.lanelet_id] or case["nodes"][:1],
                      "queries": [{"start": int(la.lanelet_id), "max": "50/1"}]})
            break
    ids = [nd["id"] for nd in nodes]
    succ = {nd["id"]: list(nd["succ"]) for nd in nodes}
    pred = {nd["id"]: list(nd["pred"]) for nd in nodes}
    lens = {nd["id"]: F(nd["len"]) for nd in nodes}
    queries = [q for q in queries if q["start"] in succ]
    if not queries:
        return
    color = {}

    def cyc(v):
        color[v] = 1
        for s in succ.get(v, []):
            if color.get(s) == 1 or (s not in color and cyc(s)):
                return True
        color[v] = 2
        return False

    if any(v not in color and cyc(v) for v in ids):
        ctx.tag("net/cyclic")
    if any(len(set(v)) != len(v) for v in list(succ.values()) + list(pred.values())):
        ctx.tag("net/duplicate-links")
    dangling = any(t not in succ for nd in nodes for t in nd["succ"] + nd["pred"])
    selfloop = any(i in succ[i] or i in pred[i] for i in ids)
    if dangling:
        ctx.tag("net/dangling-id")
        ctx.excluded += 1
    model = ctx.driver.ask("C20", "routes", {"net": nodes, "queries": [{"start": q["start"], "max": q["max"]} for q in queries]})
    impl = []
    npaths = {}
    old = signal.signal(signal.SIGALRM, _on_alarm)
    try:
        for q in queries:
            st, mx = q["start"], F(q["max"])
            if mx >= 2 ** 39:
                ctx.tag("net/range-huge")
            t = q.get("type", "float")
            if t != "float":
                ctx.tag("net/range-type-" + t)
            start_lan = counter["orig"](st)
            row = []
            for fname, nbr in (("find_lanelet_successors_in_range", succ), ("find_lanelet_predecessors_in_range", pred)):
                kk = (fname, st)
                if kk not in npaths:
                    npaths[kk] = count_simple_paths({k: [t_ for t_ in v if t_ in nbr] for k, v in nbr.items()}, st)
                deg = max([len(v) for v in nbr.values()] + [1])
                counter["calls"] = 0
                # a correct run looks up one successor list and at most `deg` lengths per duplicate-free chain: 3x that is generous
                counter["budget"] = 3 * (npaths[kk] + len(ids) + 1) * (deg + 2) + 50
                sub = {"kind": "net", "nodes": nodes, "queries": [q]}
                signal.setitimer(signal.ITIMER_REAL, 30.0)
                try:
                    if t == "default" and mx == 50:
                        out = getattr(start_lan, fname)(net)                 # max_length left at its default (50.0)
                    elif t == "keyword":
                        out = getattr(start_lan, fname)(lanelet_network=net, max_length=float(mx))
                    else:
                        out = getattr(start_lan, fname)(net, typed_range(mx, t))
                    signal.setitimer(signal.ITIMER_REAL, 0)
                    raw = out
                    out = [[int(v) for v in p] for p in out]
                    row.append({"ok": out})
                    if len(impl) < 2 and isinstance(raw, list):
                        # the caller modifies the returned lists in place; the network and a repeated query must not change
                        for p_ in raw:
                            if isinstance(p_, list):
                                p_.append(10 ** 6)
                                p_.reverse()
                        raw.append([10 ** 6])
                        ctx.tag("alias/routes-result-modified")
                        counter["calls"] = 0
                        again = call(getattr(start_lan, fname), net, float(mx))
                        if read_graph(net) != nodes or again[0] != "ok" or [[int(v) for v in p_] for p_ in again[1]] != out:
                            ctx.fail(f"C20/{fname}/changes-after-the-returned-paths-were-modified",
                                     f"{fname}(start={st}, max_length={float(mx)}) returned {out}; after the caller modified the returned "
                                     f"lists in place the network's links or the answer of the same call changed", sub)
                    if not dangling and not selfloop:
                        check_routes(ctx, fname, nbr, lens, st, mx, out, sub)
                    acc_hit = any(sum((lens[v] for v in p[:j]), Fraction(0)) == mx for p in out for j in range(1, len(p) + 1))
                    if acc_hit:
                        ctx.tag("net/range=path-length")
                except (Budget, _Alarm):
                    signal.setitimer(signal.ITIMER_REAL, 0)
                    row.append({"err": "nontermination"})
                    ctx.fail(f"C20/{fname}/does-not-terminate",
                             f"{fname}(start={st}, max_length={float(mx)}) exceeded {counter['budget']} network lookups "
                             f"(the graph has {npaths[kk]} loop-free chains from the start)", sub)
                except Exception as e:  # noqa
                    signal.setitimer(signal.ITIMER_REAL, 0)
                    from common import err_class
                    row.append({"err": err_class(e)})
                    if dangling and err_class(e) == "attr":
                        continue   # find_lanelet_by_id returned None for a dangling id: outside the property's quantifier
                    ctx.fail(f"C20/{fname}/raises-{err_class(e)}", f"{fname}(start={st}, max_length={float(mx)}) raises {type(e).__name__}: {e}", sub)
            impl.append(row)
    finally:
        signal.setitimer(signal.ITIMER_REAL, 0)
        signal.signal(signal.SIGALRM, old)
    ctx.compare(case, impl, model, f"find_lanelet_{{successors,predecessors}}_in_range vs CR.Route.find{{Successors,Predecessors}}R (round {rnd})")
    return impl


def run_net(ctx, case):
    nodes, queries = case["nodes"], case["queries"]
    ctx.tag("net")
    if case.get("shape") == "exhaustive":
        ctx.tag("net/exhaustive")
    if case.get("shape") == "diamond":
        ctx.tag("net/diamond")
    if case.get("pred_independent"):
        ctx.tag("net/pred-independent")
    ctx.case(case)
    via = case.get("via", "add_lanelet")
    ctx.tag("net/via-" + via)
    if any(nd.get("decor") for nd in nodes):
        ctx.tag("net/decor")
    net = build_net(nodes, via)
    # read-only queries before the observation
    for q in case.get("pre", []):
        ctx.tag("net/pre-" + q)
        if q == "lanelets":
            _ = net.lanelets
        elif q == "lanelet_polygons":
            _ = net.lanelet_polygons
        elif q == "find_by_position":
            import numpy as np
            call(net.find_lanelet_by_position, [np.array([0.25, 0.0]), np.array([-50.0, 3.0])])
        elif q == "distances":
            for la in net.lanelets:
                _ = la.distance, la.inner_distance
        elif q == "polygons":
            for la in net.lanelets:
                _ = la.polygon
        elif q == "find_by_id":
            for nd in nodes:
                net.find_lanelet_by_id(nd["id"])
            net.find_lanelet_by_id(10 ** 6)
        elif q == "deepcopy":
            import copy
            net = copy.deepcopy(net)
    counter = install_counter(net)
    impl = observe_routes(ctx, case, net, counter, queries, 1)
    if "expect_successors" in case and impl is not None:   # witness cases of CRProps/C20.lean (C20_witness_route_*)
        ctx.tag("net/witness")
        ctx.compare(case, [row[0] for row in impl], [{"ok": e} for e in case["expect_successors"]],
                    "find_lanelet_successors_in_range on the witness networks of C20_witness_route_not_maximal / _duplicates")
    edits = case.get("edits", [])
    if edits:
        # public mutations of the links AFTER the first round of queries, then the same queries again
        for op, a, b in edits:
            ctx.tag("net/edit-" + op)
            apply_link_edit(net, counter["orig"], op, a, b)
        observe_routes(ctx, case, net, counter, queries, 2)


# ------------------------------------------------------------------------------------------------ lanelet histories

def gen_lanhist(ctx):
    """A lanelet with a history: read-only queries (caches filled), public setters of the vertices (same object handed back,
    new polylines, a failing assignment), rigid translation, copies — then the observation."""
    r = ctx.rng

    def polys(n):
        c = gen_center(r, n)
        return {"center": [[rat(x), rat(y)] for x, y in c], "right": [[rat(x), rat(y)] for x, y in gen_boundary(r, c, -1)],
                "left": [[rat(x), rat(y)] for x, y in gen_boundary(r, c, +1)]}

    n = r.choice([2, 3, 3, 4, 6])
    case = {"kind": "lanhist", **polys(n), "decor": gen_decor(r)}
    ops = []
    if r.random() < 0.3:
        ops.append(["inplace_before_query", r.randrange(n), r.randint(1, 8)])   # c[i] += (k, 0) in place, before anything is cached
    for _ in range(r.randint(2, 7)):
        k = r.choice(["q", "q", "interp", "set_center", "set_all", "set_center_same", "set_invalid", "translate", "deepcopy",
                      "pickle", "set_distance_same"])
        if k == "q":
            ops.append(["q", r.choice(["distance", "distance", "inner_distance", "polygon"])])
        elif k == "interp":
            ops.append(["interp", rat(Fraction(r.randint(0, 8), 8))])
        elif k == "set_center":
            ops.append(["set_center", polys(n)["center"]])
        elif k == "set_all":
            n = r.choice([2, 3, 4, 5])
            ops.append(["set_all", polys(n), r.sample(["center", "left", "right"], 3)])
        elif k == "set_invalid":
            ops.append(["set_invalid", r.choice(["center", "left", "right"])])
        elif k == "translate":
            ops.append(["translate", r.randint(-64, 64), r.randint(-64, 64)])
        else:
            ops.append([k])
    case["ops"] = ops
    return case


def run_lanhist(ctx, case):
    import copy
    import pickle
    import numpy as np
    from commonroad.scenario.lanelet import Lanelet
    ctx.tag("lanhist")
    ctx.case(case)
    cur = {k: [(F(x), F(y)) for x, y in case[k]] for k in ("center", "right", "left")}
    res = call(make_lanelet, case["left"], case["center"], case["right"], 1, None, None, case.get("decor"))
    if res[0] == "err":
        ctx.fail(f"C20/Lanelet/raises-{res[1]}", f"Lanelet constructor raises for a valid polyline: {res[2]}", case)
        return
    lan = res[1]
    cached = False          # has the cumulative distance been materialised?
    last_mut = None         # last mutation since it was
    hist = []

    def as_case():
        return {k: [[rat(x), rat(y)] for x, y in cur[k]] for k in ("center", "right", "left")}

    def stale_check(where):
        """`distance` must be what a lanelet freshly constructed from the current vertices reports."""
        nonlocal cached, last_mut
        fresh = Lanelet(pts_to_np(as_case()["left"]), pts_to_np(as_case()["center"]), pts_to_np(as_case()["right"]), 1)
        got = call(lambda: lan.distance)
        want = fresh.distance
        ok = got[0] == "ok" and len(got[1]) == len(want) and all(
            abs(float(a) - float(b)) <= 1e-9 * (1 + abs(float(b))) for a, b in zip(got[1], want))
        if not ok:
            mut = last_mut or "construction"
            ctx.fail(f"C20/lanelet-history/distance-stale-after/{mut}",
                     f"after {hist}: distance = {[float(v) for v in got[1]] if got[0] == 'ok' else got[1]}, a lanelet with the "
                     f"current centre line has {[float(v) for v in want]} ({where})", case)
            return False
        cached, last_mut = True, None
        return True

    def step(op):
        nonlocal lan, last_mut
        k = op[0]
        if k == "inplace_before_query":
            i, dx = op[1] % len(cur["center"]), op[2]
            x, y = cur["center"][i]
            nb = [p for j, p in enumerate(cur["center"]) if abs(j - i) == 1]
            if (x + dx, y) in nb:
                return True                   # would repeat a vertex
            if lan.center_vertices.dtype.kind != "f":
                return True
            lan.center_vertices[i, 0] += float(dx)
            cur["center"][i] = (x + dx, y)
        elif k == "q":
            if op[1] == "distance":
                if not stale_check("query"):
                    return False
            elif op[1] == "inner_distance":
                _ = lan.inner_distance
            else:
                _ = lan.polygon
        elif k == "interp":
            if not stale_check("before interpolate_position"):
                return False
            call(lan.interpolate_position, float(F(op[1])) * float(lan.distance[-1]))
        elif k == "set_center":
            if len(op[1]) != len(cur["center"]):
                return True
            lan.center_vertices = pts_to_np(op[1])
            cur["center"] = [(F(x), F(y)) for x, y in op[1]]
            last_mut = "center_vertices-setter"
            if cached:
                ctx.tag("lanhist/setter-after-query")
        elif k == "set_all":
            for which in op[2]:
                setattr(lan, which + "_vertices", pts_to_np(op[1][which]))
                cur[which] = [(F(x), F(y)) for x, y in op[1][which]]
            last_mut = "vertices-setters"
            if cached:
                ctx.tag("lanhist/setter-after-query")
        elif k == "set_center_same":
            lan.center_vertices = lan.center_vertices
            last_mut = last_mut or "same-object-setter"
        elif k == "set_distance_same":
            if cached:
                lan.distance = lan.distance
        elif k == "set_invalid":
            bad = call(setattr, lan, op[1] + "_vertices", np.array([[0.0, 0.0]]))    # one point: not a polyline
            if bad[0] != "err":
                ctx.excluded += 1     # the setter accepted it: nothing to say
                return False
            ctx.tag("lanhist/failed-setter")
            last_mut = last_mut or "failed-setter"
        elif k == "translate":
            tx, ty = op[1], op[2]
            lan.translate_rotate(np.array([float(tx), float(ty)]), 0.0)
            for which in cur:
                cur[which] = [(x + tx, y + ty) for x, y in cur[which]]
            last_mut = last_mut or "translate_rotate"
        elif k == "deepcopy":
            lan = copy.deepcopy(lan)
        elif k == "pickle":
            lan = pickle.loads(pickle.dumps(lan))
        else:
            raise RuntimeError(f"C20: unknown history op {k}")
        return True

    for op in case["ops"]:
        k = op[0]
        hist.append(k if k != "q" else "q:" + op[1])
        ctx.tag("lanhist/" + (k if k != "q" else "q-" + op[1]))
        try:
            go = step(op)
        except RuntimeError:
            raise
        except Exception as e:  # noqa
            from common import err_class
            ctx.fail(f"C20/lanelet-history/{k}/raises-{err_class(e)}", f"after {hist}: {type(e).__name__}: {str(e)[:160]}", case)
            return
        if not go:
            return
    if not stale_check("final observation"):
        return
    # full observation (correspondence + oracle) on the final state
    cF = cur["center"]
    if any(a == b for a, b in zip(cF, cF[1:])):
        return
    lens, _ = seglens_exact(cF)
    cum = [Fraction(0)]
    for v in lens:
        cum.append(cum[-1] + v)
    ss = [cum[0], cum[-1]] + cum[1:-1] + [cum[i] + lens[i] / 2 for i in range(len(lens))] + [cum[-1] + Fraction(1, 16)]
    if not seglens_exact(cF)[1]:
        # an in-place vertex edit left the Pythagorean grid: lengths are rounded, so arc lengths exactly at a vertex / the end are
        # ambiguous between float cumsum and rational sum; observe interior points, 0 and a clearly inadmissible value
        ss = [cum[0]] + [cum[i] + lens[i] / 2 for i in range(len(lens))] + [cum[-1] + Fraction(1, 16)]
    final = as_case()
    final["kind"] = "poly"
    final["ss"] = [[rat(Fraction(float(v))), bool(Fraction(float(v)) == v)] for v in ss] + [[rat(Fraction(float(cum[-1] / 3))), False]]
    # inner_distance (cached like distance, reset by no setter) is not part of the property: compared only when it is current
    fresh_inner = Lanelet(pts_to_np(final["left"]), pts_to_np(final["center"]), pts_to_np(final["right"]), 1).inner_distance
    gi = call(lambda: lan.inner_distance)
    if gi[0] != "ok" or len(gi[1]) != len(fresh_inner) or not np.allclose(gi[1], fresh_inner, rtol=1e-9, atol=1e-9):
        final["skip_inner"] = True
        ctx.excluded += 1
    if any(u == v for side in (final["right"], final["left"]) for u, v in zip(side, side[1:])):
        ctx.tag("poly/boundary-repeats-vertex")
    observe_poly(ctx, final, lan)


# ------------------------------------------------------------------------------------------------ merged routes (entry points)

def gen_mergechain(ctx):
    """A geometrically consistent network (every lanelet starts where its predecessor ends: out-tree, or a square ring with
    tails) for all_lanelets_by_merging_successors_from_lanelet / all_lanelets_by_merging_predecessors_from_lanelet."""
    r = ctx.rng
    w = Fraction(r.randint(1, 6), 2)
    shape = r.choice(["tree", "tree", "ring"])
    lanelets = {}
    ids = r.sample(range(0, 40), r.randint(1, 6) if shape == "tree" else r.randint(4, 6))

    def mk(i, start, n=None, steps=None):
        x, y = start
        pts = [(x, y)]
        for a, b in (steps or []):
            x, y = x + a, y + b
            pts.append((x, y))
        if steps is None:
            for _ in range((n or r.choice([2, 2, 3, 4])) - 1):
                a, b, _l = r.choice(DIRS)
                k = Fraction(r.choice([2, 4, 8, 16, 24]), 8)
                x, y = x + a * k, y + r.choice([-1, 1]) * b * k     # x never decreases: no vertex is repeated
                pts.append((x, y))
        left = [(px, py + w) for px, py in pts]
        right = [(px, py - w) for px, py in pts]
        if len(pts) >= 4 and r.random() < 0.3:
            j = r.randrange(1, len(pts) - 2)
            left[j + 1] = left[j]           # pivot of the left boundary inside the lanelet
        lanelets[i] = {"id": i, "pred": [], "succ": [], "left": left, "center": pts, "right": right}

    if shape == "tree":
        mk(ids[0], (Fraction(r.randint(-8, 8)), Fraction(r.randint(-8, 8))))
        for k, i in enumerate(ids[1:], 1):
            parent = ids[r.randrange(k)]
            mk(i, lanelets[parent]["center"][-1])
            lanelets[parent]["succ"].append(i)
            lanelets[i]["pred"].append(parent)
    else:
        side = Fraction(r.choice([2, 3, 4, 6]))
        z = Fraction(0)
        corners = [(z, z), (side, z), (side, side), (z, side)]
        for k in range(4):
            (x0, y0), (x1, y1) = corners[k], corners[(k + 1) % 4]
            mk(ids[k], (Fraction(x0), Fraction(y0)), steps=[((x1 - x0) / 2, (y1 - y0) / 2)] * 2)
            # boundaries of a ring must meet at the corners as well: use the centre line itself shifted by a constant vector
            lanelets[ids[k]]["left"] = [(px - w, py + w) for px, py in lanelets[ids[k]]["center"]]
            lanelets[ids[k]]["right"] = [(px + w, py - w) for px, py in lanelets[ids[k]]["center"]]
        for k in range(4):
            a, b = ids[k], ids[(k + 1) % 4]
            lanelets[a]["succ"].append(b)
            lanelets[b]["pred"].append(a)
        for i in ids[4:]:
            parent = r.choice(ids[:4])
            mk(i, lanelets[parent]["center"][-1])
            lanelets[i]["left"] = [(px - w, py + w) for px, py in lanelets[i]["center"]]
            lanelets[i]["right"] = [(px + w, py - w) for px, py in lanelets[i]["center"]]
            lanelets[parent]["succ"].append(i)
            lanelets[i]["pred"].append(parent)
    out = []
    for i in ids:
        d = lanelets[i]
        r.shuffle(d["succ"])
        out.append({"id": i, "pred": d["pred"], "succ": d["succ"], "decor": gen_decor(r, 0.4),
                    **{k: [[rat(x), rat(y)] for x, y in d[k]] for k in ("left", "center", "right")}})
        out[-1]["decor"].pop("reid", None)
    total = sum((sum(seglens_exact(lanelets[i]["center"])[0], Fraction(0)) for i in ids), Fraction(0))
    queries = []
    for st in r.sample(ids, min(len(ids), 3)):
        for mx in r.sample([Fraction(150), Fraction(2 ** 40), Fraction(0), Fraction(r.randint(1, 40), 2), total], 2):
            queries.append({"start": st, "max": rat(mx), "type": "default" if mx == 150 and r.random() < 0.6 else "float"})
    return {"kind": "mergechain", "shape": shape, "lanelets": out, "queries": queries, "via": r.choice(NET_VIAS[:4])}


def run_mergechain(ctx, case):
    from commonroad.scenario.lanelet import Lanelet, LaneletNetwork
    ctx.tag("mergechain")
    ctx.tag("mergechain/" + case["shape"])
    ctx.case(case)
    lds = {d["id"]: d for d in case["lanelets"]}
    strip = lambda l: {k: l[k] for k in ("id", "pred", "succ", "left", "center", "right")}  # noqa: E731
    lans = [lanelet_of(d) for d in case["lanelets"]]
    via = case.get("via", "add_lanelet")
    if via in ("add_lanelet", "add_lanelet_rtree"):
        net = LaneletNetwork()
        for la in lans:
            net.add_lanelet(la, rtree=(via == "add_lanelet_rtree"))
    else:
        net = LaneletNetwork.create_from_lanelet_list(lans, cleanup_ids=(via == "from_list_cleanup"))
    nodes = read_graph(net)
    for nd in nodes:      # the link lists as the network holds them now (cleanup_ids re-orders them)
        lds[nd["id"]] = dict(lds[nd["id"]], succ=nd["succ"], pred=nd["pred"])
    partlen = {d["id"]: float(net.find_lanelet_by_id(d["id"]).distance[-1]) for d in case["lanelets"]}
    watchdog = install_counter(net)
    for q in case["queries"]:
        st, mx = q["start"], F(q["max"])
        start_lan = net.find_lanelet_by_id(st)
        routes = ctx.driver.ask("C20", "routes", {"net": nodes, "queries": [{"start": st, "max": q["max"]}]})[0]
        for which, fn, rt in (("successors", Lanelet.all_lanelets_by_merging_successors_from_lanelet, routes[0]),
                              ("predecessors", Lanelet.all_lanelets_by_merging_predecessors_from_lanelet, routes[1])):
            sub = {"kind": "mergechain", "shape": case["shape"], "lanelets": case["lanelets"], "queries": [q], "via": via}
            key = f"C20/all_lanelets_by_merging_{which}_from_lanelet"
            # termination watchdog (as in observe_routes): a correct run looks up one link list and at most `deg` lengths per chain
            # element of the model's answer, plus one lookup per element for the merge jobs; 5x that (+ slack) is generous
            chain_elems = sum(len(p_) + 1 for p_ in rt["ok"]) if isinstance(rt, dict) and "ok" in rt else len(nodes) ** 2
            deg = max([len(nd["succ"]) + len(nd["pred"]) for nd in nodes] + [1])
            watchdog["calls"] = 0
            watchdog["budget"] = 5 * (chain_elems + len(nodes) + 1) * (deg + 2) + 200
            old_handler = signal.signal(signal.SIGALRM, _on_alarm)
            signal.setitimer(signal.ITIMER_REAL, 30.0)
            try:
                if q.get("type") == "default" and mx == 150:
                    ctx.tag("mergechain/range-default-arg")
                    res = ("ok", fn(start_lan, net))
                else:
                    res = ("ok", fn(start_lan, net, float(mx)))
            except (Budget, _Alarm):
                res = ("nontermination",)
            except Exception as e:  # noqa  (same convention as common.call)
                from common import err_class
                res = ("err", err_class(e), f"{type(e).__name__}: {e}")
            finally:
                signal.setitimer(signal.ITIMER_REAL, 0)
                signal.signal(signal.SIGALRM, old_handler)
                watchdog["budget"] = 10 ** 9
            if res[0] == "nontermination":
                ctx.fail(f"{key}/does-not-terminate",
                         f"start {st}, max_length {float(mx)}: more than {5 * (chain_elems + len(nodes) + 1) * (deg + 2) + 200} network "
                         f"lookups (the model's answer has {chain_elems} chain elements) or 30 s", sub)
                continue
            nbrs = lds[st]["succ"] if which == "successors" else lds[st]["pred"]
            want_jobs = [[st] + p for p in rt["ok"]] if nbrs else [[st]]
            if res[0] == "err":
                # merge_lanelets identifies lanelets by id and names the merged lanelet int(str(id1) + str(id2)): when that number
                # is the id of another lanelet of the job the links are misread.  The model predicts exactly this; the property
                # sentence (two lanelets in successor relation) does not cover it: compared, not judged.
                mods = [ctx.driver.ask("C20", "merge_chain", {"lanelets": [strip(lds[i]) for i in job]}) for job in want_jobs]
                if any(isinstance(mo, dict) and mo.get("err") == res[1] for mo in mods):
                    ctx.tag("mergechain/merged-id-collides")
                    ctx.excluded += 1
                    ctx.compare(case, {"err": res[1]}, {"err": res[1]}, f"all_lanelets_by_merging_{which}_from_lanelet raises as CR.Arc.mergeChain predicts")
                else:
                    ctx.fail(f"{key}/raises-{res[1]}", f"start {st}, max_length {float(mx)}: {res[2]}", sub)
                continue
            merged, jobs = res[1]
            jobs = [[int(v) for v in j] for j in jobs]
            ctx.compare(case, jobs, want_jobs, f"merge jobs of all_lanelets_by_merging_{which}_from_lanelet vs [start] + model routes")
            if len(merged) != len(jobs):
                ctx.fail(f"{key}/merged-count", f"{len(merged)} merged lanelets for {len(jobs)} merge jobs", sub)
                continue
            canon_parts = {i: canon_lanelet(net.find_lanelet_by_id(i)) for i in lds}
            for m, job in zip(merged, jobs):
                if len(job) >= 3:
                    ctx.tag("mergechain/chain>=3")
                model = ctx.driver.ask("C20", "merge_chain", {"lanelets": [strip(lds[i]) for i in job]})
                ctx.compare(case, {"ok": canon_lanelet(m)}, model, f"merged lanelet of job {job} vs CR.Arc.mergeChain")
                # oracle: boundaries are the concatenation of the parts in travel direction, every joint kept once; length = sum
                order = job if which == "successors" else list(reversed(job))
                mids, acc, collide = set(lds), lds[job[0]]["id"], False
                for i in job[1:-1]:
                    acc = int(str(acc) + str(i)) if which == "successors" else int(str(i) + str(acc))
                    collide = collide or acc in mids or any(acc in lds[j]["succ"] + lds[j]["pred"] for j in lds)
                if collide:
                    ctx.tag("mergechain/merged-id-collides")
                    ctx.excluded += 1      # see above: an intermediate merged id equals the id of a real lanelet
                    continue
                if which == "predecessors" and any(x in lds[st]["succ"] for x in job[1:]):
                    ctx.excluded += 1   # a predecessor that is also a successor of the start (closed ring): merge_lanelets
                    continue            # appends it behind the start; which end it belongs to is not fixed by the property
                if any(lds[a][k][-1] != lds[b][k][0] for a, b in zip(order, order[1:]) for k in ("left", "center", "right")):
                    continue      # (not generated) a part that does not start where the previous one ends
                for k, arr in (("left", m.left_vertices), ("center", m.center_vertices), ("right", m.right_vertices)):
                    want = list(lds[order[0]][k])
                    for i in order[1:]:
                        want += lds[i][k][1:]
                    if pts_rat(arr) != [[rat(F(x)), rat(F(y))] for x, y in want]:
                        ctx.fail(f"{key}/{k}-not-concatenation",
                                 f"job {job}: {k} boundary has {len(arr)} vertices, the concatenation of the parts (joints once) has {len(want)}"
                                 if len(arr) != len(want) else f"job {job}: {k} boundary differs from the concatenation of the parts", sub)
                        break
                else:
                    lm, ls = float(m.distance[-1]), sum(partlen[i] for i in job)
                    if abs(lm - ls) > TOL * (1 + abs(ls)):
                        ctx.fail(f"{key}/length-not-sum", f"job {job}: merged length {lm}, parts sum to {ls}", sub)
            # the caller modifies the merged route lanelets' arrays in place: the lanelets of the network must not change
            import numpy as np
            hit = False
            for m, job in zip(merged, jobs):
                if len(job) < 2:
                    continue        # no successor: the start lanelet itself is returned (by design the same object)
                _ = m.distance
                for arr in (m.left_vertices, m.center_vertices, m.right_vertices, m.distance):
                    try:
                        arr += 1000.25
                        hit = True
                    except (ValueError, TypeError):
                        pass
            if hit:
                ctx.tag("alias/mergechain-result-modified")
                if {i: canon_lanelet(net.find_lanelet_by_id(i)) for i in lds} != canon_parts:
                    ctx.fail(f"{key}/network-lanelet-changed-by-modifying-a-merged-lanelet",
                             f"start {st}: after the caller modified the merged lanelets' arrays in place a lanelet of the network changed", sub)


# ------------------------------------------------------------------------------------------------ entry points

QUADS = [(1, 2, 2, 3), (2, 3, 6, 7), (4, 4, 7, 9), (1, 4, 8, 9), (2, 6, 9, 11), (6, 6, 7, 11), (3, 4, 12, 13), (3, 4, 0, 5), (0, 0, 1, 1)]


def gen_poly3(ctx):
    """A lanelet with 3-D vertices (x, y, z) whose segments are scaled Pythagorean quadruples: exact 3-D segment lengths."""
    r = ctx.rng
    n = r.randint(2, 6)
    x, y, z = (Fraction(r.randint(-64, 64), 4) for _ in range(3))
    pts, lens = [[x, y, z]], []
    for _ in range(n - 1):
        a, b, c, d = r.choice(QUADS)
        k = Fraction(r.choice([1, 2, 4, 8, 16, 24]), 8)
        x, y, z = x + r.choice([-1, 1]) * a * k, y + r.choice([-1, 1]) * b * k, z + r.choice([-1, 1]) * c * k
        pts.append([x, y, z])
        lens.append(d * k)
    return {"kind": "poly3", "center": [[rat(v) for v in p] for p in pts], "lens": [rat(v) for v in lens]}


def run_poly3(ctx, case):
    """3-D centre line: cumulative distance = arc length in 3-D; interpolate_position at the vertices' arc lengths returns the vertices."""
    import numpy as np
    from commonroad.scenario.lanelet import Lanelet
    ctx.tag("poly3d")
    ctx.case(case)
    c = [[F(v) for v in p] for p in case["center"]]
    lens = [F(v) for v in case["lens"]]
    C = np.array([[float(v) for v in p] for p in c])
    off = np.array([0.0, 2.0, 0.0])
    res = call(lambda: Lanelet(C + off, C, C - off, 1))
    if res[0] == "err":
        ctx.fail(f"C20/Lanelet/raises-{res[1]}/3d", f"Lanelet constructor raises for a valid 3-D polyline: {res[2]}", case)
        return
    lan = res[1]
    d = [float(v) for v in lan.distance]
    ctx.compare(case, [rat(v) for v in d], ctx.driver.ask("C20", "cum", {"lens": case["lens"]}), "Lanelet.distance (3-D) vs CR.Arc.cumDist")
    cum = [Fraction(0)]
    for v in lens:
        cum.append(cum[-1] + v)
    if len(d) != len(cum) or any(abs(F(rat(a)) - b) > Fraction(1, 10 ** 9) * max(1, b) for a, b in zip(d, cum)):
        ctx.fail("C20/distance/not-arc-length/3d", f"3-D centre line {C.tolist()}: distance = {d}, arc lengths = {[float(v) for v in cum]}", case)
        return
    for i, s in enumerate(cum):
        r = call(lan.interpolate_position, float(s))
        if r[0] == "err":
            ctx.fail(f"C20/interpolate_position/raises-{r[1]}/3d", f"s={float(s)} (vertex {i}): {r[2]}", case)
            return
        cen = [float(v) for v in r[1][0]]
        if any(abs(a - float(b)) > 1e-9 * max(1.0, abs(float(b))) for a, b in zip(cen, c[i])):
            ctx.fail("C20/interpolate_position/centre-not-at-arc-length/3d", f"s={float(s)} is vertex {i} = {[float(v) for v in c[i]]}, got {cen}", case)
            return
    # the same lanelet flattened to 2-D (after the 3-D queries above): arc length is now measured in the plane
    import math
    r2 = call(lan.convert_to_2d)
    if r2[0] == "err":
        ctx.fail(f"C20/convert_to_2d/raises-{r2[1]}", r2[2], case)
        return
    ctx.tag("poly3d/flattened")
    pts2 = [(float(p[0]), float(p[1])) for p in c]
    if any(a == b for a, b in zip(pts2, pts2[1:])):
        return          # a purely vertical segment collapses: no longer a polyline with distinct consecutive vertices
    cum2 = [0.0]
    for (x0, y0), (x1, y1) in zip(pts2, pts2[1:]):
        cum2.append(cum2[-1] + math.hypot(x1 - x0, y1 - y0))
    d2 = [float(v) for v in lan.distance]
    if len(d2) != len(cum2) or any(abs(a - b) > 1e-9 * max(1.0, b) for a, b in zip(d2, cum2)):
        ctx.fail("C20/distance/not-arc-length/after-convert_to_2d", f"flattened centre line {pts2}: distance = {d2}, planar arc lengths = {cum2}", case)
        return
    for i, s in enumerate(cum2):
        r = call(lan.interpolate_position, min(s, d2[-1]))
        if r[0] == "err":
            ctx.fail(f"C20/interpolate_position/raises-{r[1]}/after-convert_to_2d", f"s={s} (vertex {i}): {r[2]}", case)
            return
        cen = [float(v) for v in r[1][0]][:2]
        if any(abs(a - b) > 1e-7 * max(1.0, abs(b)) for a, b in zip(cen, pts2[i])):
            ctx.fail("C20/interpolate_position/centre-not-at-arc-length/after-convert_to_2d",
                     f"after convert_to_2d s={s} is vertex {i} = {pts2[i]}, got {cen}", case)
            return


def run_case(ctx, case):
    k = case.get("kind")
    if k == "lanhist":
        run_lanhist(ctx, case)
    elif k == "mergechain":
        run_mergechain(ctx, case)
    elif k == "poly3":
        run_poly3(ctx, case)
    elif k == "poly":
        run_poly(ctx, case)
    elif k == "polyfloat":
        run_polyfloat(ctx, case)
    elif k == "merge":
        run_merge(ctx, case)
    elif k == "net":
        run_net(ctx, case)
    else:
        raise RuntimeError(f"C20: unknown case kind {k}")


def run(ctx):
    check_dimensions()
    for p in sorted(glob.glob(os.path.join(CORPUS_DIR, "C20", "*.json"))):
        run_case(ctx, json.load(open(p)))
    for i in range(ctx.n(1000)):
        run_case(ctx, gen_poly(ctx, repeated=(i % 10 == 9)))
    for _ in range(ctx.n(150)):
        run_case(ctx, gen_polyfloat(ctx))
    for _ in range(ctx.n(120)):
        run_case(ctx, gen_poly3(ctx))
    for _ in range(ctx.n(300)):
        run_case(ctx, gen_merge(ctx))
    for _ in range(ctx.n(300)):
        run_case(ctx, gen_lanhist(ctx))
    for _ in range(ctx.n(150)):
        run_case(ctx, gen_mergechain(ctx))
    # exhaustive small graphs: <= 3 nodes in quick, <= 4 nodes in thorough (split over the workers)
    kmax = 4 if ctx.tier == "thorough" else 3
    j = 0
    for k in range(1, kmax + 1):
        for ids, succ in exhaustive_nets(k):
            j += 1
            if j % ctx.workers == ctx.worker:
                run_case(ctx, exhaustive_case(ids, succ, ctx.rng))
    if ctx.tier == "quick":
        allk4 = list(itertools.islice(exhaustive_nets(4), 4096))
        for ids, succ in ctx.rng.sample(allk4, 150):
            run_case(ctx, exhaustive_case(ids, succ, ctx.rng))
    for _ in range(ctx.n(1000)):
        run_case(ctx, gen_net(ctx))


search = run


def replay(ctx, case):
    run_case(ctx, case)


def shrink(case, key):
    return case
