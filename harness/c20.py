"""C20 — lanelet arc-length geometry (distance / interpolate_position / merge_lanelets) and successor / predecessor
route enumeration (find_lanelet_successors_in_range / find_lanelet_predecessors_in_range).
models: lean/CRModel/ArcLen.lean, lean/CRModel/Route.lean; theorems: lean/CRProps/C20.lean."""
from __future__ import annotations

import glob
import itertools
import json
import math
import os
import signal
from decimal import Decimal, getcontext
from fractions import Fraction

from common import CORPUS_DIR, call, rat, unrat

RULE = ("four case kinds. poly: centre polylines of 2..8 vertices whose steps are Pythagorean directions scaled by k/16 (segment lengths "
        "and all numpy arithmetic exact), arbitrary grid right/left boundaries (30% of them repeat a vertex two or three times in a row: pivot of a sharp corner), arc lengths 0, full length, every vertex, dyadic "
        "fractions of every segment, random interior, out of range; plus polylines with a repeated vertex (NaN branch, correspondence "
        "only). polyfloat: arbitrary double coordinates (oracle with conditioning-aware tolerance only). merge: two lanelets linked "
        "via successor and/or predecessor lists in either argument order, joint exact / within isclose tolerance / left-only / open, "
        "also unlinked. net: directed graphs without self-successors (chain, cycle, diamond, dense, sparse random up to 9 lanelets; "
        "all labelled digraphs on <= 3 nodes in quick and <= 4 nodes in thorough, exhaustively), predecessor lists mirrored or "
        "independent, lanelet lengths k/4, range limits 0, negative, exactly at / just below / just above accumulated path lengths, "
        "default 50, 2^40. distinct = distinct canonical JSON of the case; non-trivial = every case")
ASSUMPTIONS = [
    "numpy diff/square/sum/sqrt/cumsum/searchsorted denote their list counterparts; on the Pythagorean k/16 grid they are exact, so the "
    "correspondence is bit-exact there (vertices, dyadic segment fractions) and within 1e-9 relative elsewhere",
    "segment lengths are parameters of the model (sent as the exact rationals numpy computed)",
    "np.isclose is modelled with rtol=1e-5, atol=1e-8 as exact decimal rationals (no generated joint lies near that boundary)",
    "the property quantifies over lanelet graphs whose successor / predecessor ids name lanelets of the network; networks with "
    "dangling ids (AttributeError on None) are modelled (findSuccessorsR / findPredecessorsR) and compared, but excluded from the oracle",
    "maximality in the strong sense (a returned path has no admissible extension) and duplicate-freeness of the returned LIST are "
    "not claimed by the property text and are false for the code (C20_witness_route_not_maximal, C20_witness_route_duplicates, "
    "replayed from corpus/C20/net_witness_*.json); the oracle therefore checks neither, the correspondence compares order and "
    "multiplicity exactly",
    "theorems are stated for 2-D points; 3-D centre lines (kind poly3) are covered by the correspondence of `cum` and the oracle only",
    "the exhaustive stream enumerates every labelled digraph without self-successors on <= 3 (quick) / <= 4 (thorough) nodes",
]
TRUSTED = ["C20: termination of the real route functions is observed through a call budget on LaneletNetwork.find_lanelet_by_id "
           "(a counting subclass) derived from the number of simple paths of the graph, plus a 30 s wall-clock alarm"]
REQUIRED_BUCKETS = ["poly", "poly3d", "poly/s=0", "poly/s=length", "poly/s=vertex", "poly/s=interior", "poly/s=out-of-range",
                    "poly/repeated-vertex", "polyfloat", "merge/joined-exact", "merge/left-boundary-repeats-vertex",
                    "merge/right-boundary-repeats-vertex", "merge/pred-boundary-repeats-vertex", "merge/suc-boundary-repeats-vertex",
                    "poly/boundary-repeats-vertex", "merge/open", "merge/unlinked", "merge/swapped-args",
                    "net", "net/cyclic", "net/diamond", "net/range=path-length", "net/range-huge", "net/exhaustive",
                    "net/pred-independent", "net/dangling-id", "net/witness"]
WORKERS = {"quick": 1, "thorough": 8}

DIRS = [(3, 4, 5), (4, 3, 5), (5, 12, 13), (12, 5, 13), (8, 15, 17), (15, 8, 17), (7, 24, 25), (20, 21, 29), (1, 0, 1), (0, 1, 1)]
TOL = 1e-9


# ------------------------------------------------------------------------------------------------ helpers

def F(x) -> Fraction:
    return x if isinstance(x, Fraction) else unrat(x)


def pts_to_np(pts):
    import numpy as np
    return np.array([[float(F(x)), float(F(y))] for x, y in pts], dtype=float)


def pts_rat(arr):
    return [[rat(float(x)), rat(float(y))] for x, y in arr]


def np_seglens(arr):
    """The segment-length parameters of the model: what numpy computes (lanelet.py:362-364)."""
    import numpy as np
    return [float(v) for v in np.sqrt(np.square(np.diff(arr, axis=0)).sum(axis=1))]


def frac_sqrt(q: Fraction):
    """Exact square root of a rational if it is a rational square, else None."""
    n, d = q.numerator, q.denominator
    a, b = math.isqrt(n), math.isqrt(d)
    return Fraction(a, b) if a * a == n and b * b == d else None


def seglens_exact(pts):
    """Exact (Fraction) or 50-digit (Decimal) segment lengths of a polyline given as Fraction pairs."""
    out, exact = [], True
    for (x0, y0), (x1, y1) in zip(pts, pts[1:]):
        q = (x1 - x0) ** 2 + (y1 - y0) ** 2
        r = frac_sqrt(q)
        if r is None:
            exact = False
            getcontext().prec = 60
            dq = Decimal(q.numerator) / Decimal(q.denominator)
            ds = dq.sqrt()
            r = Fraction(ds)
        out.append(r)
    return out, exact


def make_lanelet(left, center, right, lid=1, pred=None, succ=None):
    from commonroad.scenario.lanelet import Lanelet
    return Lanelet(pts_to_np(left), pts_to_np(center), pts_to_np(right), lid, predecessor=list(pred or []),
                   successor=list(succ or []))


# ------------------------------------------------------------------------------------------------ generators

def gen_center(r, n, repeated=False):
    x, y = Fraction(r.randint(-64, 64), 4), Fraction(r.randint(-64, 64), 4)
    pts = [(x, y)]
    rep_at = r.randrange(n - 1) if repeated else None
    for i in range(n - 1):
        if rep_at == i:
            pts.append((x, y))
            continue
        a, b, _ = r.choice(DIRS)
        k = Fraction(r.choice([1, 2, 3, 4, 8, 16, 16, 32, 48, r.randint(1, 64)]), 16)
        x, y = x + r.choice([-1, 1]) * a * k, y + r.choice([-1, 1]) * b * k
        pts.append((x, y))
    return pts


def gen_boundary(r, center, sign):
    if r.random() < 0.5:
        off = Fraction(r.randint(1, 32), 8) * sign
        pts = [(x, y + off) for x, y in center]
    else:
        pts = [(Fraction(r.randint(-512, 512), 8), Fraction(r.randint(-512, 512), 8)) for _ in center]
    if r.random() < 0.3:
        # a boundary may pivot on one point (the inner side of a sharp corner: the same vertex twice or three times in a row)
        # while the centre line keeps distinct consecutive vertices; any position, also the first / last segment
        i = r.randrange(len(pts) - 1)
        for k in range(i + 1, min(len(pts), i + 1 + r.choice([1, 1, 2]))):
            pts[k] = pts[i]
    return pts


def gen_poly(ctx, repeated=False):
    r = ctx.rng
    n = r.choice([2, 2, 3, 3, 4, 5, 6, 8])
    if repeated:
        n = max(n, 3)
    c = gen_center(r, n, repeated)
    lens, _ = seglens_exact(c)
    cum = [Fraction(0)]
    for le in lens:
        cum.append(cum[-1] + le)
    total = cum[-1]
    ss = []  # (s, exact-expected?)
    ss += [(Fraction(0), True), (total, True)]
    for d in cum[1:-1]:
        ss.append((d, True))
    for i, le in enumerate(lens):
        for _ in range(2):
            m = r.choice([1, 2, 3, 4])
            j = r.randint(1, 2 ** m - 1)
            ss.append((cum[i] + le * Fraction(j, 2 ** m), True))
        ss.append((cum[i] + le * Fraction(r.randint(1, 999), 1000), False))
    ss.append((Fraction(r.randint(0, 10 ** 6), 10 ** 6) * total, False))
    ss += [(Fraction(-1, 16), True), (total + Fraction(1, 16), True), (Fraction(-r.randint(1, 100)), True),
           (total * 2 + 1, True)]
    # just outside the admissible interval by one ulp
    tf = float(total)
    ss += [(Fraction(math.nextafter(tf, math.inf)), True), (Fraction(-5e-324), True)]
    return {"kind": "poly", "center": [[rat(x), rat(y)] for x, y in c],
            "right": [[rat(x), rat(y)] for x, y in gen_boundary(r, c, -1)],
            "left": [[rat(x), rat(y)] for x, y in gen_boundary(r, c, +1)],
            "ss": [[rat(Fraction(float(s))), bool(e and Fraction(float(s)) == s)] for s, e in ss]}


def gen_polyfloat(ctx):
    r = ctx.rng
    n = r.choice([2, 3, 4, 6])
    scale = r.choice([1.0, 1.0, 10.0, 1e3, 1e5, 1e-2])
    c = [(r.uniform(-scale, scale), r.uniform(-scale, scale))]
    for _ in range(n - 1):
        ang = r.uniform(0, 2 * math.pi)
        le = r.uniform(0.05, 1.0) * scale
        c.append((c[-1][0] + le * math.cos(ang), c[-1][1] + le * math.sin(ang)))
    right = [(x + r.uniform(-1, 1) * scale, y - r.uniform(0.1, 1) * scale) for x, y in c]
    left = [(x + r.uniform(-1, 1) * scale, y + r.uniform(0.1, 1) * scale) for x, y in c]
    return {"kind": "polyfloat", "center": [[rat(x), rat(y)] for x, y in c], "right": [[rat(x), rat(y)] for x, y in right],
            "left": [[rat(x), rat(y)] for x, y in left], "fracs": [rat(r.random()) for _ in range(4)]}


def gen_merge(ctx):
    r = ctx.rng
    na, nb = r.choice([2, 2, 3, 4]), r.choice([2, 2, 3, 5])
    ca = gen_center(r, na)
    la, ra = gen_boundary(r, ca, +1), gen_boundary(r, ca, -1)
    joint = r.choice(["exact", "exact", "exact", "tol", "left-only", "open", "open-left"])
    cb0 = gen_center(r, nb)

    def shift(poly, to):
        dx, dy = to[0] - poly[0][0], to[1] - poly[0][1]
        return [(x + dx, y + dy) for x, y in poly]

    lb0, rb0 = gen_boundary(r, cb0, +1), gen_boundary(r, cb0, -1)
    eps = Fraction(1, 2 ** 40)
    if joint == "exact":
        cb, lb, rb = shift(cb0, ca[-1]), shift(lb0, la[-1]), shift(rb0, ra[-1])
    elif joint == "tol":
        cb, lb, rb = shift(cb0, ca[-1]), shift(lb0, (la[-1][0] + eps, la[-1][1] - eps)), shift(rb0, ra[-1])
    elif joint == "left-only":
        cb, lb, rb = shift(cb0, (ca[-1][0] + 1, ca[-1][1])), shift(lb0, la[-1]), shift(rb0, (ra[-1][0], ra[-1][1] - 2))
    elif joint == "open":
        cb = shift(cb0, (ca[-1][0] + 3, ca[-1][1] + 4))
        lb, rb = shift(lb0, (la[-1][0] + 3, la[-1][1] + 4)), shift(rb0, (ra[-1][0] + 3, ra[-1][1] + 4))
    else:  # left differs in one coordinate only, centre and right join
        cb, lb, rb = shift(cb0, ca[-1]), shift(lb0, (la[-1][0], la[-1][1] + Fraction(1, 16))), shift(rb0, ra[-1])
    ida, idb = r.sample([0, 1, 2, 7, 9, 10, 11, 42, 99, 100, 1234, r.randint(0, 10 ** 5)], 2)
    link = r.choice(["succ", "pred", "both", "both", "cycle", "rev-only", "none"])
    other = [i for i in (3, 5, 77) if i not in (ida, idb)]
    a_pred, a_succ, b_pred, b_succ = r.sample(other, r.randint(0, 2)), [], [], r.sample(other, r.randint(0, 2))
    if link in ("succ", "both", "cycle"):
        a_succ = a_succ + [idb]
    if link in ("pred", "both", "cycle"):
        b_pred = b_pred + [ida]
    if link == "cycle":
        b_succ = b_succ + [ida]
        if r.random() < 0.5:
            a_pred = a_pred + [idb]
    if link == "rev-only":   # b -> a only: the code then takes b as predecessor
        b_succ = b_succ + [ida]
    if r.random() < 0.3 and link != "none":
        a_succ = a_succ + r.sample(other, 1)

    def lan(i, p, s, le, ce, ri):
        return {"id": i, "pred": p, "succ": s, "left": [[rat(x), rat(y)] for x, y in le],
                "center": [[rat(x), rat(y)] for x, y in ce], "right": [[rat(x), rat(y)] for x, y in ri]}

    a, b = lan(ida, a_pred, a_succ, la, ca, ra), lan(idb, b_pred, b_succ, lb, cb, rb)
    swapped = r.random() < 0.4
    return {"kind": "merge", "l1": b if swapped else a, "l2": a if swapped else b, "joint": joint, "link": link}


def gen_lengths(r, ids, uniform=None):
    if uniform is not None:
        return {i: Fraction(uniform) for i in ids}
    return {i: Fraction(r.choice([1, 2, 2, 3, 4, 4, 5, 8, 10, 12, r.randint(1, 40)]), 4) for i in ids}


def walk_sums(r, succ, lens, ids, k=6):
    """Accumulated lengths along random walks (so that range limits hit `<` / `<=` boundaries)."""
    out = set()
    for _ in range(k):
        v = r.choice(ids)
        acc = Fraction(0)
        seen = set()
        for _ in range(r.randint(1, 5)):
            nx = [s for s in succ[v] if s not in seen]
            if not nx:
                break
            v = r.choice(nx)
            seen.add(v)
            acc += lens[v]
            out.add(acc)
    return sorted(out)


def net_case(ids, succ, pred, lens, queries, shape, lens_poly=None):
    return {"kind": "net", "shape": shape,
            "nodes": [{"id": i, "succ": list(succ[i]), "pred": list(pred[i]), "len": rat(lens[i])} for i in ids],
            "queries": [{"start": s, "max": rat(m)} for s, m in queries]}


def mirror(ids, succ):
    pred = {i: [] for i in ids}
    for i in ids:
        for s in succ[i]:
            pred[s].append(i)
    return pred


def gen_net(ctx):
    r = ctx.rng
    shape = r.choice(["chain", "cycle", "diamond", "dense", "sparse", "sparse", "random", "two-cycles", "tree"])
    if shape == "dense":
        n = r.randint(2, 6)
    elif shape == "diamond":
        n = r.randint(4, 8)
    else:
        n = r.randint(1, 9)
    ids = r.sample(range(0, 60), n)
    succ = {i: [] for i in ids}

    def add(a, b):
        if a != b and b not in succ[a]:
            succ[a].append(b)

    if shape == "chain":
        for a, b in zip(ids, ids[1:]):
            add(a, b)
    elif shape == "cycle":
        for a, b in zip(ids, ids[1:] + ids[:1]):
            add(a, b)
        for _ in range(r.randint(0, 2)):
            add(r.choice(ids), r.choice(ids))
    elif shape == "diamond":
        # start -> {m1..mk} -> sink (-> tail ...), possibly closing back to the start
        st, sink = ids[0], ids[-1]
        mids = ids[1:-1][:r.randint(2, 3)]
        rest = [i for i in ids[1:-1] if i not in mids]
        for m in mids:
            add(st, m)
            add(m, sink)
        prev = sink
        for t in rest:
            add(prev, t)
            prev = t
        if r.random() < 0.5:
            add(prev, st)
    elif shape == "dense":
        for a in ids:
            for b in ids:
                if r.random() < 0.8:
                    add(a, b)
    elif shape == "two-cycles":
        h = max(1, n // 2)
        for part in (ids[:h], ids[h:]):
            for a, b in zip(part, part[1:] + part[:1]):
                add(a, b)
        add(ids[0], ids[-1])
        add(ids[-1], ids[0])
    elif shape == "tree":
        for k, b in enumerate(ids[1:], 1):
            add(ids[r.randrange(k)], b)
    else:
        deg = 2 if shape == "sparse" else 3
        for a in ids:
            for _ in range(r.randint(0, deg)):
                add(a, r.choice(ids))
    for i in ids:
        r.shuffle(succ[i])
    if r.random() < 0.75:
        pred = mirror(ids, succ)
        for i in ids:
            r.shuffle(pred[i])
        indep = False
    else:
        pred = {i: [] for i in ids}
        for a in ids:
            for _ in range(r.randint(0, 2)):
                b = r.choice(ids)
                if b != a and b not in pred[a]:
                    pred[a].append(b)
        indep = True
    lens = gen_lengths(r, ids, uniform=r.choice([None, None, None, 1, Fraction(5, 2)]))
    sums = walk_sums(r, succ, lens, ids) + walk_sums(r, pred, lens, ids, 3)
    starts = ids if n <= 4 else r.sample(ids, 4)
    queries = []
    for st in starts:
        ms = {Fraction(0), Fraction(2 ** 40), Fraction(50)}
        for s in r.sample(sums, min(len(sums), 4)):
            ms.add(s)
            ms.add(s + r.choice([Fraction(-1, 4), Fraction(1, 4)]))
        for s in succ[st][:2] + pred[st][:1]:
            ms.add(lens[s])     # range == length of a direct successor / predecessor
        if r.random() < 0.3:
            ms.add(Fraction(-1))
        if shape == "dense" and n >= 6:
            ms.discard(Fraction(2 ** 40))
            ms.add(Fraction(r.randint(4, 12)))
        for m in sorted(ms):
            queries.append((st, m))
    dangling = r.random() < 0.08
    if dangling:   # some link targets name no lanelet (find_lanelet_by_id -> None): outside the property, correspondence only
        for _ in range(r.randint(1, 2)):
            r.choice([succ, pred])[r.choice(ids)].append(r.choice([97, 98, 99]))
    c = net_case(ids, succ, pred, lens, queries, shape)
    c["pred_independent"] = indep
    c["dangling"] = dangling
    return c


def exhaustive_nets(k):
    """Every labelled digraph without self-successors on nodes 1..k (predecessors mirrored), unit lengths."""
    ids = list(range(1, k + 1))
    pairs = [(a, b) for a in ids for b in ids if a != b]
    for mask in range(2 ** len(pairs)):
        succ = {i: [] for i in ids}
        for j, (a, b) in enumerate(pairs):
            if mask >> j & 1:
                succ[a].append(b)
        yield ids, succ


def exhaustive_case(ids, succ, r):
    pred = mirror(ids, succ)
    lens = gen_lengths(r, ids, uniform=1) if r.random() < 0.7 else gen_lengths(r, ids)
    total = sum(lens.values())
    ms = [Fraction(1), Fraction(2), Fraction(3), total, Fraction(2 ** 40)]
    queries = [(st, m) for st in ids for m in ms]
    c = net_case(ids, succ, pred, lens, queries, "exhaustive")
    c["pred_independent"] = False
    return c


# ------------------------------------------------------------------------------------------------ poly: run + oracle

def canon_interp(res):
    """Canonical implementation output of interpolate_position."""
    import numpy as np
    if res[0] == "err":
        return {"err": res[1]}
    c, rr, ll, idx = res[1]
    if any(np.isnan(np.asarray(v, dtype=float)).any() for v in (c, rr, ll)):
        return {"err": "zero-div"}   # numpy 0/0: NaN coordinates, no exception (model: .zeroDiv)
    return {"ok": {"c": [rat(c[0]), rat(c[1])], "r": [rat(rr[0]), rat(rr[1])], "l": [rat(ll[0]), rat(ll[1])], "idx": int(idx)}}


def close_pt(a, b, tol=TOL):
    return all(abs(F(x) - F(y)) <= Fraction(tol) * (1 + abs(F(y))) for x, y in zip(a, b))


def snap_interp(impl, model):
    """Where the implementation divides / multiplies floats the comparison is within 1e-9 relative: an implementation value
    inside that band is replaced by the model value, so that ctx.compare stays an equality test."""
    if "ok" in impl and isinstance(model, dict) and "ok" in model and impl["ok"]["idx"] == model["ok"]["idx"]:
        if all(close_pt(impl["ok"][k], model["ok"][k]) for k in ("c", "r", "l")):
            return model
    return impl


def run_poly(ctx, case):
    import numpy as np
    c, ri, le = case["center"], case["right"], case["left"]
    cF = [(F(x), F(y)) for x, y in c]
    repeated = any(a == b for a, b in zip(cF, cF[1:]))
    ctx.tag("poly")
    if any(u == v for side in (ri, le) for u, v in zip(side, side[1:])):
        ctx.tag("poly/boundary-repeats-vertex")
    if repeated:
        ctx.tag("poly/repeated-vertex")
    ctx.case(case)
    res = call(make_lanelet, le, c, ri)
    if res[0] == "err":
        ctx.fail(f"C20/Lanelet/raises-{res[1]}", f"Lanelet constructor raises for a valid polyline: {res[2]}", case)
        return
    lan = res[1]
    C = pts_to_np(c)
    lens = np_seglens(C)
    lens_r = [rat(v) for v in lens]
    dres = call(lambda: lan.distance)
    if dres[0] == "err":
        ctx.fail(f"C20/distance/raises-{dres[1]}", f"Lanelet.distance raises: {dres[2]}", case)
        return
    d = [float(v) for v in dres[1]]
    ctx.compare(case, [rat(v) for v in d], ctx.driver.ask("C20", "cum", {"lens": lens_r}), "Lanelet.distance vs CR.Arc.cumDist")
    # the side condition of the Euclidean theorems (C20_cum_euclid, C20_interp_arclength): the lengths numpy computed are the
    # non-negative roots of the squared vertex distances — exact on the grid, so the model's decidable `isEuclid` must say true
    ctx.compare(case, True, ctx.driver.ask("C20", "euclid", {"center": c, "lens": lens_r}),
                "numpy segment lengths satisfy CR.Arc.isEuclid (l_i >= 0, l_i^2 = |c_i+1 - c_i|^2)")
    # inner_distance (same helper, two polylines, np.amin)
    ires = call(lambda: lan.inner_distance)
    ll, lr = np_seglens(pts_to_np(le)), np_seglens(pts_to_np(ri))
    mi = ctx.driver.ask("C20", "cum_min", {"lens_left": [rat(v) for v in ll], "lens_right": [rat(v) for v in lr]})
    ii = [rat(float(v)) for v in ires[1]] if ires[0] == "ok" else {"err": ires[1]}
    if isinstance(ii, list) and len(ii) == len(mi) and close_pt(ii, mi):
        ii = mi     # boundary segment lengths are not exact: float cumsum vs rational sum within 1e-9 relative
    ctx.compare(case, ii, mi, "Lanelet.inner_distance vs CR.Arc.cumDistMin")
    ss = case["ss"]
    sfl = [float(F(s)) for s, _ in ss]
    impl = [canon_interp(call(lan.interpolate_position, s)) for s in sfl]
    model = ctx.driver.ask("C20", "interp", {"center": c, "right": ri, "left": le, "lens": lens_r, "ss": [s for s, _ in ss]})
    impl_c = [im if ex else snap_interp(im, mo) for im, mo, (_, ex) in zip(impl, model, ss)]
    for s in sfl:
        if s == 0:
            ctx.tag("poly/s=0")
        elif s == d[-1]:
            ctx.tag("poly/s=length")
        elif s in d:
            ctx.tag("poly/s=vertex")
        elif 0 < s < d[-1]:
            ctx.tag("poly/s=interior")
        else:
            ctx.tag("poly/s=out-of-range")
    ctx.compare(case, impl_c, model, "Lanelet.interpolate_position vs CR.Arc.interpolate")
    if repeated:
        ctx.excluded += 1     # the property quantifies over polylines with distinct consecutive vertices
        return
    oracle_poly(ctx, case, lan, d, sfl, impl)


def oracle_poly(ctx, case, lan, d, sfl, impl, extra_tol=None):
    """The property sentence on the real code: cumulative distance starts at 0, is non-decreasing, ends at the centre line's
    length; interpolate_position(s) is the centre point at arc length s (brute-force walk with exact segment lengths) and the
    right / left points at the same segment parameter."""
    c = [(F(x), F(y)) for x, y in case["center"]]
    ri = [(F(x), F(y)) for x, y in case["right"]]
    le = [(F(x), F(y)) for x, y in case["left"]]
    lens, exact = seglens_exact(c)
    cum = [Fraction(0)]
    for v in lens:
        cum.append(cum[-1] + v)
    total = cum[-1]
    sub = {k: case[k] for k in ("kind", "center", "right", "left")}
    scale = 1 + max(abs(v) for p in c + ri + le for v in p)
    tol = Fraction(TOL) * scale
    if len(d) != len(c):
        ctx.fail("C20/distance/wrong-length", f"distance has {len(d)} entries for {len(c)} vertices", sub | {"ss": []})
        return
    if d[0] != 0:
        ctx.fail("C20/distance/does-not-start-at-0", f"distance[0] = {d[0]}", sub | {"ss": []})
    if any(b < a for a, b in zip(d, d[1:])):
        ctx.fail("C20/distance/decreasing", f"distance = {d}", sub | {"ss": []})
    if abs(Fraction(d[-1]) - total) > (0 if exact else tol):
        ctx.fail("C20/distance/last-is-not-centre-length", f"distance[-1] = {d[-1]}, centre line length = {float(total)}",
                 sub | {"ss": []})
    dl = Fraction(d[-1])
    for s, im in zip(sfl, impl):
        sF = Fraction(s)
        if not (0 <= sF <= total and sF <= dl):
            continue   # the property speaks about 0 <= s <= length only
        one = sub | {"ss": [[rat(sF), False]]}
        if "err" in im:
            what = "returns NaN coordinates" if im["err"] == "zero-div" else f"raises {im['err']}"
            ctx.fail(f"C20/interpolate_position/{'nan' if im['err'] == 'zero-div' else 'raises-' + im['err']}",
                     f"interpolate_position({s}) {what} although 0 <= s <= length {float(total)}", one)
            continue
        # brute-force walk to the segment containing s
        i = 0
        while i < len(lens) - 1 and cum[i + 1] < sF:
            i += 1
        t = (sF - cum[i]) / lens[i]
        want_c = (c[i][0] + t * (c[i + 1][0] - c[i][0]), c[i][1] + t * (c[i + 1][1] - c[i][1]))
        got = im["ok"]
        if not all(abs(F(g) - w) <= tol for g, w in zip(got["c"], want_c)):
            ctx.fail("C20/interpolate_position/centre-point-not-at-arc-length",
                     f"s={s}: centre {[float(F(g)) for g in got['c']]}, point at arc length s is {[float(w) for w in want_c]}", one)
            continue
        # right / left: the points at the same segment parameter, on a segment that contains s (two candidates at a vertex)
        cands = [k for k in range(len(lens)) if cum[k] - tol <= sF <= cum[k + 1] + tol]
        bad = None
        for k in cands:
            tk = (sF - cum[k]) / lens[k]
            bad_k = None
            for name, poly in (("right", ri), ("left", le)):
                want = (poly[k][0] + tk * (poly[k + 1][0] - poly[k][0]), poly[k][1] + tk * (poly[k + 1][1] - poly[k][1]))
                # conditioning: an error of a few ulp of the total length in s - cum[k] is amplified by |delta| / len_k
                amp = Fraction(64, 2 ** 53) * (total / lens[k]) * max(abs(poly[k + 1][0] - poly[k][0]), abs(poly[k + 1][1] - poly[k][1]))
                tt = tol + (0 if exact else amp)
                if not all(abs(F(g) - w) <= tt for g, w in zip(got[name[0]], want)):
                    bad_k = (name, want)
                    break
            if bad_k is None:
                bad = None
                break
            bad = bad or bad_k
        if bad is not None:
            name, want = bad
            ctx.fail(f"C20/interpolate_position/{name}-point-not-at-same-parameter",
                     f"s={s}: {name} {[float(F(g)) for g in got[name[0]]]}, same segment parameter gives {[float(w) for w in want]}", one)
            continue
        k = got["idx"]
        if not (0 <= k < len(lens)) or k not in cands:
            ctx.fail("C20/interpolate_position/segment-id-does-not-contain-s", f"s={s}: segment id {k}, cumulative {list(map(float, cum))}",
                     one)


def run_polyfloat(ctx, case):
    ctx.tag("polyfloat")
    ctx.case(case)
    res = call(make_lanelet, case["left"], case["center"], case["right"])
    if res[0] == "err":
        ctx.fail(f"C20/Lanelet/raises-{res[1]}", f"Lanelet constructor raises for a valid polyline: {res[2]}", case)
        return
    lan = res[1]
    d = [float(v) for v in lan.distance]
    sfl = [0.0, d[-1]] + d[1:-1]
    for i, f in enumerate(case["fracs"]):
        sfl.append(float(F(f)) * d[-1])
        j = i % (len(d) - 1)
        sfl.append(d[j] + float(F(f)) * (d[j + 1] - d[j]))
    sfl = [s for s in sfl if 0 <= s <= d[-1]]
    impl = [canon_interp(call(lan.interpolate_position, s)) for s in sfl]
    # the exact centre length may be a hair below the float sum: the oracle skips s beyond the exact length
    oracle_poly(ctx, case, lan, d, sfl, impl)


# ------------------------------------------------------------------------------------------------ merge

def lanelet_of(d):
    return make_lanelet(d["left"], d["center"], d["right"], d["id"], d["pred"], d["succ"])


def run_merge(ctx, case):
    import numpy as np
    from commonroad.scenario.lanelet import Lanelet
    ctx.case(case)
    l1, l2 = case["l1"], case["l2"]
    a, b = lanelet_of(l1), lanelet_of(l2)
    res = call(Lanelet.merge_lanelets, a, b)
    if res[0] == "ok":
        m = res[1]
        impl = {"ok": {"id": int(m.lanelet_id), "pred": [int(v) for v in m.predecessor], "succ": [int(v) for v in m.successor],
                       "left": pts_rat(m.left_vertices), "center": pts_rat(m.center_vertices), "right": pts_rat(m.right_vertices)}}
    else:
        impl = {"err": res[1]}
    strip = lambda l: {k: l[k] for k in ("id", "pred", "succ", "left", "center", "right")}  # noqa: E731
    model = ctx.driver.ask("C20", "merge", {"l1": strip(l1), "l2": strip(l2)})
    ctx.compare(case, impl, model, "Lanelet.merge_lanelets vs CR.Arc.mergeLanelets")
    linked = l1["id"] in l2["succ"] or l2["id"] in l1["succ"] or l1["id"] in l2["pred"] or l2["id"] in l1["pred"]
    if not linked:
        ctx.tag("merge/unlinked")
    pred_is_l1 = l1["id"] in l2["pred"] or l2["id"] in l1["succ"]
    p, s = (l1, l2) if pred_is_l1 else (l2, l1)
    if res[0] == "ok" and isinstance(model, dict) and "ok" in model:
        joined = len(model["ok"]["center"]) == len(p["center"]) + len(s["center"]) - 1
        exact_joint = p["center"][-1] == s["center"][0]
        mm = ctx.driver.ask("C20", "cum", {"lens": [rat(v) for v in np_seglens(pts_to_np(model["ok"]["center"]))]})
        md = [rat(float(v)) for v in m.distance]
        if not exact_joint and len(md) == len(mm) and close_pt(md, mm):
            md = mm   # the bridging segment of an open joint has no exact length: float cumsum vs rational sum within 1e-9 relative
        ctx.compare(case, md, mm, "merged.distance vs cumDist of the merged centre line")
        ctx.tag("merge/joined" if joined else "merge/open")
    # ---- oracle: a lanelet merged with a successor that starts where it ends
    first, second = None, None
    fwd = l2["id"] in l1["succ"] or l1["id"] in l2["pred"]
    bwd = l1["id"] in l2["succ"] or l2["id"] in l1["pred"]
    if fwd and not bwd:
        first, second = l1, l2
    elif bwd and not fwd:
        first, second = l2, l1
        ctx.tag("merge/swapped-args")
    if first is None:
        return
    ends = all(first[k][-1] == second[k][0] for k in ("left", "center", "right"))
    if not ends:
        return
    ctx.tag("merge/joined-exact")
    for side in ("left", "right"):
        for which, lan_ in (("pred", first), ("suc", second)):
            if any(u == v for u, v in zip(lan_[side], lan_[side][1:])):
                ctx.tag(f"merge/{side}-boundary-repeats-vertex")
                ctx.tag(f"merge/{which}-boundary-repeats-vertex")
    sub = {"kind": "merge", "l1": strip(l1), "l2": strip(l2)}
    if res[0] == "err":
        ctx.fail(f"C20/merge_lanelets/raises-{res[1]}", f"merge of lanelet {first['id']} with its successor {second['id']} raises {res[2]}", sub)
        return
    for k, arr in (("left", m.left_vertices), ("center", m.center_vertices), ("right", m.right_vertices)):
        want = first[k] + second[k][1:]
        if pts_rat(arr) != [[rat(F(x)), rat(F(y))] for x, y in want]:
            ctx.fail(f"C20/merge_lanelets/{k}-not-concatenation",
                     f"{k} boundary of the merged lanelet has {len(arr)} vertices, concatenation with the joint kept once has {len(want)}"
                     if len(arr) != len(want) else f"{k} boundary of the merged lanelet differs from the concatenation", sub)
            return
    la, lb = lanelet_of(first).distance[-1], lanelet_of(second).distance[-1]
    lm = m.distance[-1]
    if abs(Fraction(float(lm)) - (Fraction(float(la)) + Fraction(float(lb)))) > Fraction(TOL) * (1 + Fraction(float(lm))):
        ctx.fail("C20/merge_lanelets/length-not-sum", f"merged length {lm}, parts {la} + {lb}", sub)


# ------------------------------------------------------------------------------------------------ routes

class Budget(Exception):
    pass


class _Alarm(Exception):
    pass


def _on_alarm(signum, frame):
    raise _Alarm()


def build_net(nodes):
    """Real lanelets (straight, length = len) in a real LaneletNetwork subclass that counts find_lanelet_by_id calls."""
    from commonroad.scenario.lanelet import LaneletNetwork

    class CountingNet(LaneletNetwork):
        c20_calls = 0
        c20_budget = 10 ** 9

        def find_lanelet_by_id(self, lanelet_id):
            self.c20_calls += 1
            if self.c20_calls > self.c20_budget:
                raise Budget()
            return super().find_lanelet_by_id(lanelet_id)

    net = CountingNet()
    lans = {}
    for k, nd in enumerate(nodes):
        le = F(nd["len"])
        y = 4 * k
        # two segments when the length allows it, so that distance[-1] is a real cumulative sum
        if le.denominator <= 4 and le >= Fraction(1, 2) and k % 2:
            h = le / 2
            c = [(Fraction(0), Fraction(y)), (h, Fraction(y)), (le, Fraction(y))]
        else:
            c = [(Fraction(0), Fraction(y)), (le, Fraction(y))]
        lan = make_lanelet([(x, yy + 1) for x, yy in c], c, [(x, yy - 1) for x, yy in c], nd["id"], nd["pred"], nd["succ"])
        net.add_lanelet(lan, rtree=False)
        lans[nd["id"]] = lan
    return net, lans


def count_simple_paths(nbr, start, cap=400000):
    """Number of duplicate-free link chains that start at a direct neighbour of `start` (brute force, capped)."""
    cnt = 0
    stack = [(s, frozenset([s])) for s in nbr[start]]
    while stack:
        v, seen = stack.pop()
        cnt += 1
        if cnt > cap:
            return cap
        for s in nbr[v]:
            if s not in seen:
                stack.append((s, seen | {s}))
    return cnt


def check_routes(ctx, fname, nbr, lens, start, mx, paths, sub):
    """Graph-path checker for one returned list of paths (property sentence, last clause)."""
    key = f"C20/{fname}"
    direct = nbr[start]
    word = "successor" if "succ" in fname else "predecessor"
    if not isinstance(paths, list):
        ctx.fail(f"{key}/not-a-list", f"returned {type(paths).__name__}", sub)
        return
    for p in paths:
        p = [int(v) for v in p]
        if not p:
            ctx.fail(f"{key}/empty-path", "an empty path is returned", sub)
            return
        if p[0] not in direct:
            ctx.fail(f"{key}/path-does-not-start-at-direct-{word}", f"path {p} starts at {p[0]}, direct {word}s of {start} are {direct}", sub)
            return
        for u, v in zip(p, p[1:]):
            if v not in nbr.get(u, []):
                ctx.fail(f"{key}/not-a-{word}-link", f"path {p}: {v} is not a {word} of {u}", sub)
                return
        if len(set(p)) != len(p):
            ctx.fail(f"{key}/path-has-loop", f"path {p} visits a lanelet twice", sub)
            return
        if start in p:
            ctx.fail(f"{key}/path-revisits-start", f"path {p} contains the start lanelet {start}", sub)
            return
        acc = Fraction(0)
        for j, v in enumerate(p[:-1]):
            acc += lens[v]
            if not acc < mx:
                ctx.fail(f"{key}/extended-at-or-beyond-range",
                         f"path {p} was extended after {p[:j + 1]} although its accumulated length {float(acc)} is not below the range {float(mx)}",
                         sub)
                return
    heads = {int(p[0]) for p in paths}
    miss = [s for s in direct if s not in heads]
    if miss:
        ctx.fail(f"{key}/direct-{word}-not-covered", f"direct {word}s {miss} of {start} head no returned path {paths}", sub)


def run_net(ctx, case):
    nodes, queries = case["nodes"], case["queries"]
    ids = [nd["id"] for nd in nodes]
    succ = {nd["id"]: list(nd["succ"]) for nd in nodes}
    pred = {nd["id"]: list(nd["pred"]) for nd in nodes}
    ctx.tag("net")
    if case.get("shape") == "exhaustive":
        ctx.tag("net/exhaustive")
    if case.get("shape") == "diamond":
        ctx.tag("net/diamond")
    if case.get("pred_independent"):
        ctx.tag("net/pred-independent")
    # cyclic?
    color = {}

    def cyc(v):
        color[v] = 1
        for s in succ.get(v, []):
            if color.get(s) == 1 or (s not in color and cyc(s)):
                return True
        color[v] = 2
        return False

    if any(v not in color and cyc(v) for v in ids):
        ctx.tag("net/cyclic")
    dangling = any(t not in succ for nd in nodes for t in nd["succ"] + nd["pred"])
    if dangling:
        ctx.tag("net/dangling-id")
        ctx.excluded += 1
    ctx.case(case)
    net, lans = build_net(nodes)
    lens = {i: Fraction(float(lans[i].distance[-1])) for i in ids}
    # the model's length function is what the real lanelets report (`distance[-1]`); on the unchanged tree = the requested length
    model = ctx.driver.ask("C20", "routes", {"net": [nd | {"len": rat(lens[nd["id"]])} for nd in nodes], "queries": queries})
    impl = []
    npaths = {}
    old = signal.signal(signal.SIGALRM, _on_alarm)
    try:
        for q in queries:
            st, mx = q["start"], F(q["max"])
            if mx >= 2 ** 39:
                ctx.tag("net/range-huge")
            row = []
            for fname, nbr in (("find_lanelet_successors_in_range", succ), ("find_lanelet_predecessors_in_range", pred)):
                kk = (fname, st)
                if kk not in npaths:
                    npaths[kk] = count_simple_paths({k: [t for t in v if t in nbr] for k, v in nbr.items()}, st)
                deg = max([len(v) for v in nbr.values()] + [1])
                net.c20_calls = 0
                # a correct run looks up one successor list and at most `deg` lengths per duplicate-free chain: 3x that is generous
                net.c20_budget = 3 * (npaths[kk] + len(ids) + 1) * (deg + 2) + 50
                sub = {"kind": "net", "nodes": nodes, "queries": [q]}
                signal.setitimer(signal.ITIMER_REAL, 30.0)
                try:
                    out = getattr(lans[st], fname)(net, float(mx))
                    signal.setitimer(signal.ITIMER_REAL, 0)
                    out = [[int(v) for v in p] for p in out]
                    row.append({"ok": out})
                    if not dangling:
                        check_routes(ctx, fname, nbr, lens, st, mx, out, sub)
                    acc_hit = any(sum((lens[v] for v in p[:j]), Fraction(0)) == mx for p in out for j in range(1, len(p) + 1))
                    if acc_hit:
                        ctx.tag("net/range=path-length")
                except (Budget, _Alarm):
                    signal.setitimer(signal.ITIMER_REAL, 0)
                    row.append({"err": "nontermination"})
                    ctx.fail(f"C20/{fname}/does-not-terminate",
                             f"{fname}(start={st}, max_length={float(mx)}) exceeded {net.c20_budget} network lookups "
                             f"(the graph has {npaths[kk]} loop-free chains from the start)", sub)
                except Exception as e:  # noqa
                    signal.setitimer(signal.ITIMER_REAL, 0)
                    from common import err_class
                    row.append({"err": err_class(e)})
                    if dangling and err_class(e) == "attr":
                        continue   # find_lanelet_by_id returned None for a dangling id: outside the property's quantifier
                    ctx.fail(f"C20/{fname}/raises-{err_class(e)}", f"{fname}(start={st}, max_length={float(mx)}) raises {type(e).__name__}: {e}", sub)
            impl.append(row)
    finally:
        signal.setitimer(signal.ITIMER_REAL, 0)
        signal.signal(signal.SIGALRM, old)
    ctx.compare(case, impl, model, "find_lanelet_{successors,predecessors}_in_range vs CR.Route.find{Successors,Predecessors}")
    if "expect_successors" in case:   # witness cases of CRProps/C20.lean (C20_witness_route_*), replayed on the real code
        ctx.tag("net/witness")
        ctx.compare(case, [row[0] for row in impl], [{"ok": e} for e in case["expect_successors"]],
                    "find_lanelet_successors_in_range on the witness networks of C20_witness_route_not_maximal / _duplicates")


# ------------------------------------------------------------------------------------------------ entry points

QUADS = [(1, 2, 2, 3), (2, 3, 6, 7), (4, 4, 7, 9), (1, 4, 8, 9), (2, 6, 9, 11), (6, 6, 7, 11), (3, 4, 12, 13), (3, 4, 0, 5), (0, 0, 1, 1)]


def gen_poly3(ctx):
    """A lanelet with 3-D vertices (x, y, z) whose segments are scaled Pythagorean quadruples: exact 3-D segment lengths."""
    r = ctx.rng
    n = r.randint(2, 6)
    x, y, z = (Fraction(r.randint(-64, 64), 4) for _ in range(3))
    pts, lens = [[x, y, z]], []
    for _ in range(n - 1):
        a, b, c, d = r.choice(QUADS)
        k = Fraction(r.choice([1, 2, 4, 8, 16, 24]), 8)
        x, y, z = x + r.choice([-1, 1]) * a * k, y + r.choice([-1, 1]) * b * k, z + r.choice([-1, 1]) * c * k
        pts.append([x, y, z])
        lens.append(d * k)
    return {"kind": "poly3", "center": [[rat(v) for v in p] for p in pts], "lens": [rat(v) for v in lens]}


def run_poly3(ctx, case):
    """3-D centre line: cumulative distance = arc length in 3-D; interpolate_position at the vertices' arc lengths returns the vertices."""
    import numpy as np
    from commonroad.scenario.lanelet import Lanelet
    ctx.tag("poly3d")
    ctx.case(case)
    c = [[F(v) for v in p] for p in case["center"]]
    lens = [F(v) for v in case["lens"]]
    C = np.array([[float(v) for v in p] for p in c])
    off = np.array([0.0, 2.0, 0.0])
    res = call(lambda: Lanelet(C + off, C, C - off, 1))
    if res[0] == "err":
        ctx.fail(f"C20/Lanelet/raises-{res[1]}/3d", f"Lanelet constructor raises for a valid 3-D polyline: {res[2]}", case)
        return
    lan = res[1]
    d = [float(v) for v in lan.distance]
    ctx.compare(case, [rat(v) for v in d], ctx.driver.ask("C20", "cum", {"lens": case["lens"]}), "Lanelet.distance (3-D) vs CR.Arc.cumDist")
    cum = [Fraction(0)]
    for v in lens:
        cum.append(cum[-1] + v)
    if len(d) != len(cum) or any(abs(F(rat(a)) - b) > Fraction(1, 10 ** 9) * max(1, b) for a, b in zip(d, cum)):
        ctx.fail("C20/distance/not-arc-length/3d", f"3-D centre line {C.tolist()}: distance = {d}, arc lengths = {[float(v) for v in cum]}", case)
        return
    for i, s in enumerate(cum):
        r = call(lan.interpolate_position, float(s))
        if r[0] == "err":
            ctx.fail(f"C20/interpolate_position/raises-{r[1]}/3d", f"s={float(s)} (vertex {i}): {r[2]}", case)
            return
        cen = [float(v) for v in r[1][0]]
        if any(abs(a - float(b)) > 1e-9 * max(1.0, abs(float(b))) for a, b in zip(cen, c[i])):
            ctx.fail("C20/interpolate_position/centre-not-at-arc-length/3d", f"s={float(s)} is vertex {i} = {[float(v) for v in c[i]]}, got {cen}", case)
            return
    # the same lanelet flattened to 2-D (after the 3-D queries above): arc length is now measured in the plane
    import math
    r2 = call(lan.convert_to_2d)
    if r2[0] == "err":
        ctx.fail(f"C20/convert_to_2d/raises-{r2[1]}", r2[2], case)
        return
    ctx.tag("poly3d/flattened")
    pts2 = [(float(p[0]), float(p[1])) for p in c]
    if any(a == b for a, b in zip(pts2, pts2[1:])):
        return          # a purely vertical segment collapses: no longer a polyline with distinct consecutive vertices
    cum2 = [0.0]
    for (x0, y0), (x1, y1) in zip(pts2, pts2[1:]):
        cum2.append(cum2[-1] + math.hypot(x1 - x0, y1 - y0))
    d2 = [float(v) for v in lan.distance]
    if len(d2) != len(cum2) or any(abs(a - b) > 1e-9 * max(1.0, b) for a, b in zip(d2, cum2)):
        ctx.fail("C20/distance/not-arc-length/after-convert_to_2d", f"flattened centre line {pts2}: distance = {d2}, planar arc lengths = {cum2}", case)
        return
    for i, s in enumerate(cum2):
        r = call(lan.interpolate_position, min(s, d2[-1]))
        if r[0] == "err":
            ctx.fail(f"C20/interpolate_position/raises-{r[1]}/after-convert_to_2d", f"s={s} (vertex {i}): {r[2]}", case)
            return
        cen = [float(v) for v in r[1][0]][:2]
        if any(abs(a - b) > 1e-7 * max(1.0, abs(b)) for a, b in zip(cen, pts2[i])):
            ctx.fail("C20/interpolate_position/centre-not-at-arc-length/after-convert_to_2d",
                     f"after convert_to_2d s={s} is vertex {i} = {pts2[i]}, got {cen}", case)
            return


def run_case(ctx, case):
    k = case.get("kind")
    if k == "poly3":
        run_poly3(ctx, case)
    elif k == "poly":
        run_poly(ctx, case)
    elif k == "polyfloat":
        run_polyfloat(ctx, case)
    elif k == "merge":
        run_merge(ctx, case)
    elif k == "net":
        run_net(ctx, case)
    else:
        raise RuntimeError(f"C20: unknown case kind {k}")


def run(ctx):
    for p in sorted(glob.glob(os.path.join(CORPUS_DIR, "C20", "*.json"))):
        run_case(ctx, json.load(open(p)))
    for i in range(ctx.n(1000)):
        run_case(ctx, gen_poly(ctx, repeated=(i % 10 == 9)))
    for _ in range(ctx.n(150)):
        run_case(ctx, gen_polyfloat(ctx))
    for _ in range(ctx.n(120)):
        run_case(ctx, gen_poly3(ctx))
    for _ in range(ctx.n(300)):
        run_case(ctx, gen_merge(ctx))
    # exhaustive small graphs: <= 3 nodes in quick, <= 4 nodes in thorough (split over the workers)
    kmax = 4 if ctx.tier == "thorough" else 3
    j = 0
    for k in range(1, kmax + 1):
        for ids, succ in exhaustive_nets(k):
            j += 1
            if j % ctx.workers == ctx.worker:
                run_case(ctx, exhaustive_case(ids, succ, ctx.rng))
    if ctx.tier == "quick":
        allk4 = list(itertools.islice(exhaustive_nets(4), 4096))
        for ids, succ in ctx.rng.sample(allk4, 150):
            run_case(ctx, exhaustive_case(ids, succ, ctx.rng))
    for _ in range(ctx.n(1000)):
        run_case(ctx, gen_net(ctx))


search = run


def replay(ctx, case):
    run_case(ctx, case)


def shrink(case, key):
    return case
