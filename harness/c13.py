"""C13 — benchmark ids print and parse consistently.
model: lean/CRModel/BenchId.lean; theorems: lean/CRProps/C13.lean (helper lemmas lean/CRProofs/BenchId.lean).

Streams (a *case* is a JSON dict with a "kind"):
  sid      constructor arguments of a ScenarioID (valid, or deliberately outside the property's domain)
           impl: ScenarioID(...), str(), from_benchmark_id(str, version), str() again  vs  model mk/print/parse/print
           oracle (valid ids only): grammar (own regex, not the code's), parse-back equality field by field, same print
  parse    an arbitrary string + version through ScenarioID.from_benchmark_id  vs  model parse   (correspondence only)
  sol      ScenarioID + list of (vehicle model, vehicle type, cost function, planning problem id)
           impl: Solution.benchmark_id; CommonRoadSolutionReader._parse_benchmark_id/_parse_vehicle_id on it; and the full
           CommonRoadSolutionWriter.dump -> CommonRoadSolutionReader.fromstring path  vs  model benchmarkId/readSolutionIds
           oracle: same models, types, cost functions, scenario id, version come back (static path and XML path)
  bid/vid  arbitrary strings through _parse_benchmark_id / _parse_vehicle_id vs model   (correspondence only)
  tamper   a written solution XML whose benchmark_id attribute was replaced, through fromstring vs model readSolutionIds
"""
import re
import traceback
import warnings

from common import InfraError

RULE = ("scenario ids: full product over small value sets (cooperative x {ZAM, two ISO codes, None} x 7 map names x 6 map ids x "
        "11 shapes of configuration/behaviour/prediction) in shuffled chunks + random ids (all 250 ISO codes, alphanumeric names "
        "1..12 chars, numbers up to 10^40, prediction lists of 2..5) + ids outside the domain (one-element prediction list, "
        "0 / negative / empty values, unknown country or behaviour, non-alphanumeric names, unsupported version) + strings for "
        "the parser (printed ids with one character deleted / inserted / replaced, leading zeros, garbage); solutions: 1..4 "
        "planning problems over all supported (vehicle model, vehicle type, cost function) triples with real trajectories, "
        "single and cooperative; distinct = distinct canonical JSON of the case; non-trivial = every case (each one runs "
        "constructor, print and parse)")
ASSUMPTIONS = [
    "iso3166.countries_by_alpha3 keys are three upper-case ASCII letters (checked at the start of every run; hypothesis "
    "`CountriesOk` of the theorems)",
    "Python re: `benchmark_id_pattern.fullmatch` denotes the deterministic matcher `matchId` (proved in Lean to accept exactly the "
    "denotational grammar idRE, C13_pattern_iff_grammar; compared with the real regex on >= 2500 well- and ill-formed strings per run)",
    "str(int) / int(str) are decimal printing / reading (modelled digit by digit; compared on numbers up to 10^40)",
    "input strings are ASCII except where noted (Python's int() also accepts non-ASCII decimal digits in _parse_vehicle_id)",
]
TRUSTED = ["XML attribute write/read of the benchmark id (ElementTree) is the identity on these ASCII strings (sampled by the XML path)"]
REQUIRED_BUCKETS = ["sid/map-only", "sid/config-only", "sid/behaviour-default-prediction", "sid/prediction-int",
                    "sid/prediction-list", "sid/cooperative", "sid/big-number", "sid/outside-domain", "sid/one-element-list",
                    "sid/ctor-error", "parse/malformed", "parse/well-formed", "sol/single", "sol/cooperative", "sol/xml-path",
                    "bid/malformed", "vid", "tamper", "tamper/compared"]

VERSIONS = ["2020a", "2018b"]
_ID_GRAMMAR = re.compile(r"(C-)?[A-Z]{3}_[A-Za-z0-9]+-[1-9][0-9]*(_[1-9][0-9]*(_[STPI](-[1-9][0-9]*)+)?)?", re.ASCII)
_ALNUM = "abcdefghijklmnopqrstuvwxyzABCDEFGHIJKLMNOPQRSTUVWXYZ0123456789"
_countries = None


def countries():
    global _countries
    if _countries is None:
        import iso3166
        cs = sorted(iso3166.countries_by_alpha3)
        if not all(len(c) == 3 and c.isascii() and c.isalpha() and c.isupper() for c in cs) or not cs:
            raise InfraError("iso3166.countries_by_alpha3 is not a table of three upper-case ASCII letters")
        _countries = cs
    return _countries


# ------------------------------------------------------------------------------------------------ implementation side

def sid_fields(o):
    """canonical form of a ScenarioID object: the eight attributes __eq__ compares"""
    p = o.prediction_id
    return {"coop": o.cooperative, "country": o.country_id, "map_name": o.map_name, "map_id": o.map_id,
            "config": o.configuration_id, "beh": o.obstacle_behavior, "pred": list(p) if isinstance(p, list) else p,
            "version": o.scenario_version}


def _err(e):
    from common import err_class
    return {"err": err_class(e)}


def mk_sid(raw):
    from commonroad.scenario.scenario import ScenarioID
    return ScenarioID(cooperative=raw["coop"], country_id=raw["country"], map_name=raw["map_name"], map_id=raw["map_id"],
                      configuration_id=raw["config"], obstacle_behavior=raw["beh"],
                      prediction_id=list(raw["pred"]) if isinstance(raw["pred"], list) else raw["pred"],
                      scenario_version=raw["version"])


def impl_sid(raw):
    """constructor, print, parse of the print, print of the parse — same shape as driver op `sid`"""
    from commonroad.scenario.scenario import ScenarioID
    try:
        o = mk_sid(raw)
    except Exception as e:  # noqa
        return _err(e), None
    f = sid_fields(o)
    s = str(o)
    try:
        back = ScenarioID.from_benchmark_id(s, o.scenario_version)
        parsed, restr = {"ok": sid_fields(back)}, str(back)
    except Exception as e:  # noqa
        back, parsed, restr = None, _err(e), None
    return {"ok": {"id": f, "str": s, "parsed": parsed, "restr": restr}}, (o, s, back)


def impl_parse(s, ver):
    from commonroad.scenario.scenario import ScenarioID
    try:
        o = ScenarioID.from_benchmark_id(s, ver)
    except Exception as e:  # noqa
        return _err(e)
    return {"ok": {"id": sid_fields(o), "str": str(o)}}


def _trajectory(model_name):
    import numpy as np
    from commonroad.scenario.state import InputState, KSTState, PMInputState
    from commonroad.scenario.trajectory import Trajectory
    if model_name == "PM":
        sl = [PMInputState(acceleration=0.0, acceleration_y=0.0, time_step=t) for t in range(2)]
    elif model_name == "KST":
        sl = [KSTState(position=np.array([0.0, 0.0]), steering_angle=0.0, velocity=1.0, orientation=0.0, hitch_angle=0.0,
                       time_step=t) for t in range(2)]
    else:
        sl = [InputState(steering_angle_speed=0.0, acceleration=0.0, time_step=t) for t in range(2)]
    return Trajectory(0, sl)


def mk_solution(raw, pps):
    from commonroad.common.solution import CostFunction, PlanningProblemSolution, Solution, VehicleModel, VehicleType
    sid = mk_sid(raw)
    lst = [PlanningProblemSolution(pid, VehicleModel[m], VehicleType(t), CostFunction[c], _trajectory(m)) for m, t, c, pid in pps]
    return sid, Solution(sid, lst)


def static_read(bid, n):
    """the id part of CommonRoadSolutionReader._parse_solution, through the reader's own static functions"""
    from commonroad.common.solution import CommonRoadSolutionReader as R, CostFunction, SolutionReaderException
    vids, cids, sid = R._parse_benchmark_id(bid)
    vehicles, costs = [], []
    for idx in range(n):
        v, c = vids[idx], cids[idx]
        m, t = R._parse_vehicle_id(v)
        if c not in [cf.name for cf in CostFunction]:     # solution.py:707-709
            raise SolutionReaderException("Invalid Cost ID: " + c)
        vehicles.append([m.name, t.value])
        costs.append(CostFunction[c].name)
    return {"vehicles": vehicles, "costs": costs, "id": sid_fields(sid)}


def solution_fields(sol):
    pps = sol.planning_problem_solutions
    return {"vehicles": [[p.vehicle_model.name, p.vehicle_type.value] for p in pps],
            "costs": [p.cost_function.name for p in pps], "id": sid_fields(sol.scenario_id)}


_NOT_ID_FRAMES = {"_parse_trajectory", "_parse_state", "_parse_sub_element", "_create_trajectory_node", "_create_state_node",
                  "_create_sub_element"}


def _outside_id_code(e):
    """exception raised while (de)serialising trajectories / states: not the benchmark id (property C14's subject)"""
    return any(fr.name in _NOT_ID_FRAMES for fr in traceback.extract_tb(e.__traceback__))


# ------------------------------------------------------------------------------------------------ oracle

def oracle_sid(ctx, case, impl, objs):
    """property sentence 1 on the real code, for a *valid* id"""
    raw = case["raw"]
    if "err" in impl:
        ctx.fail(f"C13/ScenarioID.__init__/raises-{impl['err']}", f"valid scenario id fields rejected: {raw}", case)
        return
    o, s, back = objs
    r = impl["ok"]
    if _ID_GRAMMAR.fullmatch(s) is None:
        ctx.fail("C13/ScenarioID.__str__/not-in-grammar", f"printed id {s!r} is not a CommonRoad benchmark id ({raw})", case)
    if "err" in r["parsed"]:
        ctx.fail(f"C13/from_benchmark_id/raises-{r['parsed']['err']}", f"parsing the printed id {s!r} raises", case)
        return
    if r["parsed"]["ok"] != r["id"] or any(type(a) is not type(b) for a, b in
                                          zip(r["parsed"]["ok"].values(), r["id"].values())):
        diff = [k for k in r["id"] if r["id"][k] != r["parsed"]["ok"][k]]
        ctx.fail("C13/from_benchmark_id/unequal-id/" + ("+".join(diff or ["type"]) if len(diff) <= 2 else "many-fields"),
                 f"{s!r} parses back to {r['parsed']['ok']}, printed from {r['id']}", case)
    elif not (back == o):
        ctx.fail("C13/from_benchmark_id/unequal-id/__eq__", f"{s!r}: parsed id has equal fields but == is False", case)
    if r["restr"] != s:
        ctx.fail("C13/from_benchmark_id/prints-differently", f"{s!r} parses back to an id printing {r['restr']!r}", case)
    # printing is a function of the CURRENT field values: print, reassign a field, print again (query -> mutate -> query)
    beh = {"S": "T", "T": "S", "P": "I", "I": "P"}
    for attr, key, new in (("map_id", "map_id", (raw["map_id"] or 1) + 1),
                           ("configuration_id", "config", (raw["config"] or 1) + 2),
                           ("obstacle_behavior", "beh", beh.get(raw["beh"], raw["beh"])),
                           ("cooperative", "coop", not raw["coop"])):
        if raw.get("beh") is None and attr != "map_id":
            continue                       # map ids have no configuration part to vary
        raw2 = dict(raw, **{key: new})
        try:
            fresh = str(mk_sid(raw2))
            o2 = mk_sid(raw)
            str(o2)
            setattr(o2, attr, new)
            again = str(o2)
        except Exception:  # noqa  (not every neighbour is a valid id; construction problems are reported above)
            continue
        if again != fresh:
            ctx.fail(f"C13/ScenarioID.__str__/stale-after-setting/{attr}",
                     f"id printed as {s!r}, then {attr} = {new!r}: prints {again!r}, an id built with these fields prints {fresh!r}", case)
            break


def oracle_sol(ctx, case, sid, sol, bid):
    """property sentence 2 on the real code"""
    from commonroad.common.solution import CommonRoadSolutionReader, CommonRoadSolutionWriter
    want = {"vehicles": [[m, t] for m, t, _, _ in case["pps"]], "costs": [c for _, _, c, _ in case["pps"]],
            "id": sid_fields(sid)}
    n = len(case["pps"])
    klass = "single" if n == 1 else "cooperative"
    try:
        got = static_read(bid, n)
    except Exception as e:  # noqa
        ctx.fail(f"C13/_parse_benchmark_id/raises-{type(e).__name__}/{klass}", f"benchmark id {bid!r} of a {klass} solution "
                 f"cannot be parsed: {e}", case)
        got = None
    if got is not None:
        for k in ("vehicles", "costs", "id"):
            if got[k] != want[k]:
                ctx.fail(f"C13/_parse_benchmark_id/different-{k}/{klass}",
                         f"{bid!r} parses back to {k} {got[k]}, the solution has {want[k]}", case)
    # XML path: fields of the Solution returned by CommonRoadSolutionReader.fromstring
    try:
        xml = CommonRoadSolutionWriter(sol).dump()
        back = CommonRoadSolutionReader.fromstring(xml)
    except Exception as e:  # noqa
        if _outside_id_code(e):
            ctx.excluded += 1
            ctx.tag("sol/xml-path-blocked-outside-id-code")
            return
        ctx.fail(f"C13/fromstring/raises-{type(e).__name__}/{klass}", f"solution with benchmark id {bid!r} cannot be read back: {e}",
                 case)
        return
    ctx.tag("sol/xml-path")
    got = solution_fields(back)
    for k in ("vehicles", "costs", "id"):
        if got[k] != want[k]:
            ctx.fail(f"C13/fromstring/different-{k}/{klass}", f"{bid!r} read back with {k} {got[k]}, written with {want[k]}", case)
    if back.benchmark_id != bid:
        ctx.fail(f"C13/fromstring/different-benchmark-id/{klass}", f"{bid!r} read back as {back.benchmark_id!r}", case)


# ------------------------------------------------------------------------------------------------ running cases (batched)

def is_valid_raw(raw):
    """the property's domain, stated on the constructor arguments (narrow reading: a single prediction id is an int)"""
    p = raw["pred"]
    return (raw["version"] in VERSIONS and (raw["country"] is None or raw["country"] == "ZAM" or raw["country"] in countries())
            and raw["map_name"] != "" and raw["map_name"].isascii() and raw["map_name"].isalnum()
            and raw["map_id"] > 0 and (raw["config"] is None or raw["config"] > 0)
            and raw["beh"] in (None, "S", "T", "P", "I") and (p is None or raw["beh"] is not None)
            and (p is None or (isinstance(p, int) and p > 0) or (isinstance(p, list) and len(p) >= 2 and all(x > 0 for x in p))))


def tag_sid(ctx, raw, valid):
    p = raw["pred"]
    if not valid:
        ctx.tag("sid/outside-domain")
        if isinstance(p, list) and len(p) == 1:
            ctx.tag("sid/one-element-list")
        return
    if raw["config"] is None and raw["beh"] is None:
        ctx.tag("sid/map-only")
    elif raw["beh"] is None:
        ctx.tag("sid/config-only")
    elif p is None:
        ctx.tag("sid/behaviour-default-prediction")
    elif isinstance(p, int):
        ctx.tag("sid/prediction-int")
    else:
        ctx.tag("sid/prediction-list")
    if raw["coop"]:
        ctx.tag("sid/cooperative")
    if raw["map_id"] >= 10 ** 12 or (raw["config"] or 0) >= 10 ** 12:
        ctx.tag("sid/big-number")


def run_batch(ctx, cases):
    warnings.filterwarnings("ignore")
    cs = countries()
    by = {}
    for c in cases:
        by.setdefault(c["kind"], []).append(c)

    for chunk in _chunks(by.get("sid", []), 250):
        model = ctx.driver.ask("C13", "sid", {"cs": cs, "raws": [c["raw"] for c in chunk]})
        for case, mo in zip(chunk, model):
            raw = case["raw"]
            valid = is_valid_raw(raw)
            tag_sid(ctx, raw, valid)
            ctx.case(case)
            impl, objs = impl_sid(raw)
            if "err" in impl:
                ctx.tag("sid/ctor-error")
            ctx.compare(case, impl, mo, "ScenarioID(...) / str / from_benchmark_id / str  vs  CR.BenchId.mk / print / parse / print")
            if valid:
                oracle_sid(ctx, case, impl, objs)
            else:
                ctx.excluded += 1

    for chunk in _chunks(by.get("parse", []), 250):
        model = ctx.driver.ask("C13", "parse", {"cs": cs, "items": [[c["s"], c["version"]] for c in chunk]})
        for case, mo in zip(chunk, model):
            ctx.case(case)
            ctx.tag("parse/well-formed" if _ID_GRAMMAR.fullmatch(case["s"]) else "parse/malformed")
            ctx.compare(case, impl_parse(case["s"], case["version"]), mo, "ScenarioID.from_benchmark_id vs CR.BenchId.parse")

    for chunk in _chunks(by.get("sol", []), 100):
        model = ctx.driver.ask("C13", "sol", {"cs": cs, "sols": [
            {"raw": c["raw"], "vs": [[m, t] for m, t, _, _ in c["pps"]], "costs": [k for _, _, k, _ in c["pps"]]} for c in chunk]})
        for case, mo in zip(chunk, model):
            ctx.case(case)
            n = len(case["pps"])
            ctx.tag("sol/single" if n == 1 else "sol/cooperative")
            try:
                sid, sol = mk_solution(case["raw"], case["pps"])
            except Exception as e:  # noqa
                ctx.fail(f"C13/Solution/raises-{type(e).__name__}", f"valid solution cannot be constructed: {e}", case)
                continue
            try:
                bid = sol.benchmark_id
            except Exception as e:  # noqa
                ctx.fail(f"C13/Solution.benchmark_id/raises-{type(e).__name__}", f"benchmark_id raises: {e}", case)
                continue
            try:
                read = {"ok": static_read(bid, n)}
            except Exception as e:  # noqa
                read = _err(e)
            ctx.compare(case, {"ok": {"bid": bid, "read": read}}, mo,
                        "Solution.benchmark_id / _parse_benchmark_id / _parse_vehicle_id  vs  CR.BenchId.benchmarkId / readSolutionIds")
            oracle_sol(ctx, case, sid, sol, bid)

    for chunk in _chunks(by.get("bid", []), 250):
        from commonroad.common.solution import CommonRoadSolutionReader as R
        model = ctx.driver.ask("C13", "bid_parse", {"cs": cs, "items": [c["s"] for c in chunk]})
        for case, mo in zip(chunk, model):
            ctx.case(case)
            ctx.tag("bid/malformed")
            try:
                v, c, sid = R._parse_benchmark_id(case["s"])
                impl = {"ok": {"vehicle_ids": v, "cost_ids": c, "id": sid_fields(sid)}}
            except Exception as e:  # noqa
                impl = _err(e)
            ctx.compare(case, impl, mo, "_parse_benchmark_id vs CR.BenchId.parseBenchmarkId")

    for chunk in _chunks(by.get("vid", []), 250):
        from commonroad.common.solution import CommonRoadSolutionReader as R
        model = ctx.driver.ask("C13", "vid_parse", {"cs": [], "items": [c["s"] for c in chunk]})
        for case, mo in zip(chunk, model):
            ctx.case(case)
            ctx.tag("vid")
            try:
                m, t = R._parse_vehicle_id(case["s"])
                impl = {"ok": [m.name, t.value]}
            except Exception as e:  # noqa
                impl = _err(e)
            ctx.compare(case, impl, mo, "_parse_vehicle_id vs CR.BenchId.parseVehicleId")

    for case in by.get("tamper", []):
        from commonroad.common.solution import CommonRoadSolutionReader, CommonRoadSolutionWriter
        import xml.etree.ElementTree as et
        ctx.case(case)
        ctx.tag("tamper")
        _, sol = mk_solution(case["raw"], case["pps"])
        root = et.fromstring(CommonRoadSolutionWriter(sol).dump())
        root.set("benchmark_id", case["bid"])
        try:
            impl = {"ok": solution_fields(CommonRoadSolutionReader.fromstring(et.tostring(root, encoding="unicode")))}
        except Exception as e:  # noqa
            if _outside_id_code(e) or type(e).__name__ == "SolutionException":
                ctx.excluded += 1      # trajectory / model-compatibility checks: not the id
                continue
            impl = _err(e)
        ctx.tag("tamper/compared")
        mo = ctx.driver.ask("C13", "read_ids", {"cs": cs, "items": [[case["bid"], len(case["pps"])]]})[0]
        ctx.compare(case, impl, mo, "CommonRoadSolutionReader.fromstring (benchmark_id replaced) vs CR.BenchId.readSolutionIds")


def _chunks(l, n):
    for i in range(0, len(l), n):
        yield l[i:i + n]


# ------------------------------------------------------------------------------------------------ generators

NAMES = ["Test", "US101", "A9", "a", "0", "C", "T1"]
MAP_IDS = [1, 2, 9, 10, 33, 100]
SHAPES = [  # (config, beh, pred)
    (None, None, None), (1, None, None), (12, None, None), (None, "S", None), (3, "T", None), (None, "P", 1), (2, "I", 7),
    (10, "T", 10), (None, "S", [1, 2]), (2, "T", [3, 1, 20]), (5, "P", [1, 1]),
]
PRODUCT_COUNTRIES = ["ZAM", "DEU", "USA", None]


def product_cases():
    out = []
    for coop in (False, True):
        for country in PRODUCT_COUNTRIES:
            for name in NAMES:
                for mid in MAP_IDS:
                    for cfg, beh, pred in SHAPES:
                        out.append({"kind": "sid", "raw": {"coop": coop, "country": country, "map_name": name, "map_id": mid,
                                                           "config": cfg, "beh": beh, "pred": pred, "version": "2020a"}})
    return out


def rnd_num(r):
    k = r.random()
    if k < 0.4:
        return r.choice([1, 2, 9, 10, 11, 19, 20, 99, 100, 101, 109, 110, 999, 1000])
    if k < 0.8:
        return r.randint(1, 10 ** r.randint(1, 9))
    return r.choice([10 ** r.randint(12, 40), r.randint(10 ** 12, 10 ** 40)])


def rnd_name(r):
    k = r.random()
    if k < 0.3:
        return r.choice(NAMES + ["CC", "ZAM", "S", "I1", "123", "1a2B", "Z", "z9", "USLanker", "Muc"])
    return "".join(r.choice(_ALNUM) for _ in range(r.randint(1, 12)))


def gen_valid_raw(r):
    shape = r.randrange(6)
    cfg = beh = pred = None
    if shape >= 1:
        cfg = rnd_num(r) if (shape == 1 or r.random() < 0.7) else None
    if shape >= 2:
        beh = r.choice("STPI")
    if shape == 3:
        pred = rnd_num(r)
    elif shape >= 4:
        pred = [rnd_num(r) for _ in range(r.randint(2, 5))]
    country = r.choice(countries()) if r.random() < 0.85 else r.choice(["ZAM", "ZAM", None])
    return {"coop": r.random() < 0.4, "country": country, "map_name": rnd_name(r), "map_id": rnd_num(r), "config": cfg,
            "beh": beh, "pred": pred, "version": r.choice(VERSIONS)}


def gen_outside_raw(r):
    raw = gen_valid_raw(r)
    k = r.randrange(13)
    if k == 0:
        raw["beh"], raw["pred"] = raw["beh"] or "T", [rnd_num(r)]
    elif k == 1:
        raw["config"] = r.choice([0, -1, -rnd_num(r)])
    elif k == 2:
        raw["beh"], raw["pred"] = raw["beh"] or "S", r.choice([0, -3, [], [0], [1, 0], [2, -5, 1]])
    elif k == 3:
        raw["map_id"] = r.choice([0, -1, -rnd_num(r)])
    elif k == 4:
        raw["beh"] = r.choice(["X", "s", "ST", "", "1"])
    elif k == 5:
        raw["beh"], raw["pred"] = None, r.choice([1, [1, 2], 0, []])
    elif k == 6:
        raw["country"] = r.choice(["XXX", "deu", "DE", "GERM", "", "Z4M", "zam"])
    elif k == 7:
        raw["map_name"] = r.choice(["US-101", "a b", "", "_", "Straße", "A_9", "x:y", "-", "Te.st", "٣", "[a]"])
    elif k == 8:
        raw["version"] = r.choice(["2019", "", "2020b", "2020A"])
    elif k == 9:
        raw["beh"], raw["pred"] = raw["beh"] or "I", [rnd_num(r)]
    elif k == 10:
        raw["config"], raw["beh"], raw["pred"] = 0, None, None
    elif k == 11:
        raw["config"], raw["beh"], raw["pred"] = 0, "T", 0
    else:
        raw["beh"], raw["pred"], raw["config"] = "P", [r.choice([1, 5])], None
    return raw


def mutate(r, s):
    k = r.randrange(9)
    i = r.randrange(len(s)) if s else 0
    if k == 0 and s:
        return s[:i] + s[i + 1:]
    if k == 1:
        return s[:i] + r.choice("_-C0 aZ:9\n") + s[i:]
    if k == 2 and s:
        return s[:i] + r.choice("_-0sT1z") + s[i + 1:]
    if k == 3:
        return re.sub(r"-([1-9])", r"-0\1", s, count=1)
    if k == 4:
        return s + r.choice(["-", "_", "_1", "-1", "\n", "_T", "_T-", "_X-1", "_S-1"])
    if k == 5:
        return s.lower() if r.random() < 0.3 else s[:3].lower() + s[3:]
    if k == 6:
        return r.choice(["C-", "c-", "-", "CC-", "C_"]) + s
    if k == 7:
        return s.replace("_", r.choice(["-", "__", " "]), 1)
    return s.replace("-", r.choice(["_", "--", ""]), 1)


def printed(raw):
    """an id string in the documented format, built here (not by the code) — seed material for the parser stream"""
    s = ("C-" if raw["coop"] else "") + f"{raw['country'] or 'ZAM'}_{raw['map_name']}-{raw['map_id']}"
    if raw["config"] is not None or raw["beh"] is not None:
        s += f"_{raw['config'] or 1}"
    if raw["beh"] is not None:
        p = raw["pred"] if isinstance(raw["pred"], list) else [raw["pred"] or 1]
        s += f"_{raw['beh']}" + "".join(f"-{x}" for x in p)
    return s


def gen_parse_case(r):
    s = printed(gen_valid_raw(r))
    k = r.random()
    if k < 0.25:
        pass
    elif k < 0.35:
        s = r.choice(["XXX", "QQQ", "AAA", "ZZZ"]) + s[s.index("_"):] if not s.startswith("C-") else "C-XYZ" + s[s.index("_"):]
    elif k < 0.9:
        s = mutate(r, s)
        if r.random() < 0.2:
            s = mutate(r, s)
    else:
        s = "".join(r.choice("AZC_-019aT S") for _ in range(r.randint(0, 14)))
    return {"kind": "parse", "s": s, "version": r.choice(VERSIONS + VERSIONS + ["2017"])}


def supported_triples():
    from commonroad.common.solution import CostFunction, SupportedCostFunctions, VehicleModel, VehicleType
    return [(m.name, t.value, c.name) for m in VehicleModel for t in VehicleType for c in CostFunction
            if c in SupportedCostFunctions[m.name].value]


def gen_sol_case(r, triples, n=None):
    n = n or r.choice([1, 1, 2, 2, 3, 4])
    raw = gen_valid_raw(r)
    if n > 1 and r.random() < 0.7:
        raw["coop"] = True
    pids = r.sample(range(0, 1000), n)
    return {"kind": "sol", "raw": raw, "pps": [list(r.choice(triples)) + [pid] for pid in pids]}


def gen_bid_case(r, triples):
    c = gen_sol_case(r, triples)
    vs = [f"{m}{t}" for m, t, _, _ in c["pps"]]
    ks = [k for _, _, k, _ in c["pps"]]
    br = (lambda l: l[0] if len(l) == 1 else "[" + ",".join(l) + "]")
    s = f"{br(vs)}:{br(ks)}:{printed(c['raw'])}:{c['raw']['version']}"
    k = r.randrange(8)
    if k == 0:
        s = s.replace(":", r.choice(["", "::", " : "]), 1)
    elif k == 1:
        s = s.replace(",", r.choice([", ", ",,", " ,"]))
    elif k == 2:
        s = s.rsplit(":", 1)[0] + ":" + r.choice(["2019", "", "2020a:", " 2018b"])
    elif k == 3:
        s = mutate(r, s)
    elif k == 4:
        s = s.replace("[", "").replace("]", r.choice(["", "]]"]))
    elif k == 5:
        s = "[" + s
    elif k == 6:
        i = r.randrange(len(s))
        s = s[:i] + " " + s[i:]
    return {"kind": "bid", "s": s}


VIDS = ["PM1", "PM2", "PM3", "PM4", "ST1", "KS2", "MB3", "KST4", "KST1", "PM0", "PM5", "PM9", "KST5", "pm1", "PM", "P1", "K1",
        "KSTT1", "KST", "KS", "XX1", "PMx", "PM ", "PM+", "PM-", "1PM", "", "1", "12", "123", "1234", "KS12", "ST11", "MB01",
        "KST12", "PM²", "PMM1", "TS1", "SK1"]


def gen_tamper_case(r, triples):
    c = gen_sol_case(r, triples, n=r.choice([1, 2, 3]))
    vs = [f"{m}{t}" for m, t, _, _ in c["pps"]]
    ks = [k for _, _, k, _ in c["pps"]]
    sc, ver = printed(c["raw"]), c["raw"]["version"]
    k = r.randrange(6)
    if k == 0:
        vs = vs[:-1]
    elif k == 1:
        ks = ks[:-1]
    elif k == 2:
        ver = r.choice(["2019", "2018b", "2020a"])
    elif k == 3:
        vs[-1] = vs[-1][:-1] + r.choice("12345x")
    elif k == 4:
        m = c["pps"][-1][0]
        ks[-1] = r.choice(["JB1", "WX1", "MW1", "XX1", "jb1"]) if m == "PM" else r.choice(["SA1", "SM3", "TR1", "TR2", ""])
    else:
        sc = mutate(r, sc).replace(":", "")
    br = (lambda l: l[0] if len(l) == 1 else "[" + ",".join(l) + "]")
    if not vs or not ks:
        vs, ks = vs or [""], ks or [""]
    c.update(kind="tamper", bid=f"{br(vs)}:{br(ks)}:{sc}:{ver}")
    return c


# ------------------------------------------------------------------------------------------------ entry points

def run(ctx):
    import glob, json, os
    from common import CORPUS_DIR
    r = ctx.rng
    corpus = [json.load(open(p)) for p in sorted(glob.glob(os.path.join(CORPUS_DIR, "C13", "*.json")))]
    if corpus:
        run_batch(ctx, corpus)
    triples = supported_triples()
    cases = []
    prod = product_cases()
    prod = prod[ctx.worker::max(1, ctx.workers)]     # the full product, split over the workers
    cases += prod
    cases += [{"kind": "sid", "raw": gen_valid_raw(r)} for _ in range(ctx.n(3000))]
    cases += [{"kind": "sid", "raw": gen_outside_raw(r)} for _ in range(ctx.n(1200))]
    cases += [gen_parse_case(r) for _ in range(ctx.n(2500))]
    # every supported (model, type, cost) triple once as a single solution, then random single / cooperative ones
    for tr in triples:
        cases.append({"kind": "sol", "raw": gen_valid_raw(r), "pps": [list(tr) + [r.randrange(1000)]]})
    cases += [gen_sol_case(r, triples) for _ in range(ctx.n(500))]
    cases += [gen_bid_case(r, triples) for _ in range(ctx.n(600))]
    cases += [{"kind": "vid", "s": s} for s in VIDS]
    cases += [gen_tamper_case(r, triples) for _ in range(ctx.n(150))]
    run_batch(ctx, cases)


search = run


def replay(ctx, case):
    run_batch(ctx, [case])


class _Probe:
    """minimal stand-in for Ctx while shrinking: runs the oracle (implementation only), records failure keys"""

    def __init__(self):
        self.keys, self.excluded = set(), 0

    def fail(self, key, what, case, detail=None):
        self.keys.add(key)

    def tag(self, *a):
        pass


def _still_fails(case, key):
    warnings.filterwarnings("ignore")
    pr = _Probe()
    try:
        if case["kind"] == "sid":
            if not is_valid_raw(case["raw"]):
                return False
            impl, objs = impl_sid(case["raw"])
            oracle_sid(pr, case, impl, objs)
        elif case["kind"] == "sol":
            if not is_valid_raw(case["raw"]) or not case["pps"]:
                return False
            sid, sol = mk_solution(case["raw"], case["pps"])
            oracle_sol(pr, case, sid, sol, sol.benchmark_id)
        else:
            return False
    except Exception:  # noqa
        return False
    return key in pr.keys


def shrink(case, key):
    """greedy: simpler field values / fewer planning problems while the same finding key is still produced"""
    import copy
    if case.get("kind") not in ("sid", "sol") or not _still_fails(case, key):
        return case
    cur = copy.deepcopy(case)

    def attempt(mut):
        nonlocal cur
        cand = copy.deepcopy(cur)
        try:
            mut(cand)
        except Exception:  # noqa
            return
        if cand != cur and _still_fails(cand, key):
            cur = cand

    if cur["kind"] == "sol":
        for _ in range(4):
            for i in range(len(cur["pps"])):
                attempt(lambda c, i=i: c["pps"].pop(i))
        for i in range(len(cur["pps"])):
            attempt(lambda c, i=i: c["pps"].__setitem__(i, ["PM", 1, "JB1", c["pps"][i][3]]))
            attempt(lambda c, i=i: c["pps"][i].__setitem__(3, i + 1))
    for k, v in (("coop", False), ("country", "ZAM"), ("map_name", "a"), ("map_id", 1), ("version", "2020a"), ("config", None),
                 ("config", 1), ("pred", None), ("pred", 1), ("pred", [1, 2]), ("beh", None)):
        attempt(lambda c, k=k, v=v: c["raw"].__setitem__(k, v))
    if isinstance(cur["raw"]["pred"], list):
        for _ in range(4):
            attempt(lambda c: c["raw"]["pred"].pop())
        attempt(lambda c: c["raw"].__setitem__("pred", [min(x, 10) for x in c["raw"]["pred"]]))
    for k in ("map_id", "config", "pred"):
        if isinstance(cur["raw"][k], int):
            for v in (2, 10, 11, 100, 101):
                if cur["raw"][k] > v:
                    attempt(lambda c, k=k, v=v: c["raw"].__setitem__(k, v))
    return cur
