"""C13 — benchmark ids print and parse consistently.
model: lean/CRModel/BenchId.lean; theorems: lean/CRProps/C13.lean (helper lemmas lean/CRProofs/BenchId*.lean).

Streams (a *case* is a JSON dict with a "kind"):
  sid      all eight constructor arguments of a ScenarioID (valid, or deliberately outside the property's domain)
           impl: ScenarioID(...), str(), from_benchmark_id(str, version), str() again  vs  model mk/print/parse/print
           oracle (valid ids only): grammar (own regex, not the code's), parse-back equality field by field, ==, hash, same print
  sidkw    ANY SUBSET of the constructor arguments (all 256 given/omitted masks every run), leading ones positionally,
           explicit None, numbers as numpy int64                     vs  model Kw.fill / mk / print / parse      (+ same oracle)
  hist     a constructed id, then a history: attributes re-assigned (plain attributes, the cleaning map_name setter, the
           validating country_id setter incl. rejected values, the same object handed back, the prediction list mutated in
           place), interleaved with read-only queries (str, hash, ==, country_name, deepcopy, pickle, from_benchmark_id via
           the instance)                                             vs  model runOps / print / parse             (+ same oracle)
  parse    an arbitrary string + version through ScenarioID.from_benchmark_id (class / instance / keyword call)  vs  model parse
  file     a Scenario carrying the id written by CommonRoadFileWriter (XML / protobuf) and read back: the header id
           impl vs model parse(print, version of the header); oracle: equal id (version as the header carries it), same print
  sol      ScenarioID + list of (vehicle model, vehicle type, cost function, planning problem id, trajectory kind) + Solution
           options (date / computation_time / processor_name given or not) + reader entry point (fromstring of a pretty / raw
           dump, open of a written file with given / default file name) + read-only queries before the observation
           impl: Solution.benchmark_id; CommonRoadSolutionReader._parse_benchmark_id/_parse_vehicle_id on it; and the full
           CommonRoadSolutionWriter -> CommonRoadSolutionReader path  vs  model benchmarkId/readSolutionIds
           oracle: same models, types, cost functions, scenario id, version come back (static path and XML path)
  solhist  a Solution, then a history: vehicle_model / vehicle_type / cost_function / trajectory setters on the held objects
           (incl. rejected ones), the list re-assigned (permuted, subset, same list handed back, reversed, repeated planning
           problem ids), scenario_id re-assigned or mutated in place, queries in between
           impl vs model stepSol / SolState.benchmarkId / readSolutionIds; oracle as for sol on the CURRENT state
  twice    the SAME benchmark id / solution document / scenario id string through a parser entry point several times
           (_parse_benchmark_id, fromstring, open of two files, from_benchmark_id): two results alive at once must not share
           mutable parts, and after the first result was edited in place (scenario id attributes, prediction list, returned
           id lists, planning problem solutions) a later call must still return what the string says
           impl (last call) vs model parseBenchmarkId / readSolutionIds / parse; oracle: no aliasing, later call == the solution
  bid/vid  arbitrary strings through _parse_benchmark_id / _parse_vehicle_id vs model   (correspondence only)
  tamper   a written solution XML whose benchmark_id attribute was replaced, through fromstring vs model readSolutionIds
  tables   the enums / constants of the working tree (VehicleModel, VehicleType, CostFunction, SupportedCostFunctions,
           TrajectoryType.valid_vehicle_model, supported versions) vs the model's tables
DIMENSIONS (below) lists every constructor parameter, attribute and public member of the anchored classes with the way it is
varied; `check_dimensions` compares it with the working tree on every run (unknown member => exit 2).
"""
import copy
import re
import traceback
import warnings

from common import InfraError

RULE = ("scenario ids: full product over small value sets (cooperative x {ZAM, two ISO codes, None} x 7 map names x 6 map ids x "
        "11 shapes of configuration/behaviour/prediction) in shuffled chunks + random ids (all 250 ISO codes, alphanumeric names "
        "1..40 chars, numbers up to 10^40, prediction lists of 2..5) + ids outside the domain (one-element prediction list, "
        "0 / negative / empty values, unknown country or behaviour, non-alphanumeric names, unsupported version) + keyword "
        "construction with every one of the 256 given/omitted argument masks (x positional prefix, explicit None, numpy int64), "
        "every ISO code + ZAM once + attribute histories (1..8 assignments / in-place edits / rejected assignments / read-only "
        "queries, valid and invalid final states) + strings for the parser (printed ids with one character deleted / inserted / "
        "replaced, leading zeros, garbage; class / instance / keyword call) + ids through scenario file headers (XML, protobuf); "
        "repeated calls of one parser entry point on one string with in-place edits of the earlier result in between; solutions: 1..8 (rarely 20) planning problems over all supported (vehicle model, vehicle type, cost function) triples "
        "with input and state trajectories, unsorted / large / zero planning problem ids, Solution options, four reader entry "
        "points, queries first; solution histories (setters, list / scenario id re-assigned or mutated, repeated ids); "
        "distinct = distinct canonical JSON of the case; non-trivial = every case (each one runs constructor, print and parse)")
ASSUMPTIONS = [
    "iso3166.countries_by_alpha3 keys are three upper-case ASCII letters (checked at the start of every run; hypothesis "
    "`CountriesOk` of the theorems)",
    "Python re: `benchmark_id_pattern.fullmatch` denotes the deterministic matcher `matchId` (proved in Lean to accept exactly the "
    "denotational grammar idRE, C13_pattern_iff_grammar; compared with the real regex on >= 2500 well- and ill-formed strings per run)",
    "str(int) / int(str) are decimal printing / reading (modelled digit by digit; compared on numbers up to 10^40)",
    "input strings are ASCII except where noted (Python's int() also accepts non-ASCII decimal digits in _parse_vehicle_id)",
    "the cooperative flag is a Python bool and numbers are Python ints or numpy integers: numpy.bool_ / 1 / 'yes' as flag "
    "(`cooperative is True` is False for them), bool / float / str as number, tuples / arrays as prediction list are outside "
    "the quantifier (no verdict)",
    "a ScenarioID whose attributes were re-assigned is judged on the values it then holds: it is a valid id iff these values "
    "are in the domain AND complete the way the constructor leaves them (behaviour => configuration id and prediction id "
    "present; a prediction list has >= 2 entries) — `IdOk` of the theorems; other states are compared with the model only",
    "a scenario FILE carries one commonRoadVersion for the whole file: the XML writer always writes 2020a, so an id of version "
    "2018b comes back with version 2020a (all other fields and the print must agree); the protobuf writer stores the id's version",
    "a Solution is judged on the planning problem solutions it currently holds (getter order) and its current scenario_id; "
    "a CommonRoadSolutionWriter serialises at construction, so it is constructed after the history; an empty list of "
    "planning problem solutions is outside the quantifier ('lists of them' are non-empty)",
]
TRUSTED = ["XML attribute write/read of the benchmark id (ElementTree) is the identity on these ASCII strings (sampled by the XML path)"]
EXTRA_MODULES = ["CRProps.T13"]      # translator tie: Gen.SrcC13 (regenerated from the working tree every run) = hand model
REQUIRED_BUCKETS = ["sid/map-only", "sid/config-only", "sid/behaviour-default-prediction", "sid/prediction-int",
                    "sid/prediction-list", "sid/cooperative", "sid/big-number", "sid/outside-domain", "sid/one-element-list",
                    "sid/ctor-error", "parse/malformed", "parse/well-formed", "sol/single", "sol/cooperative", "sol/xml-path",
                    "bid/malformed", "vid", "tamper", "tamper/compared",
                    # generator audit (dimension table below)
                    "dims/checked", "tables", "kw/all-256-masks", "kw/nothing-given", "kw/positional", "kw/explicit-none",
                    "kw/behaviour-without-prediction", "kw/configuration-without-behaviour", "kw/behaviour-without-configuration",
                    "kw/prediction-without-behaviour", "kw/map-id-only", "np/int64", "country/all-iso+ZAM", "name/long",
                    "name/digits-only", "name/mixed-case", "hist/valid-final", "hist/outside-final", "hist/rejected-assignment",
                    "hist/map-name-cleaned", "hist/pred-list-in-place", "hist/same-object-back", "hist/query-between",
                    "hist/deepcopy", "hist/pickle", "hist/tail-switch", "hist/version-set", "hist/country-none-assigned", "hist/start-parsed", "solhist/read-back-first", "parse/via-instance",
                    "parse/via-keyword", "file/xml", "file/protobuf", "file/2018b", "sol/len>=5", "sol/len-20", "sol/traj-state",
                    "sol/traj-input", "sol/three-letter-model", "sol/all-supported-triples", "sol/entry/fromstring-pretty",
                    "sol/entry/fromstring-raw", "sol/entry/open", "sol/entry/open-default-name", "sol/date-none",
                    "sol/date-given", "sol/computation-time", "sol/processor-name", "sol/pids-unsorted", "sol/pid-zero",
                    "sol/pid-large", "sol/queries-first", "sol/same-cost-everywhere", "solhist/setter", "solhist/setter-rejected",
                    "solhist/list-reassigned", "solhist/same-list-back", "solhist/repeated-pid", "solhist/sid-reassigned",
                    "solhist/sid-mutated", "solhist/query-between", "solhist/trajectory-set", "solhist/ctor-rejected",
                    "solhist/oracle",
                    # round-5 follow-up: histories across several parser / reader calls on one string
                    "twice/static", "twice/fromstring", "twice/open", "twice/sid", "twice/edit-sid", "twice/edit-id-lists",
                    "twice/edit-pps", "twice/edit-prediction-list", "twice/no-edit"]

VERSIONS = ["2020a", "2018b"]
_ID_GRAMMAR = re.compile(r"(C-)?[A-Z]{3}_[A-Za-z0-9]+-[1-9][0-9]*(_[1-9][0-9]*(_[STPI](-[1-9][0-9]*)+)?)?", re.ASCII)
_ALNUM = "abcdefghijklmnopqrstuvwxyzABCDEFGHIJKLMNOPQRSTUVWXYZ0123456789"
_countries = None


def countries():
    global _countries
    if _countries is None:
        import iso3166
        cs = sorted(iso3166.countries_by_alpha3)
        if not all(len(c) == 3 and c.isascii() and c.isalpha() and c.isupper() for c in cs) or not cs:
            raise InfraError("iso3166.countries_by_alpha3 is not a table of three upper-case ASCII letters")
        _countries = cs
    return _countries


# ------------------------------------------------------------------------------------------------ dimension table

# Every constructor parameter ("ctor"), instance attribute ("attrs") and class member ("members") of the classes the property
# anchors, with how the generators vary it / why it cannot matter.  `check_dimensions` compares the table with the working
# tree on every run: a parameter, attribute or member the table does not know (or one that disappeared) stops the run with
# exit 2 (`dimensions_verdict`) unless the run found a failing input anyway, which is then reported as usual.
DIMENSIONS = {
    "commonroad.scenario.scenario.ScenarioID": {
        "ctor": {
            "cooperative": "given (True / False) or omitted: sidkw masks; positional or keyword; re-assigned: hist `coop`",
            "country_id": "given (each of the 250 ISO codes, ZAM, explicit None, unknown codes) or omitted; re-assigned incl. rejected",
            "map_name": "given (1..40 alphanumerics, digits only, mixed case, id look-alikes; non-alphanumerics outside) or omitted; "
                        "re-assigned incl. names the setter cleans and the same string handed back",
            "map_id": "given (1 .. 10^40, int or numpy int64; 0 / negative outside) or omitted; re-assigned",
            "configuration_id": "given, explicit None or omitted, in every combination with behaviour / prediction; re-assigned",
            "obstacle_behavior": "given (S, T, P, I; others outside), explicit None or omitted, with / without configuration and "
                                 "prediction id; re-assigned",
            "prediction_id": "given (int, list of 2..5, numpy; one-element / empty list, 0, negative outside), explicit None or "
                             "omitted, with / without behaviour; re-assigned; list mutated in place; same list handed back",
            "scenario_version": "given (2020a, 2018b; unsupported outside) or omitted; re-assigned",
        },
        "attrs": {
            "scenario_version": "hist `version`", "cooperative": "hist `coop`", "_country_id": "hist `country` (setter)",
            "_map_name": "hist `map_name` (setter)", "map_id": "hist `map_id`", "obstacle_behavior": "hist `beh`",
            "configuration_id": "hist `config`", "prediction_id": "hist `pred`, `pred_append`",
        },
        "members": {
            "__init__": "sid, sidkw", "__str__": "observation; hist query `str` before further assignments",
            "__eq__": "oracle (both directions, fresh id of the same values, other type); hist query `eq`",
            "__hash__": "oracle (parsed vs constructed, fresh id of the same values); hist query `hash`",
            "benchmark_id_pattern": "class constant; compared with the model matcher on the parse stream",
            "from_benchmark_id": "parse stream: via class, via an instance of another id, version by keyword; on ids printed by "
                                 "constructed / mutated / copied ids, by Solution.benchmark_id and by file headers; the same string "
                                 "several times with the earlier result edited in between (twice)",
            "map_name": "property + cleaning setter: hist", "country_id": "property + validating setter: hist",
            "country_name": "read-only: hist query", "prediction_type": "deprecated read-only alias: hist query",
        },
    },
    "commonroad.common.solution.PlanningProblemSolution": {
        "ctor": {
            "planning_problem_id": "0, small, large (10^12), unsorted, gaps, repeated (solhist); not in the benchmark id",
            "vehicle_model": "every member incl. the three-letter KST; re-assigned through the setter incl. rejected (solhist)",
            "vehicle_type": "every member; re-assigned (plain attribute)",
            "cost_function": "every member supported for the model; unsupported -> rejected; re-assigned incl. rejected",
            "trajectory": "input vector / PM input vector / state trajectory of the model; re-assigned through the setter; "
                          "states and time steps are C14's subject",
        },
        "attrs": {
            "planning_problem_id": "ctor", "_vehicle_model": "setter", "vehicle_type": "assignment", "_cost_function": "setter",
            "_trajectory": "setter", "_trajectory_type": "derived by ctor / trajectory setter; decides which models the setter admits",
        },
        "members": {
            "__init__": "sol, solhist", "_check_cost_supported": "ctor / setters: rejected combinations (solhist, tables)",
            "_check_trajectory_supported": "ctor / setters: rejected combinations (solhist, tables)",
            "vehicle_model": "solhist `model`", "cost_function": "solhist `cost`", "trajectory": "solhist `traj`",
            "trajectory_type": "read-only: query", "vehicle_id": "observation (part of the benchmark id); query",
            "cost_id": "observation (part of the benchmark id); query",
        },
    },
    "commonroad.common.solution.Solution": {
        "ctor": {
            "scenario_id": "every id shape of the sid streams; re-assigned / mutated in place after construction (solhist)",
            "planning_problem_solutions": "1..8 (rarely 20) entries, all the same / all different cost functions, any id order; "
                                          "re-assigned: permutation, subset, same list, reversed, repeated ids (solhist)",
            "date": "omitted / None / given: header attribute only",
            "computation_time": "omitted / None / float / int: header attribute only",
            "processor_name": "omitted / None / a name / 'auto': header attribute only",
        },
        "attrs": {
            "scenario_id": "solhist `sid`, `sidset`", "_planning_problem_solutions": "solhist `setpps`, `same`, `rev`",
            "date": "ctor", "_computation_time": "ctor", "processor_name": "ctor",
        },
        "members": {
            "__init__": "sol, solhist", "planning_problem_solutions": "getter / setter: solhist",
            "benchmark_id": "observation; queried repeatedly between operations",
            "vehicle_ids": "read-only: query before the observation", "cost_ids": "read-only: query",
            "planning_problem_ids": "read-only: query", "trajectory_types": "read-only: query",
            "computation_time": "property + validating setter: ctor values",
            "create_dynamic_obstacle": "read-only (builds new objects): query on state trajectories",
        },
    },
    "commonroad.common.solution.CommonRoadSolutionReader": {
        "ctor": {},
        "attrs": {},
        "members": {
            "open": "entry point: sol `entry` = open / open-default-name; two files with one benchmark id (twice)",
            "fromstring": "entry point: sol `entry` = fromstring-*; tamper; one document read repeatedly (twice)",
            "_parse_solution": "behind both entry points", "_parse_header": "behind both entry points (date / time / processor given or not)",
            "_parse_planning_problem_solution": "behind both entry points; tamper (unknown cost / vehicle ids)",
            "_parse_trajectory": "C14's subject (exceptions from it exclude the XML path only)",
            "_parse_sub_element": "C14's subject", "_parse_state": "C14's subject",
            "_parse_benchmark_id": "static path of sol / solhist; bid stream (malformed); called repeatedly on one string with the "
                                   "earlier result edited in between (twice)", "_parse_vehicle_id": "static path; vid stream",
        },
    },
    "commonroad.common.solution.CommonRoadSolutionWriter": {
        "ctor": {"solution": "every sol / solhist case (constructed after the history: it serialises at construction)"},
        "attrs": {"solution": "ctor", "_solution_root": "built at construction"},
        "members": {
            "__init__": "sol, solhist", "dump": "pretty True / False; called twice on one writer (entry `open` also dumps)",
            "write_to_file": "given file name / default name solution_<benchmark id>.xml; overwrite=True; pretty True / False",
            "_get_processor_name": "processor_name='auto' (header attribute only)", "_serialize_solution": "behind __init__",
            "_create_root_node": "behind __init__: writes Solution.benchmark_id", "_create_trajectory_node": "C14's subject",
            "_create_sub_element": "C14's subject", "_create_state_node": "C14's subject",
        },
    },
}
ENUM_DIMENSIONS = {      # members known to the Lean model (CRModel/BenchId.lean: VModel, VType, Cost); compared by `tables`
    "VehicleModel": ["PM", "ST", "KS", "MB", "KST"], "VehicleType": ["FORD_ESCORT", "BMW_320i", "VW_VANAGON", "TRUCK"],
    "CostFunction": ["JB1", "SA1", "WX1", "SM1", "SM2", "SM3", "MW1", "TR1"],
    "SupportedCostFunctions": ["PM", "ST", "KS", "MB", "KST"],
    "TrajectoryType": ["MB", "ST", "KS", "KST", "PM", "Input", "PMInput"],
}
_IGNORED_CLASS_KEYS = {"__module__", "__dict__", "__weakref__", "__doc__", "__annotations__", "__qualname__", "__firstlineno__",
                       "__static_attributes__", "__annotate__", "__annotations_cache__"}
_dims_checked = False


def _probe_instances():
    """one instance per class, to read the instance attributes the constructors create"""
    from commonroad.common.solution import (CommonRoadSolutionWriter, CostFunction, PlanningProblemSolution, Solution,
                                            VehicleModel, VehicleType)
    from commonroad.scenario.scenario import ScenarioID
    sid = ScenarioID()
    pps = PlanningProblemSolution(1, VehicleModel.KS, VehicleType.BMW_320i, CostFunction.SA1, _trajectory("KS", "input"))
    sol = Solution(sid, [pps])
    return {"ScenarioID": sid, "PlanningProblemSolution": pps, "Solution": sol, "CommonRoadSolutionReader": None,
            "CommonRoadSolutionWriter": CommonRoadSolutionWriter(sol)}


def check_dimensions(ctx):
    """DIMENSIONS / ENUM_DIMENSIONS against the working tree (once per process)."""
    global _dims_checked
    if _dims_checked:
        ctx.tag("dims/checked")
        return
    import importlib
    import inspect
    problems = []
    try:
        inst = _probe_instances()
    except Exception as e:  # noqa
        raise InfraError(f"C13 dimension check: cannot build the probe objects: {type(e).__name__}: {e}")
    for path, table in DIMENSIONS.items():
        modname, clsname = path.rsplit(".", 1)
        C = getattr(importlib.import_module(modname), clsname)
        sig = [q for q in inspect.signature(C.__init__).parameters if q != "self"] if "__init__" in C.__dict__ else []
        if sig != list(table["ctor"]):
            problems.append(f"{clsname}.__init__ parameters are {sig}, the dimension table has {list(table['ctor'])}")
        members = sorted(k for k in C.__dict__ if k not in _IGNORED_CLASS_KEYS)
        for k in members:
            if k not in table["members"]:
                problems.append(f"{clsname}.{k} is a member the dimension table does not know")
        for k in table["members"]:
            if k not in members:
                problems.append(f"{clsname}.{k} is in the dimension table but not in the class any more")
        if inst[clsname] is not None:
            attrs = sorted(vars(inst[clsname]))
            for k in attrs:
                if k not in table["attrs"]:
                    problems.append(f"{clsname} instances have an attribute {k} the dimension table does not know")
            for k in table["attrs"]:
                if k not in attrs:
                    problems.append(f"{clsname}.{k} is in the dimension table but instances do not have it")
    import commonroad.common.solution as S
    for ename, names in ENUM_DIMENSIONS.items():
        real = list(getattr(S, ename).__members__)        # incl. aliases (SupportedCostFunctions.KS is ST's value)
        if sorted(real) != sorted(names):
            problems.append(f"enum {ename} has members {real}, the model's table has {names}")
    for fname, params in (("from_benchmark_id", ["benchmark_id", "scenario_version"]),):
        from commonroad.scenario.scenario import ScenarioID
        sig = list(inspect.signature(getattr(ScenarioID, fname)).parameters)
        if sig != params:
            problems.append(f"ScenarioID.{fname} parameters are {sig}, the harness calls it with {params}")
    from commonroad.common.solution import CommonRoadSolutionWriter
    for fname, params in (("dump", ["self", "pretty"]), ("write_to_file", ["self", "output_path", "filename", "overwrite", "pretty"])):
        sig = list(inspect.signature(getattr(CommonRoadSolutionWriter, fname)).parameters)
        if sig != params:
            problems.append(f"CommonRoadSolutionWriter.{fname} parameters are {sig}, the harness knows {params}")
    _dims_checked = True
    _dims_problems[:] = problems
    ctx.tag("dims/checked")


_dims_problems = []


def dimensions_verdict(ctx):
    """called at the end of a run: a member / parameter / attribute the table does not know means the generators may not reach
    what it influences.  If the histories nevertheless exposed a failure (e.g. a new cache attribute gone stale) that finding is
    reported; otherwise the run stops with exit 2 instead of claiming coverage it does not have."""
    if _dims_problems and not ctx.failures and not ctx.disagreements:
        raise InfraError("C13 dimension table is out of date (extend DIMENSIONS and the generators):\n  " + "\n  ".join(_dims_problems))


# ------------------------------------------------------------------------------------------------ implementation side

ORDER = ["coop", "country", "map_name", "map_id", "config", "beh", "pred", "version"]            # signature order
PARAM = {"coop": "cooperative", "country": "country_id", "map_name": "map_name", "map_id": "map_id",
         "config": "configuration_id", "beh": "obstacle_behavior", "pred": "prediction_id", "version": "scenario_version"}
# the documented defaults of ScenarioID(...) (docstring / signature of the release), stated here independently of the code
DEFAULTS = {"coop": False, "country": "ZAM", "map_name": "Test", "map_id": 1, "config": None, "beh": None, "pred": None,
            "version": "2020a"}


def _py(v):
    """numpy integers -> int (canonical form; the generators hand numpy int64 to the constructor in the `np` cases)"""
    import numpy as np
    if isinstance(v, np.integer):
        return int(v)
    return v


def sid_fields(o):
    """canonical form of a ScenarioID object: the eight attributes __eq__ compares"""
    p = o.prediction_id
    return {"coop": o.cooperative, "country": o.country_id, "map_name": o.map_name, "map_id": _py(o.map_id),
            "config": _py(o.configuration_id), "beh": o.obstacle_behavior,
            "pred": [_py(x) for x in p] if isinstance(p, list) else _py(p), "version": o.scenario_version}


def _err(e):
    from common import err_class
    return {"err": err_class(e)}


def _conv(key, v, np_=False):
    """JSON value of a case -> the Python value handed to the code (fresh list; numpy int64 on request)"""
    if isinstance(v, list):
        return [_conv(key, x, np_) for x in v]
    if np_ and isinstance(v, int) and not isinstance(v, bool) and abs(v) < 2 ** 62:
        import numpy as np
        return np.int64(v)
    return v


def mk_sid(raw, np_=False):
    from commonroad.scenario.scenario import ScenarioID
    return ScenarioID(cooperative=raw["coop"], country_id=raw["country"], map_name=raw["map_name"],
                      map_id=_conv("map_id", raw["map_id"], np_), configuration_id=_conv("config", raw["config"], np_),
                      obstacle_behavior=raw["beh"], prediction_id=_conv("pred", raw["pred"], np_),
                      scenario_version=raw["version"])


def mk_sid_kw(case):
    """ScenarioID(*leading, **rest): only the arguments the case gives"""
    from commonroad.scenario.scenario import ScenarioID
    kw, pos, np_ = case["kw"], case.get("pos", 0), case.get("np", False)
    vals = {k: _conv(k, v, np_) for k, v in kw.items()}
    return ScenarioID(*[vals[k] for k in ORDER[:pos]], **{PARAM[k]: vals[k] for k in ORDER[pos:] if k in vals})


def fill_kw(kw):
    return {k: kw.get(k, DEFAULTS[k]) for k in ORDER}


def obj_record(o):
    """print, parse of the print, print of the parse — same shape as the driver's `idRecord`"""
    from commonroad.scenario.scenario import ScenarioID
    f = sid_fields(o)
    s = str(o)
    try:
        back = ScenarioID.from_benchmark_id(s, o.scenario_version)
        parsed, restr = {"ok": sid_fields(back)}, str(back)
    except Exception as e:  # noqa
        back, parsed, restr = None, _err(e), None
    return {"id": f, "str": s, "parsed": parsed, "restr": restr}, (o, s, back)


def impl_sid(raw, np_=False, ctor=None):
    """constructor, print, parse of the print, print of the parse — same shape as driver op `sid`"""
    try:
        o = ctor() if ctor is not None else mk_sid(raw, np_)
    except Exception as e:  # noqa
        return _err(e), None
    try:
        rec, objs = obj_record(o)
    except Exception as e:  # noqa  (printing / hashing the constructed id raises)
        return _err(e), None
    return {"ok": rec}, objs


def impl_parse(s, ver, via="class"):
    from commonroad.scenario.scenario import ScenarioID
    try:
        if via == "instance":          # the classmethod reached through an instance of some other id
            o = ScenarioID(True, "DEU", "Other", 7, 3, "P", [2, 9], "2018b").from_benchmark_id(s, ver)
        elif via == "keyword":
            o = ScenarioID.from_benchmark_id(scenario_version=ver, benchmark_id=s)
        else:
            o = ScenarioID.from_benchmark_id(s, ver)
    except Exception as e:  # noqa
        return _err(e)
    return {"ok": {"id": sid_fields(o), "str": str(o)}}


ATTR = {"coop": "cooperative", "country": "country_id", "map_name": "map_name", "map_id": "map_id",
        "config": "configuration_id", "beh": "obstacle_behavior", "pred": "prediction_id", "version": "scenario_version"}


def apply_id_op(o, op, raw):
    """one step of an id history; returns the (possibly replaced) object, raises what the code raises"""
    import pickle
    from commonroad.scenario.scenario import ScenarioID
    name = op[0]
    if name in ATTR:
        setattr(o, ATTR[name], _conv(name, op[1]))
    elif name == "pred_append":
        o.prediction_id.append(op[1])
    elif name.startswith("same:"):
        a = ATTR[name[5:]]
        setattr(o, a, getattr(o, a))
    elif name == "str":
        str(o)
    elif name == "hash":
        hash(o)
    elif name == "eq":
        assert (o == o) is True
        o == mk_sid(raw)       # noqa
        o == "abc"             # noqa  (other type: warns, False)
    elif name == "country_name":
        o.country_name         # noqa
    elif name == "prediction_type":
        o.prediction_type      # noqa
    elif name == "parse-self":
        ScenarioID.from_benchmark_id(str(o), o.scenario_version)
    elif name == "parse-other":
        o.from_benchmark_id("C-USA_US101-33_2_T-1-2", "2018b")
    elif name == "deepcopy":
        o = copy.deepcopy(o)
    elif name == "pickle":
        o = pickle.loads(pickle.dumps(o))
    else:
        raise InfraError(f"C13: unknown history op {name}")
    return o


def impl_hist(case):
    from common import err_class
    from commonroad.scenario.scenario import ScenarioID
    try:
        o = mk_sid(case["raw"])
        if case.get("start") == "parsed":       # the history runs on an id that came out of the parser
            o = ScenarioID.from_benchmark_id(str(o), o.scenario_version)
    except Exception as e:  # noqa
        return _err(e), None
    errs, prints = [], []
    for op in case["ops"]:
        try:
            o = apply_id_op(o, op, case["raw"])
            errs.append(None)
            if op[0] == "str":
                prints.append(str(o))
        except InfraError:
            raise
        except Exception as e:  # noqa
            errs.append(err_class(e))
    try:
        rec, objs = obj_record(o)
    except Exception as e:  # noqa
        return _err(e), None
    rec["errs"], rec["prints"] = errs, prints
    return {"ok": rec}, objs


def model_id_ops(case):
    """the history as the driver reads it: assignments as [name, value]; queries as [name, null]; the in-place append as the
    assignment of the resulting list"""
    out = []
    for op in case["ops"]:
        if op[0] == "pred_append":
            out.append(["pred", op[2]])
        elif op[0] in ATTR:
            out.append([op[0], op[1]])
        else:
            out.append([op[0], None])
    return out


def _trajectory(model_name, kind=None):
    """kind: 'input' (InputState), 'pminput' (PMInputState), or a model name (state trajectory of that model);
    None = the kind the first version of this harness used for the model"""
    import numpy as np
    import commonroad.scenario.state as S
    from commonroad.common.solution import StateFields
    from commonroad.scenario.trajectory import Trajectory
    if kind is None:
        kind = "pminput" if model_name == "PM" else "KST" if model_name == "KST" else "input"
    if kind == "pminput":
        sl = [S.PMInputState(acceleration=0.0, acceleration_y=0.0, time_step=t) for t in range(2)]
    elif kind == "input":
        sl = [S.InputState(steering_angle_speed=0.0, acceleration=0.0, time_step=t) for t in range(2)]
    else:
        cls = getattr(S, f"{kind}State")
        kw = {f: (np.array([0.0, 0.0]) if f == "position" else 0.0) for f in StateFields[kind].value if f != "time_step"}
        sl = [cls(time_step=t, **kw) for t in range(2)]
    return Trajectory(0, sl)


def _pp(p):
    """[model, type, cost, pid, (trajectory kind)] -> (model, type, cost, pid, kind)"""
    return p[0], p[1], p[2], p[3], (p[4] if len(p) > 4 else None)


def mk_pps(p):
    from commonroad.common.solution import CostFunction, PlanningProblemSolution, VehicleModel, VehicleType
    m, t, c, pid, kind = _pp(p)
    return PlanningProblemSolution(pid, VehicleModel[m], VehicleType(t), CostFunction[c], _trajectory(m, kind))


def mk_solution(raw, pps, opt=None):
    import datetime
    from commonroad.common.solution import Solution
    sid = mk_sid(raw)
    lst = [mk_pps(p) for p in pps]
    opt = opt or {}
    kw = {}
    if "date" in opt:
        kw["date"] = None if opt["date"] is None else datetime.datetime.strptime(opt["date"], "%Y-%m-%dT%H:%M:%S")
    if "ct" in opt:
        kw["computation_time"] = opt["ct"]
    if "proc" in opt:
        kw["processor_name"] = opt["proc"]
    return sid, Solution(sid, lst, **kw)


def static_read(bid, n):
    """the id part of CommonRoadSolutionReader._parse_solution, through the reader's own static functions"""
    from commonroad.common.solution import CommonRoadSolutionReader as R, CostFunction, SolutionReaderException
    vids, cids, sid = R._parse_benchmark_id(bid)
    vehicles, costs = [], []
    for idx in range(n):
        v, c = vids[idx], cids[idx]
        m, t = R._parse_vehicle_id(v)
        if c not in [cf.name for cf in CostFunction]:     # solution.py:707-709
            raise SolutionReaderException("Invalid Cost ID: " + c)
        vehicles.append([m.name, t.value])
        costs.append(CostFunction[c].name)
    return {"vehicles": vehicles, "costs": costs, "id": sid_fields(sid)}


def solution_fields(sol):
    pps = sol.planning_problem_solutions
    return {"vehicles": [[p.vehicle_model.name, p.vehicle_type.value] for p in pps],
            "costs": [p.cost_function.name for p in pps], "id": sid_fields(sol.scenario_id)}


SOL_QUERIES = ["bid", "vehicle_ids", "cost_ids", "planning_problem_ids", "trajectory_types", "str-sid", "hash-sid", "pps",
               "vehicle_id", "create_dynamic_obstacle"]


def sol_query(sol, name):
    """a read-only query on a Solution (exceptions of create_dynamic_obstacle on input trajectories are its documented limits)"""
    if name == "vehicle_ids":
        sol.vehicle_ids        # noqa
    elif name == "cost_ids":
        sol.cost_ids           # noqa
    elif name == "planning_problem_ids":
        sol.planning_problem_ids   # noqa
    elif name == "trajectory_types":
        sol.trajectory_types   # noqa
    elif name == "str-sid":
        str(sol.scenario_id)
    elif name == "hash-sid":
        hash(sol.scenario_id)
    elif name == "pps":
        for q in sol.planning_problem_solutions:
            q.vehicle_id, q.cost_id, q.trajectory_type     # noqa
    elif name == "vehicle_id":
        for q in sol.planning_problem_solutions:
            q.vehicle_id       # noqa
    elif name == "create_dynamic_obstacle":
        try:
            sol.create_dynamic_obstacle()
        except Exception:  # noqa  (needs positions: input vectors have none)
            pass
    else:
        sol.benchmark_id       # noqa


def impl_solhist(case):
    """returns (record, sol) — record has the shape of driver op `solhist`"""
    from commonroad.common.solution import CostFunction, Solution, VehicleModel, VehicleType
    try:
        sid = mk_sid(case["raw"])
    except Exception as e:  # noqa
        return _err(e), None
    try:
        objs = [mk_pps(p) for p in case["pps"]]
    except Exception as e:  # noqa
        return _err(e), None
    sol = Solution(sid, objs)
    if case.get("regen"):
        # second generation: the history runs on the Solution that came out of the reader (same ids by the property)
        from commonroad.common.solution import CommonRoadSolutionReader, CommonRoadSolutionWriter
        try:
            sol = CommonRoadSolutionReader.fromstring(CommonRoadSolutionWriter(sol).dump())
            objs = sol.planning_problem_solutions
        except Exception:  # noqa  (whatever prevents the read-back is met again, and judged, by the oracle on the final state)
            sol = Solution(sid, objs)
    errs, bids = [], []
    for op in case["ops"]:
        name = op[0]
        try:
            if name == "model":
                objs[op[1]].vehicle_model = VehicleModel[op[2]]
            elif name == "vtype":
                objs[op[1]].vehicle_type = VehicleType(op[2])
            elif name == "cost":
                objs[op[1]].cost_function = CostFunction[op[2]]
            elif name == "traj":
                objs[op[1]].trajectory = _trajectory(None, op[2])
            elif name == "setpps":
                sol.planning_problem_solutions = [objs[i] for i in op[1]]
            elif name == "same":
                sol.planning_problem_solutions = sol.planning_problem_solutions
            elif name == "rev":
                sol.planning_problem_solutions = list(reversed(sol.planning_problem_solutions))
            elif name == "sid":
                sol.scenario_id = mk_sid(op[1])
            elif name == "sidset":
                setattr(sol.scenario_id, ATTR[op[1]], _conv(op[1], op[2]))
            else:
                before = sol.benchmark_id
                sol_query(sol, name)
                bids.append(before)
            errs.append(False)
        except Exception:  # noqa
            errs.append(True)
    held = [[p.planning_problem_id, p.vehicle_model.name, p.vehicle_type.value, p.cost_function.name]
            for p in sol.planning_problem_solutions]
    bid = sol.benchmark_id
    try:
        read = {"ok": static_read(bid, len(held))}
    except Exception as e:  # noqa
        read = _err(e)
    return {"ok": {"bid": bid, "read": read, "held": held, "errs": errs, "bids": bids}}, sol


def model_sol_ops(case):
    out = []
    for op in case["ops"]:
        if op[0] in ("model", "vtype", "cost", "traj", "setpps", "sid", "sidset", "same", "rev"):
            out.append(list(op))
        else:
            out.append(["query"])                        # a read-only query
    return out


_NOT_ID_FRAMES = {"_parse_trajectory", "_parse_state", "_parse_sub_element", "_create_trajectory_node", "_create_state_node",
                  "_create_sub_element"}


def _outside_id_code(e):
    """exception raised while (de)serialising trajectories / states: not the benchmark id (property C14's subject)"""
    return any(fr.name in _NOT_ID_FRAMES for fr in traceback.extract_tb(e.__traceback__))


def impl_tables():
    import commonroad
    from commonroad.common.solution import (CostFunction, SupportedCostFunctions, TrajectoryType, VehicleModel, VehicleType)
    trajs = [("input", TrajectoryType.Input), ("pminput", TrajectoryType.PMInput)] + \
            [("state:" + m.name, TrajectoryType[m.name]) for m in VehicleModel]
    return {"models": [m.name for m in VehicleModel], "types": [t.value for t in VehicleType],
            "costs": [c.name for c in CostFunction],
            "supported": {m.name: [c.name for c in SupportedCostFunctions[m.name].value] for m in VehicleModel},
            "traj": {n: [m.name for m in VehicleModel if t.valid_vehicle_model(m)] for n, t in trajs},
            "versions": sorted(commonroad.SUPPORTED_COMMONROAD_VERSIONS), "default_version": commonroad.SCENARIO_VERSION,
            "default_name": DEFAULTS["map_name"]}


def impl_file(case, tmp):
    """the id through a scenario file header; returns (record | None if the file code fails outside the id, written version)"""
    import contextlib
    import io
    import os
    import commonroad
    from commonroad.common.file_reader import CommonRoadFileReader
    from commonroad.common.file_writer import CommonRoadFileWriter, OverwriteExistingFile
    from commonroad.common.util import FileFormat
    from commonroad.planning.planning_problem import PlanningProblemSet
    from commonroad.scenario.scenario import Scenario, Tag
    sid = mk_sid(case["raw"])
    fmt = FileFormat.XML if case["fmt"] == "xml" else FileFormat.PROTOBUF
    sc = Scenario(0.1, sid, author="a", tags={Tag.URBAN}, affiliation="b", source="c")
    path = os.path.join(tmp, "hdr" + (".xml" if case["fmt"] == "xml" else ".pb"))
    import logging
    logging.disable(logging.CRITICAL)          # "Default location will be written ...": not our subject
    with contextlib.redirect_stdout(io.StringIO()), contextlib.redirect_stderr(io.StringIO()):
        if case.get("default_name"):
            cwd = os.getcwd()
            os.chdir(tmp)
            try:
                CommonRoadFileWriter(sc, PlanningProblemSet(), file_format=fmt).write_to_file(
                    None, OverwriteExistingFile.ALWAYS)          # file name = str(scenario_id) + suffix
            finally:
                os.chdir(cwd)
            path = os.path.join(tmp, str(sid) + (".xml" if case["fmt"] == "xml" else ".pb"))
        else:
            CommonRoadFileWriter(sc, PlanningProblemSet(), file_format=fmt).write_to_file(path, OverwriteExistingFile.ALWAYS)
        sc2, _ = CommonRoadFileReader(path).open()
    logging.disable(logging.NOTSET)
    written_version = commonroad.SCENARIO_VERSION if case["fmt"] == "xml" else case["raw"]["version"]
    return sid, sc2.scenario_id, written_version


# ------------------------------------------------------------------------------------------------ oracle

def oracle_obj(ctx, case, rec, objs, what):
    """property sentence 1 on the real code, for an id object whose CURRENT values are valid (`what` = how it got them)"""
    o, s, back = objs
    if _ID_GRAMMAR.fullmatch(s) is None:
        ctx.fail("C13/ScenarioID.__str__/not-in-grammar", f"printed id {s!r} is not a CommonRoad benchmark id ({what})", case)
    if "err" in rec["parsed"]:
        ctx.fail(f"C13/from_benchmark_id/raises-{rec['parsed']['err']}", f"parsing the printed id {s!r} raises ({what})", case)
        return
    if rec["parsed"]["ok"] != rec["id"] or any(type(x) is not type(y) for x, y in
                                                zip(rec["parsed"]["ok"].values(), rec["id"].values())):
        diff = [k for k in rec["id"] if rec["id"][k] != rec["parsed"]["ok"][k]]
        ctx.fail("C13/from_benchmark_id/unequal-id/" + ("+".join(diff or ["type"]) if len(diff) <= 2 else "many-fields"),
                 f"{s!r} parses back to {rec['parsed']['ok']}, printed from {rec['id']} ({what})", case)
    elif not (back == o) or not (o == back) or (back != o):
        ctx.fail("C13/from_benchmark_id/unequal-id/__eq__", f"{s!r}: parsed id has equal fields but == is False ({what})", case)
    elif hash(back) != hash(o):
        ctx.fail("C13/from_benchmark_id/unequal-id/__hash__",
                 f"{s!r}: parsed id == printed id, but their hashes differ ({what})", case)
    if rec["restr"] != s:
        ctx.fail("C13/from_benchmark_id/prints-differently", f"{s!r} parses back to an id printing {rec['restr']!r} ({what})", case)
    # an id constructed afresh from the values this object holds is the same id: equal, same hash, same print
    try:
        fresh = mk_sid(rec["id"])
    except Exception as e:  # noqa
        ctx.fail(f"C13/ScenarioID.__init__/raises-{type(e).__name__}/from-own-values",
                 f"the values {rec['id']} of a valid id are rejected by the constructor: {e} ({what})", case)
        return
    if str(fresh) != s:
        ctx.fail("C13/ScenarioID.__str__/differs-from-fresh-id",
                 f"prints {s!r}, an id constructed from the same values {rec['id']} prints {str(fresh)!r} ({what})", case)
    elif not (fresh == o) or hash(fresh) != hash(o):
        ctx.fail("C13/ScenarioID.__eq__/differs-from-fresh-id",
                 f"{s!r}: an id constructed from the same values is not equal / hashes differently ({what})", case)


def oracle_sid(ctx, case, impl, objs, raw=None):
    """property sentence 1 on the real code, for *valid* constructor arguments `raw`"""
    raw = raw or case["raw"]
    if "err" in impl:
        ctx.fail(f"C13/ScenarioID.__init__/raises-{impl['err']}", f"valid scenario id fields rejected: {raw}", case)
        return
    o, s, back = objs
    r = impl["ok"]
    oracle_obj(ctx, case, r, objs, f"constructed from {raw}")
    # the id IS its fields: every argument that was given (not None) is what the object holds (omitted / None arguments are
    # the constructor's business: compared with the model, no verdict here)
    given = case["kw"] if "kw" in case else raw
    diff = [k for k in ORDER if given.get(k) is not None and r["id"][k] != given[k]]
    if diff:
        ctx.fail("C13/ScenarioID.__init__/fields-differ/" + "+".join(diff[:2]),
                 f"constructed with {given}: holds {r['id']}", case)
    # printing is a function of the CURRENT field values: print, reassign a field, print again (query -> mutate -> query)
    beh = {"S": "T", "T": "S", "P": "I", "I": "P"}
    for attr, key, new in (("map_id", "map_id", (raw["map_id"] or 1) + 1),
                           ("configuration_id", "config", (raw["config"] or 1) + 2),
                           ("obstacle_behavior", "beh", beh.get(raw["beh"], raw["beh"])),
                           ("cooperative", "coop", not raw["coop"])):
        if raw.get("beh") is None and attr != "map_id":
            continue                       # map ids have no configuration part to vary
        raw2 = dict(raw, **{key: new})
        try:
            fresh = str(mk_sid(raw2))
            o2 = mk_sid(raw)
            str(o2)
            setattr(o2, attr, new)
            again = str(o2)
        except Exception:  # noqa  (not every neighbour is a valid id; construction problems are reported above)
            continue
        if again != fresh:
            ctx.fail(f"C13/ScenarioID.__str__/stale-after-setting/{attr}",
                     f"id printed as {s!r}, then {attr} = {new!r}: prints {again!r}, an id built with these fields prints {fresh!r}", case)
            break


_counter = [0]


def read_back(ctx, sol, entry, bid):
    """the Solution through writer and reader by the given entry point"""
    import os
    from commonroad.common.solution import CommonRoadSolutionReader, CommonRoadSolutionWriter
    w = CommonRoadSolutionWriter(sol)
    if entry == "fromstring-raw":
        return CommonRoadSolutionReader.fromstring(w.dump(pretty=False))
    if entry == "open":
        w.dump()                                            # one writer, used twice
        _counter[0] += 1
        if _counter[0] % 2:
            w.write_to_file(output_path=ctx.tmpdir(), filename="c13_solution.xml", overwrite=True, pretty=False)
            return CommonRoadSolutionReader.open(os.path.join(ctx.tmpdir(), "c13_solution.xml"))
        path = os.path.join(ctx.tmpdir(), f"c13_solution_{_counter[0]}.xml")       # a fresh file, overwrite left at its default
        w.write_to_file(ctx.tmpdir(), f"c13_solution_{_counter[0]}.xml")
        try:
            return CommonRoadSolutionReader.open(path)
        finally:
            os.unlink(path)
    if entry == "open-default-name":
        w.write_to_file(ctx.tmpdir(), overwrite=True)       # solution_<benchmark id>.xml
        path = os.path.join(ctx.tmpdir(), f"solution_{bid}.xml")
        try:
            return CommonRoadSolutionReader.open(path)
        finally:
            if os.path.exists(path):
                os.unlink(path)
    x = w.dump()
    assert x == w.dump()
    return CommonRoadSolutionReader.fromstring(x)


def oracle_sol(ctx, case, sid, sol, bid, want=None, entry="fromstring-pretty"):
    """property sentence 2 on the real code"""
    if want is None:
        want = {"vehicles": [[p[0], p[1]] for p in case["pps"]], "costs": [p[2] for p in case["pps"]], "id": sid_fields(sid)}
    n = len(want["vehicles"])
    klass = "single" if n == 1 else "cooperative"
    try:
        got = static_read(bid, n)
    except Exception as e:  # noqa
        ctx.fail(f"C13/_parse_benchmark_id/raises-{type(e).__name__}/{klass}", f"benchmark id {bid!r} of a {klass} solution "
                 f"cannot be parsed: {e}", case)
        got = None
    if got is not None:
        for k in ("vehicles", "costs", "id"):
            if got[k] != want[k]:
                ctx.fail(f"C13/_parse_benchmark_id/different-{k}/{klass}",
                         f"{bid!r} parses back to {k} {got[k]}, the solution has {want[k]}", case)
    # the scenario part is an id printed by another object: from_benchmark_id on it gives the solution's scenario id
    seg = bid.split(":")
    if len(seg) == 4:
        try:
            from commonroad.scenario.scenario import ScenarioID
            back = ScenarioID.from_benchmark_id(seg[2], seg[3])
            if not (back == sol.scenario_id) or str(back) != seg[2] or hash(back) != hash(sol.scenario_id):
                ctx.fail(f"C13/Solution.benchmark_id/scenario-part-differs/{klass}",
                         f"{bid!r}: its scenario part parses to {sid_fields(back)}, the solution has {want['id']}", case)
        except Exception as e:  # noqa
            ctx.fail(f"C13/Solution.benchmark_id/scenario-part-raises-{type(e).__name__}/{klass}",
                     f"{bid!r}: its scenario part cannot be parsed: {e}", case)
    else:
        ctx.fail(f"C13/Solution.benchmark_id/not-four-parts/{klass}", f"{bid!r} is not vehicles:costs:scenario:version", case)
    # XML path: fields of the Solution returned by CommonRoadSolutionReader.fromstring / open
    try:
        back = read_back(ctx, sol, entry, bid)
    except OSError:
        ctx.excluded += 1                                  # file name too long for the file system (default-name entry)
        return
    except Exception as e:  # noqa
        if _outside_id_code(e):
            ctx.excluded += 1
            ctx.tag("sol/xml-path-blocked-outside-id-code")
            return
        ctx.fail(f"C13/fromstring/raises-{type(e).__name__}/{klass}", f"solution with benchmark id {bid!r} cannot be read back "
                 f"({entry}): {e}", case)
        return
    ctx.tag("sol/xml-path")
    got = solution_fields(back)
    for k in ("vehicles", "costs", "id"):
        if got[k] != want[k]:
            ctx.fail(f"C13/fromstring/different-{k}/{klass}", f"{bid!r} read back ({entry}) with {k} {got[k]}, written with {want[k]}",
                     case)
    if back.benchmark_id != bid:
        ctx.fail(f"C13/fromstring/different-benchmark-id/{klass}", f"{bid!r} read back ({entry}) as {back.benchmark_id!r}", case)


# ------------------------------------------------------------------------------------------------ running cases (batched)

def norm_fields(raw):
    """the id a valid argument tuple denotes (defaults of the documentation: country None -> ZAM; a behaviour or a
    configuration makes it a scenario id with configuration 1 / prediction 1 unless given) — the harness' own statement"""
    is_map = raw["config"] is None and raw["beh"] is None and raw["pred"] is None
    return {"coop": raw["coop"], "country": raw["country"] or "ZAM", "map_name": raw["map_name"], "map_id": raw["map_id"],
            "config": None if is_map else (raw["config"] or 1), "beh": raw["beh"],
            "pred": (raw["pred"] or 1) if raw["beh"] is not None else raw["pred"], "version": raw["version"]}


def is_valid_raw(raw):
    """the property's domain, stated on the constructor arguments (narrow reading: a single prediction id is an int)"""
    p = raw["pred"]
    return (raw["version"] in VERSIONS and raw["coop"] in (True, False)
            and (raw["country"] is None or raw["country"] == "ZAM" or raw["country"] in countries())
            and isinstance(raw["map_name"], str) and raw["map_name"] != "" and raw["map_name"].isascii() and raw["map_name"].isalnum()
            and _posint(raw["map_id"]) and (raw["config"] is None or _posint(raw["config"]))
            and raw["beh"] in (None, "S", "T", "P", "I") and (p is None or raw["beh"] is not None)
            and (p is None or _posint(p) or (isinstance(p, list) and len(p) >= 2 and all(_posint(x) for x in p))))


def _posint(x):
    return isinstance(x, int) and not isinstance(x, bool) and x > 0


def is_valid_fields(f):
    """an id OBJECT holds a valid id: its values are in the domain and complete the way the constructor leaves them"""
    return (f["country"] is not None and is_valid_raw(f) and (f["beh"] is None or (f["config"] is not None and f["pred"] is not None))
            and norm_fields(f) == f)


def tag_sid(ctx, raw, valid):
    p = raw["pred"]
    if not valid:
        ctx.tag("sid/outside-domain")
        if isinstance(p, list) and len(p) == 1:
            ctx.tag("sid/one-element-list")
        return
    if raw["config"] is None and raw["beh"] is None:
        ctx.tag("sid/map-only")
    elif raw["beh"] is None:
        ctx.tag("sid/config-only")
    elif p is None:
        ctx.tag("sid/behaviour-default-prediction")
    elif isinstance(p, int):
        ctx.tag("sid/prediction-int")
    else:
        ctx.tag("sid/prediction-list")
    if raw["coop"]:
        ctx.tag("sid/cooperative")
    if raw["map_id"] >= 10 ** 12 or (raw["config"] or 0) >= 10 ** 12:
        ctx.tag("sid/big-number")
    name = raw["map_name"]
    if len(name) >= 20:
        ctx.tag("name/long")
    if name.isdigit():
        ctx.tag("name/digits-only")
    if any(c.islower() for c in name) and any(c.isupper() for c in name):
        ctx.tag("name/mixed-case")
    _seen["countries"].add(raw["country"] or "ZAM")
    if len(_seen["countries"]) == len(set(countries()) | {"ZAM"}) and not _seen.get("countries-tagged"):
        _seen["countries-tagged"] = True
        ctx.tag("country/all-iso+ZAM")


_seen = {"countries": set(), "masks": set(), "triples": set()}


def tag_kw(ctx, case):
    kw = case["kw"]
    _seen["masks"].add(tuple(k in kw for k in ORDER))
    if len(_seen["masks"]) == 256 and not _seen.get("masks-tagged"):
        _seen["masks-tagged"] = True
        ctx.tag("kw/all-256-masks")
    if not kw:
        ctx.tag("kw/nothing-given")
    if case.get("pos", 0) > 0:
        ctx.tag("kw/positional")
    if any(kw.get(k, 0) is None for k in ("country", "config", "beh", "pred")):
        ctx.tag("kw/explicit-none")
    if case.get("np"):
        ctx.tag("np/int64")
    beh, cfg, pred = kw.get("beh"), kw.get("config"), kw.get("pred")
    if beh is not None and pred is None:
        ctx.tag("kw/behaviour-without-prediction")
    if cfg is not None and beh is None and pred is None:
        ctx.tag("kw/configuration-without-behaviour")
    if beh is not None and cfg is None:
        ctx.tag("kw/behaviour-without-configuration")
    if pred is not None and beh is None:
        ctx.tag("kw/prediction-without-behaviour")
    if set(kw) == {"map_id"}:
        ctx.tag("kw/map-id-only")


def _ask(ctx, op, args):
    """the model's answer, or None per item when the oracle alone runs (shrinking)"""
    if getattr(ctx, "driver", None) is None:
        return None
    return ctx.driver.ask("C13", op, args)


def run_batch(ctx, cases):
    warnings.filterwarnings("ignore")
    cs = countries()
    by = {}
    for c in cases:
        by.setdefault(c["kind"], []).append(c)

    if by.get("tables"):
        check_dimensions(ctx)
        for case in by["tables"]:
            ctx.case(case)
            ctx.tag("tables")
            model = _ask(ctx, "tables", {"cs": []})
            try:
                tables = impl_tables()
            except Exception as e:  # noqa
                raise InfraError(f"C13: the enum tables of the working tree cannot be read: {type(e).__name__}: {e}")
            if model is not None:
                ctx.compare(case, tables, model, "enums / SupportedCostFunctions / valid_vehicle_model / versions vs model tables")

    for chunk in _chunks(by.get("sid", []), 250):
        model = _ask(ctx, "sid", {"cs": cs, "raws": [c["raw"] for c in chunk]}) or [None] * len(chunk)
        for case, mo in zip(chunk, model):
            raw = case["raw"]
            valid = is_valid_raw(raw)
            tag_sid(ctx, raw, valid)
            if case.get("np"):
                ctx.tag("np/int64")
            ctx.case(case)
            impl, objs = impl_sid(raw, case.get("np", False))
            if "err" in impl:
                ctx.tag("sid/ctor-error")
            if mo is not None:
                ctx.compare(case, impl, mo, "ScenarioID(...) / str / from_benchmark_id / str  vs  CR.BenchId.mk / print / parse / print")
            if valid:
                oracle_sid(ctx, case, impl, objs)
            else:
                ctx.excluded += 1

    for chunk in _chunks(by.get("sidkw", []), 250):
        model = _ask(ctx, "sidkw", {"cs": cs, "kws": [c["kw"] for c in chunk]}) or [None] * len(chunk)
        for case, mo in zip(chunk, model):
            raw = fill_kw(case["kw"])
            valid = is_valid_raw(raw)
            tag_sid(ctx, raw, valid)
            tag_kw(ctx, case)
            ctx.case(case)
            impl, objs = impl_sid(raw, ctor=lambda: mk_sid_kw(case))
            if "err" in impl:
                ctx.tag("sid/ctor-error")
            if mo is not None:
                ctx.compare(case, impl, mo, "ScenarioID(<some arguments>) / str / from_benchmark_id / str  vs  CR.BenchId.Kw.fill / mk / "
                                            "print / parse / print")
            if valid:
                oracle_sid(ctx, case, impl, objs, raw)
            else:
                ctx.excluded += 1

    for chunk in _chunks(by.get("hist", []), 250):
        model = _ask(ctx, "hist", {"cs": cs, "items": [{"raw": c["raw"], "ops": model_id_ops(c)} for c in chunk]}) \
            or [None] * len(chunk)
        for case, mo in zip(chunk, model):
            ctx.case(case)
            tag_hist(ctx, case)
            impl, objs = impl_hist(case)
            if mo is not None:
                ctx.compare(case, impl, mo, "ScenarioID(...), attribute history, str / from_benchmark_id / str  vs  CR.BenchId.mk / "
                                            "runOps / print / parse / print")
            if "ok" in impl and is_valid_fields(impl["ok"]["id"]):
                ctx.tag("hist/valid-final")
                oracle_obj(ctx, case, impl["ok"], objs, f"constructed from {case['raw']}, then {case['ops']}")
            else:
                ctx.tag("hist/outside-final")
                ctx.excluded += 1

    for chunk in _chunks(by.get("parse", []), 250):
        model = _ask(ctx, "parse", {"cs": cs, "items": [[c["s"], c["version"]] for c in chunk]}) or [None] * len(chunk)
        for case, mo in zip(chunk, model):
            ctx.case(case)
            ctx.tag("parse/well-formed" if _ID_GRAMMAR.fullmatch(case["s"]) else "parse/malformed")
            via = case.get("via", "class")
            if via != "class":
                ctx.tag("parse/via-" + via)
            if mo is not None:
                ctx.compare(case, impl_parse(case["s"], case["version"], via), mo, "ScenarioID.from_benchmark_id vs CR.BenchId.parse")

    for case in by.get("file", []):
        run_file_case(ctx, case, cs)

    for case in by.get("twice", []):
        run_twice_case(ctx, case, cs)

    for chunk in _chunks(by.get("sol", []), 100):
        model = _ask(ctx, "sol", {"cs": cs, "sols": [
            {"raw": c["raw"], "vs": [[p[0], p[1]] for p in c["pps"]], "costs": [p[2] for p in c["pps"]]} for c in chunk]}) \
            or [None] * len(chunk)
        for case, mo in zip(chunk, model):
            ctx.case(case)
            tag_sol(ctx, case)
            opt = case.get("opt", {})
            try:
                sid, sol = mk_solution(case["raw"], case["pps"], opt)
            except Exception as e:  # noqa
                ctx.fail(f"C13/Solution/raises-{type(e).__name__}", f"valid solution cannot be constructed: {e}", case)
                continue
            try:
                for q in opt.get("pre", []):
                    sol_query(sol, q)
                bid = sol.benchmark_id
            except Exception as e:  # noqa
                ctx.fail(f"C13/Solution.benchmark_id/raises-{type(e).__name__}", f"benchmark_id raises: {e}", case)
                continue
            try:
                read = {"ok": static_read(bid, len(case["pps"]))}
            except Exception as e:  # noqa
                read = _err(e)
            if mo is not None:
                ctx.compare(case, {"ok": {"bid": bid, "read": read}}, mo,
                            "Solution.benchmark_id / _parse_benchmark_id / _parse_vehicle_id  vs  CR.BenchId.benchmarkId / readSolutionIds")
            oracle_sol(ctx, case, sid, sol, bid, entry=opt.get("entry", "fromstring-pretty"))

    for chunk in _chunks(by.get("solhist", []), 100):
        model = _ask(ctx, "solhist", {"cs": cs, "items": [
            {"raw": c["raw"], "pps": [[p[3], p[0], p[1], p[2], p[4] or _default_kind(p[0])] for p in map(_pp, c["pps"])],
             "ops": model_sol_ops(c)} for c in chunk]}) or [None] * len(chunk)
        for case, mo in zip(chunk, model):
            ctx.case(case)
            tag_solhist(ctx, case)
            try:
                impl, sol = impl_solhist(case)
            except Exception as e:  # noqa  (constructing the Solution / reading its benchmark_id or its held objects raises)
                ctx.fail(f"C13/Solution.benchmark_id/raises-{type(e).__name__}/history",
                         f"a Solution built from {case['pps']} fails after {case['ops']}: {e}", case)
                continue
            if mo is not None:
                ctx.compare(case, impl, mo, "Solution / PlanningProblemSolution history, benchmark_id, reader  vs  CR.BenchId.stepSol / "
                                            "SolState.benchmarkId / readSolutionIds")
            if "err" in impl:
                ctx.tag("solhist/ctor-rejected")
                continue
            held = impl["ok"]["held"]
            f = sid_fields(sol.scenario_id)
            if held and is_valid_fields(f) and len({h[0] for h in held}) == len(held):
                ctx.tag("solhist/oracle")
                want = {"vehicles": [[h[1], h[2]] for h in held], "costs": [h[3] for h in held], "id": f}
                oracle_sol(ctx, case, sol.scenario_id, sol, impl["ok"]["bid"], want, case.get("entry", "fromstring-pretty"))
            else:
                ctx.excluded += 1

    for chunk in _chunks(by.get("bid", []), 250):
        from commonroad.common.solution import CommonRoadSolutionReader as R
        model = _ask(ctx, "bid_parse", {"cs": cs, "items": [c["s"] for c in chunk]}) or [None] * len(chunk)
        for case, mo in zip(chunk, model):
            ctx.case(case)
            ctx.tag("bid/malformed")
            try:
                v, c, sid = R._parse_benchmark_id(case["s"])
                impl = {"ok": {"vehicle_ids": v, "cost_ids": c, "id": sid_fields(sid)}}
            except Exception as e:  # noqa
                impl = _err(e)
            if mo is not None:
                ctx.compare(case, impl, mo, "_parse_benchmark_id vs CR.BenchId.parseBenchmarkId")

    for chunk in _chunks(by.get("vid", []), 250):
        from commonroad.common.solution import CommonRoadSolutionReader as R
        model = _ask(ctx, "vid_parse", {"cs": [], "items": [c["s"] for c in chunk]}) or [None] * len(chunk)
        for case, mo in zip(chunk, model):
            ctx.case(case)
            ctx.tag("vid")
            try:
                m, t = R._parse_vehicle_id(case["s"])
                impl = {"ok": [m.name, t.value]}
            except Exception as e:  # noqa
                impl = _err(e)
            if mo is not None:
                ctx.compare(case, impl, mo, "_parse_vehicle_id vs CR.BenchId.parseVehicleId")

    for case in by.get("tamper", []):
        from commonroad.common.solution import CommonRoadSolutionReader, CommonRoadSolutionWriter
        import xml.etree.ElementTree as et
        ctx.case(case)
        ctx.tag("tamper")
        _, sol = mk_solution(case["raw"], case["pps"])
        root = et.fromstring(CommonRoadSolutionWriter(sol).dump())
        root.set("benchmark_id", case["bid"])
        try:
            impl = {"ok": solution_fields(CommonRoadSolutionReader.fromstring(et.tostring(root, encoding="unicode")))}
        except Exception as e:  # noqa
            if _outside_id_code(e) or type(e).__name__ == "SolutionException":
                ctx.excluded += 1      # trajectory / model-compatibility checks: not the id
                continue
            impl = _err(e)
        ctx.tag("tamper/compared")
        mo = _ask(ctx, "read_ids", {"cs": cs, "items": [[case["bid"], len(case["pps"])]]})
        if mo is not None:
            ctx.compare(case, impl, mo[0], "CommonRoadSolutionReader.fromstring (benchmark_id replaced) vs CR.BenchId.readSolutionIds")


_TWICE_SITE = {"static": "_parse_benchmark_id", "fromstring": "fromstring", "open": "open", "sid": "from_benchmark_id"}


def _twice_call(entry, arg):
    """one call of the entry point; returns the live result object(s)"""
    from commonroad.common.solution import CommonRoadSolutionReader as R
    from commonroad.scenario.scenario import ScenarioID
    if entry == "static":
        return R._parse_benchmark_id(arg)                  # (vehicle ids, cost ids, ScenarioID)
    if entry == "fromstring":
        return R.fromstring(arg)
    if entry == "open":
        return R.open(arg)
    return ScenarioID.from_benchmark_id(arg[0], arg[1])


def _twice_sid(entry, res):
    return res[2] if entry == "static" else res if entry == "sid" else res.scenario_id


def _twice_snapshot(entry, res):
    """what a result says, as plain data"""
    if entry == "static":
        return {"vehicle_ids": list(res[0]), "cost_ids": list(res[1]), "id": sid_fields(res[2])}
    if entry == "sid":
        return {"id": sid_fields(res), "str": str(res)}
    return dict(solution_fields(res), bid=res.benchmark_id)


def _twice_mutable_parts(entry, res):
    """the mutable objects a result consists of (name -> object): none of them may be shared between two results"""
    sid = _twice_sid(entry, res)
    parts = {"scenario id": sid}
    if isinstance(sid.prediction_id, list):
        parts["prediction id list"] = sid.prediction_id
    if entry == "static":
        parts["vehicle id list"], parts["cost id list"] = res[0], res[1]
    elif entry != "sid":
        parts["solution"] = res
        for i, q in enumerate(res.planning_problem_solutions):
            parts[f"planning problem solution {i}"] = q
    return parts


def _twice_edit(entry, res, ed):
    """one in-place edit of a result the caller owns (what a setter refuses is simply not done)"""
    from commonroad.common.solution import CostFunction, VehicleModel, VehicleType
    sid = _twice_sid(entry, res)
    try:
        if ed[0] == "sid":
            setattr(sid, ATTR[ed[1]], _conv(ed[1], ed[2]))
        elif ed[0] == "pred_append":
            if isinstance(sid.prediction_id, list):
                sid.prediction_id.append(ed[1])
            else:
                sid.prediction_id = [sid.prediction_id or 1, ed[1]]
        elif ed[0] == "ids" and entry == "static":
            lst = res[0] if ed[1] == "vehicle" else res[1]
            if ed[2] == "append":
                lst.append(ed[3])
            elif ed[2] == "clear":
                lst.clear()
            elif lst:
                lst[0] = ed[3]
        elif ed[0] == "pps" and entry in ("fromstring", "open"):
            qs = res.planning_problem_solutions
            q = qs[ed[1] % len(qs)]
            if ed[2] == "vtype":
                q.vehicle_type = VehicleType(ed[3])
            elif ed[2] == "cost":
                q.cost_function = CostFunction[ed[3]]
            elif ed[2] == "model":
                q.vehicle_model = VehicleModel[ed[3]]
            else:
                res.planning_problem_solutions = qs[:-1]
    except Exception:  # noqa  (a refused assignment)
        pass


def run_twice_case(ctx, case, cs):
    """one string through one entry point three times: two results alive at once, the first edited, then a later call"""
    import os
    from commonroad.common.solution import CommonRoadSolutionWriter
    ctx.case(case)
    entry = case["entry"]
    site = _TWICE_SITE[entry]
    ctx.tag("twice/" + entry)
    eds = case["edits"]
    if not eds:
        ctx.tag("twice/no-edit")
    for ed in eds:
        ctx.tag({"sid": "twice/edit-sid", "pred_append": "twice/edit-prediction-list", "ids": "twice/edit-id-lists",
                 "pps": "twice/edit-pps"}[ed[0]])
    try:
        sid, sol = mk_solution(case["raw"], case["pps"])
        bid = sol.benchmark_id
        want_sol = {"vehicles": [[p[0], p[1]] for p in case["pps"]], "costs": [p[2] for p in case["pps"]], "id": sid_fields(sid)}
        if entry == "static":
            args = [bid, bid, bid]
            want = {"vehicle_ids": [f"{p[0]}{p[1]}" for p in case["pps"]], "cost_ids": [p[2] for p in case["pps"]],
                    "id": sid_fields(sid)}
        elif entry == "sid":
            args = [(str(sid), sid.scenario_version)] * 3
            want = {"id": sid_fields(sid), "str": str(sid)}
        else:
            xml = CommonRoadSolutionWriter(sol).dump()
            want = dict(want_sol, bid=bid)
            if entry == "fromstring":
                args = [xml, xml, xml]
            else:
                paths = [os.path.join(ctx.tmpdir(), f"c13_twice_{k}.xml") for k in "ab"]
                for q in paths:                          # two files with the same benchmark id
                    with open(q, "w") as f:
                        f.write(xml)
                args = [paths[0], paths[1], paths[0]]
    except Exception as e:  # noqa
        if _outside_id_code(e):
            ctx.excluded += 1
            return
        ctx.fail(f"C13/Solution/raises-{type(e).__name__}", f"valid solution cannot be constructed / printed / written: {e}", case)
        return
    results = []
    for k, arg in enumerate(args):
        try:
            results.append(_twice_call(entry, arg))
        except Exception as e:  # noqa
            if _outside_id_code(e):
                ctx.excluded += 1
                return
            ctx.fail(f"C13/{site}/raises-{type(e).__name__}/call-{k + 1}",
                     f"call {k + 1} of {site} on the same input ({bid!r}) raises: {e}", case)
            return
        if k == 1:
            # two results alive at once
            a, b = _twice_mutable_parts(entry, results[0]), _twice_mutable_parts(entry, results[1])
            shared = [n for n in a if n in b and a[n] is b[n]]
            if shared:
                ctx.fail(f"C13/{site}/results-share-objects/" + shared[0].replace(" ", "-").rstrip("-0123456789"),
                         f"two calls of {site} on {bid!r} return the same mutable {', '.join(shared)}: editing one result edits the "
                         f"other", case)
            before = _twice_snapshot(entry, results[1])
            for ed in eds:
                _twice_edit(entry, results[0], ed)
            after = _twice_snapshot(entry, results[1])
            if after != before:
                diff = [f for f in before if before[f] != after[f]]
                ctx.fail(f"C13/{site}/other-result-changed/" + "+".join(diff[:2]),
                         f"{site} on {bid!r}, twice; editing the first result ({eds}) changed the second from {before} to {after}", case)
    last = _twice_snapshot(entry, results[2])
    if entry == "static":
        mo = _ask(ctx, "bid_parse", {"cs": cs, "items": [bid]})
    elif entry == "sid":
        mo = _ask(ctx, "parse", {"cs": cs, "items": [[args[0][0], args[0][1]]]})
    else:
        mo = _ask(ctx, "read_ids", {"cs": cs, "items": [[bid, len(case["pps"])]]})
    if mo is not None:
        impl = {k: v for k, v in last.items() if k != "bid"}
        ctx.compare(case, {"ok": impl}, mo[0], f"{site}: a later call on the same input, after an earlier result was edited  vs  the "
                                              f"model's (pure) parser")
    if last != want:
        diff = [f for f in want if last[f] != want[f]]
        ctx.fail(f"C13/{site}/later-call-differs/" + "+".join(diff[:2]),
                 f"{site} on {bid!r}: after an earlier result of the same call was edited in place ({eds}) a new call returns "
                 f"{last}, the input says {want}", case)


def run_file_case(ctx, case, cs):
    """the id through the header of a scenario file (CommonRoadFileWriter -> CommonRoadFileReader)"""
    ctx.case(case)
    ctx.tag("file/xml" if case["fmt"] == "xml" else "file/protobuf")
    raw = case["raw"]
    if raw["version"] == "2018b":
        ctx.tag("file/2018b")
    try:
        sid, back, ver = impl_file(case, ctx.tmpdir())
    except OSError:
        ctx.excluded += 1
        return
    except Exception as e:  # noqa
        tb = [fr.name for fr in traceback.extract_tb(e.__traceback__)]
        if any(n in ("from_benchmark_id", "__str__", "_write_header", "_get_benchmark_id") for n in tb) or "ScenarioID" in str(e):
            ctx.fail(f"C13/scenario-file/raises-{type(e).__name__}/{case['fmt']}", f"a scenario with id {raw} cannot be written "
                     f"and read back: {e}", case)
        else:
            ctx.excluded += 1          # the file code fails elsewhere: not the id
        return
    s = str(sid)
    impl = {"ok": {"id": sid_fields(back), "str": str(back)}}
    mo = _ask(ctx, "parse", {"cs": cs, "items": [[s, ver]]})
    if mo is not None:
        ctx.compare(case, impl, mo[0], "id read from a scenario file header  vs  CR.BenchId.parse (print, header version)")
    want = dict(sid_fields(sid), version=ver)
    got = sid_fields(back)
    if got != want:
        diff = [k for k in want if got[k] != want[k]]
        ctx.fail(f"C13/scenario-file/unequal-id/{case['fmt']}/" + "+".join(diff[:2]),
                 f"scenario id {want} written to a {case['fmt']} file is read back as {got}", case)
    elif ver == raw["version"] and (not (back == sid) or hash(back) != hash(sid)):
        ctx.fail(f"C13/scenario-file/unequal-id/{case['fmt']}/__eq__", f"{s!r} read back from a {case['fmt']} file is not == / hashes "
                 f"differently", case)
    if str(back) != s:
        ctx.fail(f"C13/scenario-file/prints-differently/{case['fmt']}", f"{s!r} read back from a {case['fmt']} file prints {str(back)!r}",
                 case)


def _default_kind(m):
    return "pminput" if m == "PM" else "KST" if m == "KST" else "input"


def tag_hist(ctx, case):
    names = [op[0] for op in case["ops"]]
    assigns = [i for i, n in enumerate(names) if n in ATTR or n == "pred_append" or n.startswith("same:")]
    queries = [i for i, n in enumerate(names) if i not in assigns]
    if any(op[0] == "country" and op[1] not in (None, "ZAM") and op[1] not in countries() for op in case["ops"]):
        ctx.tag("hist/rejected-assignment")
    if any(op[0] == "country" and op[1] is None for op in case["ops"]):
        ctx.tag("hist/country-none-assigned")
    if any(op[0] == "map_name" and not op[1].isalnum() for op in case["ops"]):
        ctx.tag("hist/map-name-cleaned")
    if "pred_append" in names:
        ctx.tag("hist/pred-list-in-place")
    if any(n.startswith("same:") for n in names):
        ctx.tag("hist/same-object-back")
    if queries and assigns and min(queries) < max(assigns):
        ctx.tag("hist/query-between")
    for n in ("deepcopy", "pickle"):
        if n in names:
            ctx.tag("hist/" + n)
    if {"config", "beh", "pred"} <= set(names):
        ctx.tag("hist/tail-switch")
    if "version" in names:
        ctx.tag("hist/version-set")
    if case.get("start") == "parsed":
        ctx.tag("hist/start-parsed")


def tag_sol(ctx, case):
    pps = [_pp(p) for p in case["pps"]]
    n = len(pps)
    ctx.tag("sol/single" if n == 1 else "sol/cooperative")
    if n >= 5:
        ctx.tag("sol/len>=5")
    if n >= 20:
        ctx.tag("sol/len-20")
    for m, t, c, pid, kind in pps:
        k = kind or _default_kind(m)
        ctx.tag("sol/traj-input" if k in ("input", "pminput") else "sol/traj-state")
        if m == "KST":
            ctx.tag("sol/three-letter-model")
        _seen["triples"].add((m, t, c))
        if pid == 0:
            ctx.tag("sol/pid-zero")
        if pid >= 10 ** 9:
            ctx.tag("sol/pid-large")
    if len(_seen["triples"]) == len(supported_triples()) and not _seen.get("triples-tagged"):
        _seen["triples-tagged"] = True
        ctx.tag("sol/all-supported-triples")
    pids = [p[3] for p in pps]
    if pids != sorted(pids):
        ctx.tag("sol/pids-unsorted")
    if n >= 2 and len({p[2] for p in pps}) == 1:
        ctx.tag("sol/same-cost-everywhere")
    opt = case.get("opt", {})
    ctx.tag("sol/entry/" + opt.get("entry", "fromstring-pretty"))
    if "date" in opt:
        ctx.tag("sol/date-none" if opt["date"] is None else "sol/date-given")
    if opt.get("ct") is not None:
        ctx.tag("sol/computation-time")
    if opt.get("proc") is not None:
        ctx.tag("sol/processor-name")
    if opt.get("pre"):
        ctx.tag("sol/queries-first")


def tag_solhist(ctx, case):
    names = [op[0] for op in case["ops"]]
    if any(n in ("model", "vtype", "cost") for n in names):
        ctx.tag("solhist/setter")
    if case.get("rejects"):
        ctx.tag("solhist/setter-rejected")
    if "traj" in names:
        ctx.tag("solhist/trajectory-set")
    if "setpps" in names or "rev" in names:
        ctx.tag("solhist/list-reassigned")
    if "same" in names:
        ctx.tag("solhist/same-list-back")
    pids = [p[3] for p in case["pps"]]
    if len(set(pids)) < len(pids) or any(op[0] == "setpps" and len(set(op[1])) < len(op[1]) for op in case["ops"]):
        ctx.tag("solhist/repeated-pid")
    if "sid" in names:
        ctx.tag("solhist/sid-reassigned")
    if "sidset" in names:
        ctx.tag("solhist/sid-mutated")
    if case.get("regen"):
        ctx.tag("solhist/read-back-first")
    muts = [i for i, n in enumerate(names) if n in ("model", "vtype", "cost", "traj", "setpps", "same", "rev", "sid", "sidset")]
    qs = [i for i, n in enumerate(names) if i not in muts]
    if qs and muts and min(qs) < max(muts):
        ctx.tag("solhist/query-between")


def _chunks(l, n):
    for i in range(0, len(l), n):
        yield l[i:i + n]


# ------------------------------------------------------------------------------------------------ generators

NAMES = ["Test", "US101", "A9", "a", "0", "C", "T1"]
MAP_IDS = [1, 2, 9, 10, 33, 100]
SHAPES = [  # (config, beh, pred)
    (None, None, None), (1, None, None), (12, None, None), (None, "S", None), (3, "T", None), (None, "P", 1), (2, "I", 7),
    (10, "T", 10), (None, "S", [1, 2]), (2, "T", [3, 1, 20]), (5, "P", [1, 1]),
]
PRODUCT_COUNTRIES = ["ZAM", "DEU", "USA", None]


def product_cases():
    out = []
    for coop in (False, True):
        for country in PRODUCT_COUNTRIES:
            for name in NAMES:
                for mid in MAP_IDS:
                    for cfg, beh, pred in SHAPES:
                        out.append({"kind": "sid", "raw": {"coop": coop, "country": country, "map_name": name, "map_id": mid,
                                                           "config": cfg, "beh": beh, "pred": pred, "version": "2020a"}})
    return out


def rnd_num(r):
    k = r.random()
    if k < 0.4:
        return r.choice([1, 2, 9, 10, 11, 19, 20, 99, 100, 101, 109, 110, 999, 1000])
    if k < 0.8:
        return r.randint(1, 10 ** r.randint(1, 9))
    return r.choice([10 ** r.randint(12, 40), r.randint(10 ** 12, 10 ** 40)])


def rnd_name(r):
    k = r.random()
    if k < 0.3:
        return r.choice(NAMES + ["CC", "ZAM", "S", "I1", "123", "1a2B", "Z", "z9", "USLanker", "Muc", "C1", "DEUMuc2", "T1S1",
                                 "007", "Cc", "lowerUPPER9"])
    if k < 0.36:
        return "".join(r.choice(_ALNUM) for _ in range(r.randint(20, 40)))
    if k < 0.42:
        return "".join(r.choice("0123456789") for _ in range(r.randint(1, 8)))
    return "".join(r.choice(_ALNUM) for _ in range(r.randint(1, 12)))


def gen_valid_raw(r):
    shape = r.randrange(6)
    cfg = beh = pred = None
    if shape >= 1:
        cfg = rnd_num(r) if (shape == 1 or r.random() < 0.7) else None
    if shape >= 2:
        beh = r.choice("STPI")
    if shape == 3:
        pred = rnd_num(r)
    elif shape >= 4:
        pred = [rnd_num(r) for _ in range(r.randint(2, 5))]
    country = r.choice(countries()) if r.random() < 0.85 else r.choice(["ZAM", "ZAM", None])
    return {"coop": r.random() < 0.4, "country": country, "map_name": rnd_name(r), "map_id": rnd_num(r), "config": cfg,
            "beh": beh, "pred": pred, "version": r.choice(VERSIONS)}


def rnd_country(r):
    """a value for the country_id setter: any ISO code, ZAM, or None (which the setter turns into ZAM)"""
    k = r.random()
    return r.choice(countries()) if k < 0.7 else "ZAM" if k < 0.8 else None


def kw_value(r, k):
    """an in-domain value for constructor argument k (tail arguments: see gen_kw_case)"""
    if k == "coop":
        return r.random() < 0.5
    if k == "country":
        return r.choice(countries()) if r.random() < 0.7 else r.choice(["ZAM", "ZAM", None])
    if k == "map_name":
        return rnd_name(r)
    if k == "map_id":
        return rnd_num(r)
    if k == "version":
        return r.choice(VERSIONS)
    if k == "config":
        return rnd_num(r) if r.random() < 0.9 else None
    if k == "beh":
        return r.choice("STPI") if r.random() < 0.92 else None
    return r.choice([rnd_num(r), rnd_num(r), [rnd_num(r) for _ in range(r.randint(2, 4))], None])


def gen_kw_case(r, mask=None):
    """ScenarioID with the arguments of `mask` given (tuple of 8 booleans in signature order; None = random)"""
    if mask is None:
        mask = tuple(r.random() < 0.5 for _ in ORDER)
    kw = {k: kw_value(r, k) for k, given in zip(ORDER, mask) if given}
    case = {"kind": "sidkw", "kw": kw}
    lead = 0
    while lead < 8 and mask[lead]:
        lead += 1
    if lead and r.random() < 0.4:
        case["pos"] = r.randint(1, lead)
    nums = [v for k, v in kw.items() if k in ("map_id", "config", "pred") and v is not None]
    flat = [x for v in nums for x in (v if isinstance(v, list) else [v])]
    if flat and all(x < 2 ** 62 for x in flat) and r.random() < 0.25:
        case["np"] = True
    return case


def all_mask_cases(r):
    import itertools
    return [gen_kw_case(r, m) for m in itertools.product((False, True), repeat=8)]


def country_sweep(r):
    """every ISO-3166 alpha-3 code and ZAM once, the other arguments given or not at random"""
    out = []
    for c in countries() + ["ZAM"]:
        case = gen_kw_case(r, (r.random() < 0.5, True) + tuple(r.random() < 0.5 for _ in range(6)))
        case["kw"]["country"] = c
        out.append(case)
    return out


_QUERIES = ["str", "str", "hash", "eq", "country_name", "prediction_type", "parse-self", "parse-other", "deepcopy", "pickle"]


def gen_hist_case(r):
    """a valid id, then 1..8 steps; the generator tracks the values the object holds (for in-place edits and the final state)"""
    raw = gen_valid_raw(r)
    cur = norm_fields(raw)
    ops = []

    def assign(k, v):
        ops.append([k, v])
        cur[k] = ("".join(ch for ch in v if ch.isascii() and ch.isalnum()) if k == "map_name" else (v or "ZAM") if k == "country" else v)

    def query():
        ops.append([r.choice(_QUERIES), None])

    leave_invalid = r.random() < 0.3
    for _ in range(r.randint(1, 5)):
        k = r.random()
        if k < 0.2:
            query()
        elif k < 0.5:
            f = r.choice(["coop", "country", "map_name", "map_id", "version"])
            if f == "coop":
                assign(f, not cur["coop"] if r.random() < 0.8 else cur["coop"])
            elif f == "country":
                if r.random() < 0.25:
                    ops.append(["country", r.choice(["XXX", "deu", "DE", "", "Zam", "GERM"])])       # rejected: ValueError
                else:
                    assign(f, rnd_country(r))
            elif f == "map_name":
                v = rnd_name(r)
                if r.random() < 0.3:
                    i = r.randrange(len(v) + 1)
                    v = v[:i] + r.choice(["-", "_", " ", ".", "/", "ß", ":"]) + v[i:]             # cleaned by the setter
                assign(f, v)
            elif f == "map_id":
                assign(f, rnd_num(r))
            else:
                assign(f, r.choice(VERSIONS))
        elif k < 0.8:
            # switch the optional tail to another complete shape, the three attributes in any order, queries in between
            shape = r.randrange(4)
            if shape == 0:
                tgt = {"config": None, "beh": None, "pred": None}
            elif shape == 1:
                tgt = {"config": rnd_num(r), "beh": None, "pred": None}
            elif shape == 2:
                tgt = {"config": rnd_num(r), "beh": r.choice("STPI"), "pred": rnd_num(r)}
            else:
                tgt = {"config": rnd_num(r), "beh": r.choice("STPI"), "pred": [rnd_num(r) for _ in range(r.randint(2, 4))]}
            ks = ["config", "beh", "pred"]
            r.shuffle(ks)
            if leave_invalid and r.random() < 0.6:
                ks = ks[:r.randint(1, 2)]
            for f in ks:
                assign(f, tgt[f])
                if r.random() < 0.3:
                    query()
        elif k < 0.9:
            f = r.choice(ORDER)
            ops.append(["same:" + f, None])
        else:
            if isinstance(cur["pred"], list):
                x = rnd_num(r)
                cur["pred"] = cur["pred"] + [x]
                ops.append(["pred_append", x, list(cur["pred"])])
            else:
                query()
    if r.random() < 0.3:
        query()
    case = {"kind": "hist", "raw": raw, "ops": ops}
    if r.random() < 0.3:
        case["start"] = "parsed"
    return case


def gen_outside_raw(r):
    raw = gen_valid_raw(r)
    k = r.randrange(13)
    if k == 0:
        raw["beh"], raw["pred"] = raw["beh"] or "T", [rnd_num(r)]
    elif k == 1:
        raw["config"] = r.choice([0, -1, -rnd_num(r)])
    elif k == 2:
        raw["beh"], raw["pred"] = raw["beh"] or "S", r.choice([0, -3, [], [0], [1, 0], [2, -5, 1]])
    elif k == 3:
        raw["map_id"] = r.choice([0, -1, -rnd_num(r)])
    elif k == 4:
        raw["beh"] = r.choice(["X", "s", "ST", "", "1"])
    elif k == 5:
        raw["beh"], raw["pred"] = None, r.choice([1, [1, 2], 0, []])
    elif k == 6:
        raw["country"] = r.choice(["XXX", "deu", "DE", "GERM", "", "Z4M", "zam"])
    elif k == 7:
        raw["map_name"] = r.choice(["US-101", "a b", "", "_", "Straße", "A_9", "x:y", "-", "Te.st", "٣", "[a]"])
    elif k == 8:
        raw["version"] = r.choice(["2019", "", "2020b", "2020A"])
    elif k == 9:
        raw["beh"], raw["pred"] = raw["beh"] or "I", [rnd_num(r)]
    elif k == 10:
        raw["config"], raw["beh"], raw["pred"] = 0, None, None
    elif k == 11:
        raw["config"], raw["beh"], raw["pred"] = 0, "T", 0
    else:
        raw["beh"], raw["pred"], raw["config"] = "P", [r.choice([1, 5])], None
    return raw


def mutate(r, s):
    k = r.randrange(9)
    i = r.randrange(len(s)) if s else 0
    if k == 0 and s:
        return s[:i] + s[i + 1:]
    if k == 1:
        return s[:i] + r.choice("_-C0 aZ:9\n") + s[i:]
    if k == 2 and s:
        return s[:i] + r.choice("_-0sT1z") + s[i + 1:]
    if k == 3:
        return re.sub(r"-([1-9])", r"-0\1", s, count=1)
    if k == 4:
        return s + r.choice(["-", "_", "_1", "-1", "\n", "_T", "_T-", "_X-1", "_S-1"])
    if k == 5:
        return s.lower() if r.random() < 0.3 else s[:3].lower() + s[3:]
    if k == 6:
        return r.choice(["C-", "c-", "-", "CC-", "C_"]) + s
    if k == 7:
        return s.replace("_", r.choice(["-", "__", " "]), 1)
    return s.replace("-", r.choice(["_", "--", ""]), 1)


def printed(raw):
    """an id string in the documented format, built here (not by the code) — seed material for the parser stream"""
    s = ("C-" if raw["coop"] else "") + f"{raw['country'] or 'ZAM'}_{raw['map_name']}-{raw['map_id']}"
    if raw["config"] is not None or raw["beh"] is not None:
        s += f"_{raw['config'] or 1}"
    if raw["beh"] is not None:
        p = raw["pred"] if isinstance(raw["pred"], list) else [raw["pred"] or 1]
        s += f"_{raw['beh']}" + "".join(f"-{x}" for x in p)
    return s


def gen_parse_case(r):
    s = printed(gen_valid_raw(r))
    k = r.random()
    if k < 0.25:
        pass
    elif k < 0.35:
        s = r.choice(["XXX", "QQQ", "AAA", "ZZZ"]) + s[s.index("_"):] if not s.startswith("C-") else "C-XYZ" + s[s.index("_"):]
    elif k < 0.9:
        s = mutate(r, s)
        if r.random() < 0.2:
            s = mutate(r, s)
    else:
        s = "".join(r.choice("AZC_-019aT S") for _ in range(r.randint(0, 14)))
    case = {"kind": "parse", "s": s, "version": r.choice(VERSIONS + VERSIONS + ["2017"])}
    k = r.random()
    if k < 0.15:
        case["via"] = "instance"
    elif k < 0.25:
        case["via"] = "keyword"
    return case


def supported_triples():
    from commonroad.common.solution import CostFunction, SupportedCostFunctions, VehicleModel, VehicleType
    return [(m.name, t.value, c.name) for m in VehicleModel for t in VehicleType for c in CostFunction
            if c in SupportedCostFunctions[m.name].value]


def rnd_kind(r, m):
    """trajectory kind admissible for model m: its input vector or its state trajectory"""
    if m == "KST":
        return "KST"
    return r.choice(["pminput" if m == "PM" else "input", m])


def rnd_pids(r, n):
    k = r.random()
    if k < 0.5:
        return r.sample(range(0, 1000), n)
    if k < 0.65:
        return r.sample(range(0, n + 1), n)                       # 0 .. n in any order
    if k < 0.8:
        return sorted(r.sample(range(0, 50), n), reverse=True)    # descending
    return r.sample([0, 1, 7, 10 ** 9, 10 ** 12, 10 ** 12 + 1, 2 ** 31, 2 ** 63, 999, 42] + list(range(100, 100 + n)), n)


def gen_sol_opt(r):
    opt = {"entry": r.choice(["fromstring-pretty", "fromstring-raw", "open", "open-default-name"])}
    k = r.random()
    if k < 0.25:
        opt["date"] = None
    elif k < 0.5:
        opt["date"] = r.choice(["2020-01-02T03:04:05", "1999-12-31T23:59:59", "2026-09-29T00:00:00"])
    k = r.random()
    if k < 0.2:
        opt["ct"] = None
    elif k < 0.45:
        opt["ct"] = r.choice([0.5, 1.25, 3, 1024])
    k = r.random()
    if k < 0.2:
        opt["proc"] = None
    elif k < 0.4:
        opt["proc"] = r.choice(["Intel(R) Core(TM) i7", "cpu:1", "a", "auto" if r.random() < 0.2 else "x86"])
    if r.random() < 0.4:
        opt["pre"] = [r.choice(SOL_QUERIES) for _ in range(r.randint(1, 3))]
    return opt


def gen_sol_case(r, triples, n=None, plain=False):
    n = n or r.choice([1, 1, 2, 2, 3, 4, 5, 6, 8])
    raw = gen_valid_raw(r)
    if n > 1 and r.random() < 0.7:
        raw["coop"] = True
    pids = r.sample(range(0, 1000), n) if plain else rnd_pids(r, n)
    if not plain and n >= 2 and r.random() < 0.2:
        m, t, c = r.choice(triples)                              # one cost function everywhere
        same = [tr for tr in triples if tr[2] == c]
        pps = [list(r.choice(same)) + [pid] for pid in pids]
    else:
        pps = [list(r.choice(triples)) + [pid] for pid in pids]
    case = {"kind": "sol", "raw": raw, "pps": pps}
    if not plain:
        for p in pps:
            p.append(rnd_kind(r, p[0]))
        case["opt"] = gen_sol_opt(r)
    return case


def gen_solhist_case(r, triples):
    """a Solution and 1..7 operations on it; `rejects` records that a setter call the code must refuse was generated"""
    n = r.choice([1, 2, 2, 3, 4])
    raw = gen_valid_raw(r)
    pids = rnd_pids(r, n)
    if n >= 2 and r.random() < 0.12:
        pids[-1] = pids[0]                                         # repeated planning problem id
    pps = []
    for pid in pids:
        m, t, c = r.choice(triples)
        pps.append([m, t, c, pid, rnd_kind(r, m)])
    case = {"kind": "solhist", "raw": raw, "pps": pps, "ops": [], "entry": r.choice(["fromstring-pretty", "fromstring-raw", "open"])}
    if r.random() < 0.04:
        # a combination the constructor refuses (trajectory kind / cost function not admissible for the model)
        p = pps[r.randrange(n)]
        if r.random() < 0.5:
            p[0], p[2], p[4] = "PM", r.choice(["SA1", "SM1", "SM2", "SM3", "TR1"]), "pminput"
        else:
            p[0], p[4] = r.choice(["KS", "ST", "MB", "KST"]), "pminput"
        return case
    ops = case["ops"]
    for _ in range(r.randint(1, 7)):
        k = r.random()
        i = r.randrange(n)
        if k < 0.14:
            ops.append(["model", i, r.choice(["PM", "ST", "KS", "MB", "KST"])])
            case["rejects"] = True          # (most model changes are refused: trajectory kind / cost function)
        elif k < 0.26:
            ops.append(["vtype", i, r.randint(1, 4)])
        elif k < 0.40:
            ops.append(["cost", i, r.choice(["JB1", "SA1", "WX1", "SM1", "SM2", "SM3", "MW1", "TR1"])])
        elif k < 0.46:
            ops.append(["traj", i, r.choice(["input", "pminput", "PM", "ST", "KS", "MB", "KST"])])
        elif k < 0.58:
            idxs = [r.randrange(n) for _ in range(r.randint(1, n + 1))] if r.random() < 0.3 else r.sample(range(n), r.randint(1, n))
            ops.append(["setpps", idxs])
        elif k < 0.64:
            ops.append([r.choice(["same", "rev"])])
        elif k < 0.72:
            ops.append(["sid", gen_valid_raw(r)])
        elif k < 0.84:
            f = r.choice(["coop", "country", "map_name", "map_id", "version", "config", "pred"])
            if f == "coop":
                v = r.random() < 0.5
            elif f == "country":
                v = rnd_country(r) if r.random() < 0.9 else "XXX"
            elif f == "map_name":
                v = rnd_name(r)
            elif f == "version":
                v = r.choice(VERSIONS)
            elif f == "pred":
                v = r.choice([rnd_num(r), [rnd_num(r), rnd_num(r)]])
            else:
                v = rnd_num(r)
            ops.append(["sidset", f, v])
        else:
            ops.append([r.choice(SOL_QUERIES)])
    if r.random() < 0.02:
        ops.append(["setpps", []])
    if len(set(pids)) == n and r.random() < 0.25:
        case["regen"] = True
    return case


def gen_twice_case(r, triples):
    """one string, one entry point, several calls; in-place edits of the first result in between"""
    base = gen_sol_case(r, triples, n=r.choice([1, 1, 2, 3]))
    entry = r.choice(["static", "static", "fromstring", "open", "sid", "sid"])
    n = len(base["pps"])
    eds = []
    for _ in range(r.choice([0, 1, 1, 2, 3])):
        k = r.random()
        if k < 0.45 or (entry == "sid" and k < 0.8):
            f = r.choice(["coop", "country", "map_name", "map_id", "config", "beh", "pred", "pred", "version"])
            v = {"coop": r.random() < 0.5, "country": r.choice(["DEU", "USA", "ZAM", None]), "map_name": "Edited" + str(r.randint(0, 9)),
                 "map_id": rnd_num(r), "config": rnd_num(r), "beh": r.choice(["S", "T", "P", "I", None]),
                 "pred": r.choice([7, rnd_num(r), [7, 8], None]), "version": r.choice(VERSIONS)}[f]
            eds.append(["sid", f, v])
        elif k < 0.6 or entry == "sid":
            eds.append(["pred_append", rnd_num(r)])
        elif entry == "static":
            eds.append(["ids", r.choice(["vehicle", "cost"]), r.choice(["append", "clear", "replace"]), r.choice(["PM1", "KST4", "JB1", ""])])
        else:
            what = r.choice(["vtype", "cost", "model", "drop"])
            v = {"vtype": r.randint(1, 4), "cost": r.choice(["JB1", "SA1", "WX1", "TR1"]), "model": r.choice(["PM", "ST", "KS", "MB"]),
                 "drop": None}[what]
            eds.append(["pps", r.randrange(n), what, v])
    return {"kind": "twice", "raw": base["raw"], "pps": base["pps"], "entry": entry, "edits": eds}


def gen_file_case(r):
    raw = gen_valid_raw(r)
    if r.random() < 0.5:
        raw["version"] = "2020a"
    case = {"kind": "file", "raw": raw, "fmt": r.choice(["xml", "pb"])}
    if r.random() < 0.2 and len(printed(raw)) < 120:
        case["default_name"] = True
    return case


def gen_bid_case(r, triples):
    c = gen_sol_case(r, triples, plain=True)
    vs = [f"{m}{t}" for m, t, _, _ in c["pps"]]
    ks = [k for _, _, k, _ in c["pps"]]
    br = (lambda l: l[0] if len(l) == 1 else "[" + ",".join(l) + "]")
    s = f"{br(vs)}:{br(ks)}:{printed(c['raw'])}:{c['raw']['version']}"
    k = r.randrange(8)
    if k == 0:
        s = s.replace(":", r.choice(["", "::", " : "]), 1)
    elif k == 1:
        s = s.replace(",", r.choice([", ", ",,", " ,"]))
    elif k == 2:
        s = s.rsplit(":", 1)[0] + ":" + r.choice(["2019", "", "2020a:", " 2018b"])
    elif k == 3:
        s = mutate(r, s)
    elif k == 4:
        s = s.replace("[", "").replace("]", r.choice(["", "]]"]))
    elif k == 5:
        s = "[" + s
    elif k == 6:
        i = r.randrange(len(s))
        s = s[:i] + " " + s[i:]
    return {"kind": "bid", "s": s}


VIDS = ["PM1", "PM2", "PM3", "PM4", "ST1", "KS2", "MB3", "KST4", "KST1", "PM0", "PM5", "PM9", "KST5", "pm1", "PM", "P1", "K1",
        "KSTT1", "KST", "KS", "XX1", "PMx", "PM ", "PM+", "PM-", "1PM", "", "1", "12", "123", "1234", "KS12", "ST11", "MB01",
        "KST12", "PM²", "PMM1", "TS1", "SK1"]


def gen_tamper_case(r, triples):
    c = gen_sol_case(r, triples, n=r.choice([1, 2, 3]), plain=True)
    vs = [f"{m}{t}" for m, t, _, _ in c["pps"]]
    ks = [k for _, _, k, _ in c["pps"]]
    sc, ver = printed(c["raw"]), c["raw"]["version"]
    k = r.randrange(6)
    if k == 0:
        vs = vs[:-1]
    elif k == 1:
        ks = ks[:-1]
    elif k == 2:
        ver = r.choice(["2019", "2018b", "2020a"])
    elif k == 3:
        vs[-1] = vs[-1][:-1] + r.choice("12345x")
    elif k == 4:
        m = c["pps"][-1][0]
        ks[-1] = r.choice(["JB1", "WX1", "MW1", "XX1", "jb1"]) if m == "PM" else r.choice(["SA1", "SM3", "TR1", "TR2", ""])
    else:
        sc = mutate(r, sc).replace(":", "")
    br = (lambda l: l[0] if len(l) == 1 else "[" + ",".join(l) + "]")
    if not vs or not ks:
        vs, ks = vs or [""], ks or [""]
    c.update(kind="tamper", bid=f"{br(vs)}:{br(ks)}:{sc}:{ver}")
    return c


# ------------------------------------------------------------------------------------------------ entry points

def run(ctx, verdict=True):
    import glob, json, os
    from common import CORPUS_DIR
    r = ctx.rng
    run_batch(ctx, [{"kind": "tables"}])          # dimension table + enum tables first: nothing below is meaningful otherwise
    corpus = [json.load(open(p)) for p in sorted(glob.glob(os.path.join(CORPUS_DIR, "C13", "*.json")))]
    if corpus:
        run_batch(ctx, corpus)
    triples = supported_triples()
    cases = []
    prod = product_cases()
    prod = prod[ctx.worker::max(1, ctx.workers)]     # the full product, split over the workers
    cases += prod
    cases += [{"kind": "sid", "raw": gen_valid_raw(r)} for _ in range(ctx.n(2000))]
    cases += [{"kind": "sid", "raw": gen_valid_raw(r), "np": True} for _ in range(ctx.n(100))]
    cases += [{"kind": "sid", "raw": gen_outside_raw(r)} for _ in range(ctx.n(1200))]
    # keyword construction: every given/omitted mask twice, every country once, random masks
    cases += all_mask_cases(r) + all_mask_cases(r) + country_sweep(r)
    cases += [gen_kw_case(r) for _ in range(ctx.n(1200))]
    cases += [{"kind": "sidkw", "kw": {}}]
    cases += [gen_hist_case(r) for _ in range(ctx.n(3000))]
    cases += [gen_parse_case(r) for _ in range(ctx.n(2500))]
    cases += [gen_file_case(r) for _ in range(ctx.n(300))]
    # every supported (model, type, cost) triple once as a single solution, then random single / cooperative ones
    for tr in triples:
        cases.append({"kind": "sol", "raw": gen_valid_raw(r), "pps": [list(tr) + [r.randrange(1000), rnd_kind(r, tr[0])]],
                      "opt": gen_sol_opt(r)})
    cases += [gen_sol_case(r, triples) for _ in range(ctx.n(800))]
    cases += [gen_sol_case(r, triples, n=20) for _ in range(ctx.n(2))]
    cases += [gen_solhist_case(r, triples) for _ in range(ctx.n(1200))]
    cases += [gen_twice_case(r, triples) for _ in range(ctx.n(600))]
    cases += [gen_bid_case(r, triples) for _ in range(ctx.n(600))]
    cases += [{"kind": "vid", "s": s} for s in VIDS]
    cases += [gen_tamper_case(r, triples) for _ in range(ctx.n(150))]
    run_batch(ctx, cases)
    if verdict:
        dimensions_verdict(ctx)


def search(ctx):
    """failing-input search after a broken obligation / disagreement: the same streams; the dimension verdict was the run's"""
    run(ctx, verdict=False)


def replay(ctx, case):
    run_batch(ctx, [case])


class _Probe:
    """minimal stand-in for Ctx while shrinking: runs the oracle (implementation only), records failure keys"""
    driver = None

    def __init__(self):
        self.keys, self.excluded, self.tmp = set(), 0, None

    def fail(self, key, what, case, detail=None):
        self.keys.add(key)

    def tag(self, *a):
        pass

    def case(self, *a, **k):
        pass

    def compare(self, *a, **k):
        return True

    def tmpdir(self):
        import tempfile
        if self.tmp is None:
            self.tmp = tempfile.mkdtemp(prefix="crverif_C13_shrink_")
        return self.tmp


_probe = None


def _still_fails(case, key):
    global _probe
    warnings.filterwarnings("ignore")
    if _probe is None:
        _probe = _Probe()
    _probe.keys = set()
    try:
        run_batch(_probe, [case])
    except Exception:  # noqa
        return False
    return key in _probe.keys


def shrink(case, key):
    """greedy: simpler field values / fewer arguments / fewer operations / fewer planning problems while the same finding key
    is still produced"""
    if case.get("kind") not in ("sid", "sidkw", "hist", "sol", "solhist", "file", "twice") or not _still_fails(case, key):
        return case
    cur = copy.deepcopy(case)

    def attempt(mut):
        nonlocal cur
        cand = copy.deepcopy(cur)
        try:
            mut(cand)
        except Exception:  # noqa
            return
        if cand != cur and _still_fails(cand, key):
            cur = cand

    for opt_key in ("np", "pos", "opt", "default_name", "entry"):
        attempt(lambda c, k=opt_key: c.pop(k))
    if "ops" in cur:
        for _ in range(3):
            for i in reversed(range(len(cur["ops"]))):
                attempt(lambda c, i=i: c["ops"].pop(i))
    if "edits" in cur:
        for _ in range(2):
            for i in reversed(range(len(cur["edits"]))):
                attempt(lambda c, i=i: c["edits"].pop(i))
    if "pps" in cur and cur["kind"] in ("sol", "twice"):
        for _ in range(4):
            for i in range(len(cur["pps"])):
                attempt(lambda c, i=i: c["pps"].pop(i))
        for i in range(len(cur["pps"])):
            attempt(lambda c, i=i: c["pps"].__setitem__(i, ["PM", 1, "JB1", c["pps"][i][3]]))
            attempt(lambda c, i=i: c["pps"][i].__setitem__(3, i + 1))
    if "kw" in cur:
        for k in list(cur["kw"]):
            attempt(lambda c, k=k: c["kw"].pop(k))
    fields = cur["kw"] if "kw" in cur else cur.get("raw")
    which = "kw" if "kw" in cur else "raw"
    if fields is not None:
        for k, v in (("coop", False), ("country", "ZAM"), ("map_name", "a"), ("map_id", 1), ("version", "2020a"), ("config", None),
                     ("config", 1), ("pred", None), ("pred", 1), ("pred", [1, 2]), ("beh", None)):
            if k in fields:
                attempt(lambda c, k=k, v=v: c[which].__setitem__(k, v))
        if isinstance(cur[which].get("pred"), list):
            for _ in range(4):
                attempt(lambda c: c[which]["pred"].pop())
            attempt(lambda c: c[which].__setitem__("pred", [min(x, 10) for x in c[which]["pred"]]))
        for k in ("map_id", "config", "pred"):
            if isinstance(cur[which].get(k), int):
                for v in (2, 10, 11, 100, 101):
                    if cur[which][k] > v:
                        attempt(lambda c, k=k, v=v: c[which].__setitem__(k, v))
    return cur
