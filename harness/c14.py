"""C14 — solution files round-trip exactly and follow the solution schema.
model: lean/CRModel/SolutionXml.lean; theorems: lean/CRProps/C14.lean (helpers: lean/CRProofs/SolutionXml.lean).

Correspondence ops (implementation vs compiled Lean model, every run):
  tables          StateFields / XMLStateFields / StateType / TrajectoryType values and the state classes' attributes
  schema          the Lean term `solSchema` vs the shipped CommonRoadSolution_schema.xsd (parsed here with lxml)
  construct       Trajectory(...) + PlanningProblemSolution(...): trajectory type or exception class
  set_trajectory  PlanningProblemSolution(decoy) followed by the `trajectory` setter (type re-derived without the vehicle model)
  encode          CommonRoadSolutionWriter(solution).dump(pretty) parsed back into (tag, attributes, children, text)
  decode          CommonRoadSolutionReader.fromstring(document): solution or exception class (valid documents and mutants);
                  the model (decodeDoc) parses the benchmark id from the attribute TEXT with C13's character-level model
  dict_of         Solution.planning_problem_solutions right after assembly (ids given twice) vs the model's dict
  decode_tokens   the same against the token-level reader core (decodeSol) the theorems are stated about
  py_texts        every number / date / time-step text Python wrote: in the grammar pyNumL / pyDateL / Int.repr the theorems
                  C14_sol_roundtrip_py and C14_sol_valid_xsd assume, and accepted by the Lean xs:float/xs:dateTime/xs:int checkers
  norm            the read-back solution vs `normSol` (the right-hand side of the round-trip theorem)
  validate        lxml XMLSchema validation vs the Lean validator (valid documents and mutants)
Oracle (independent of the model): float.hex equality of every state value after dump -> fromstring and after
write_to_file -> open, ids / types / ascending time steps / computation time / processor name / date to the second,
and lxml validation of the dumped document for the trajectory types the schema defines, in its order.
"""
from __future__ import annotations

import copy
import glob
import json
import os
import re
import struct
from datetime import datetime

from common import CORPUS_DIR, REPO, call

RULE = ("solutions built with the repository's own constructors: every admissible (vehicle model x trajectory type) pair "
        "(PM, ST, KS, KST, MB, input vector for KS/ST/MB, PM input vector), also states of richer classes written as a smaller "
        "type (MBState/STState/KSTState/STDState/CustomState as KS, ...), every vehicle type, every cost function admissible for "
        "the model, 1..4 planning problems (cooperative ones half of the time sorted into the schema's order), 1..6 states with "
        "consecutive / gapped / shuffled / huge time steps, state values from a boundary-heavy pool (0.0, -0.0, subnormals, "
        "DBL_MAX, 1e-5, 1e16, 1e22, 0.1, random 64-bit patterns, ints), optional date (years 1000..9999, with and without "
        "microseconds), computation time and processor name (XML-special, non-ASCII, blank); pretty and compact output; "
        "dump->fromstring and write_to_file->open; in 40% of the cases a history AFTER Solution(...) was assembled: planning_problem_id / "
        "vehicle_type / cost_function of a PlanningProblemSolution, computation time, processor name, date, scenario id re-assigned, the "
        "list of planning problems re-set in another order (the written object is compared as it is when written); the history also uses "
        "the vehicle_model / trajectory setters, Trajectory.append_state / translate_rotate / initial_time_step, in-place edits of a state, "
        "the same list handed back to the setter, planning problems dropped / appended, and setters that must refuse (non-positive "
        "computation time, unsupported cost, unfit model / trajectory) followed by writing.  Further dimensions (table DIMENSIONS, checked "
        "against the real signatures every run): numpy scalar types for ids / time steps / values, constructor defaults (date, computation "
        "time, processor name omitted), processor name 'auto', an id given twice at assembly, read-only queries before writing "
        "(incl. create_dynamic_obstacle), one writer reused for a list of dump / write_to_file calls in varying order, default file name and "
        "default output path, overwrite True/False on fresh and existing files (a refused overwrite must leave a readable document), "
        "fromstring on str and on bytes; in 35% of the cases every document / file is read three times - two results alive, one of them "
        "edited in place throughout (scenario id fields, metadata, ids, types, costs, every state value incl. the position array, state "
        "list) - and every other result must still be the written solution.  Plus constructor calls that must be rejected and mutated documents "
        "(dropped/duplicated/renamed elements, bad number text, reordered trajectories, wrong ids) for the reader's error "
        "branches and the validator.  non-trivial = every case; distinct = distinct canonical JSON of the case")
ASSUMPTIONS = [
    "outside the quantifier (named, not generated): a solution without planning problems; state values of a narrower float type "
    "(np.float32 / np.float16: their text is the shortest repr of the narrow type and is read back as a double); a solution edited between "
    "CommonRoadSolutionWriter(solution) and dump() (the writer serialises in its constructor); a history in which a setter that must refuse "
    "accepts (counted in excluded_ambiguous, no verdict)",
    "Trajectory.translate_rotate and Solution.create_dynamic_obstacle are only exercised with moderate angles: util.make_valid_orientation "
    "subtracts 2*pi in a loop and does not come back in reasonable time for an orientation like 1e300 (not this property's subject)",
    "the theorems take the TEXT Python writes for a number as the number's token (Codec.py): trusted is that str(x) of a finite "
    "float/int is a text of the grammar pyNumL (checked on every written text by the py_texts correspondence) and that the text "
    "determines the value bit for bit, i.e. float(str(x)) == x (sampled on every run by the float.hex oracle); likewise "
    "strftime/strptime for dates with a four-digit year and str(int)/int(text)",
    "xml.etree / minidom / lxml serialise and parse element trees faithfully for printable text",
    "the benchmark-id attribute text is parsed by property C13's character-level model (decodeDoc); C14_doc_roundtrip holds for "
    "scenario ids in C13's domain `Valid` and at least one planning problem",
    "domain choices (narrower reading of the text): processor names are printable single-line strings other than the documented "
    "keyword 'auto'; dates have a four-digit year (glibc strftime('%Y') does not pad smaller years); the schema clause is evaluated "
    "only when every time step fits xs:int (32 bit) — such cases are counted in excluded_ambiguous",
]
EXTRA_MODULES = ["CRProps.T14"]      # translator tie: Gen.SrcC14 (regenerated from the working tree every run) = hand model
TRUSTED = ["lxml/libxml2 XML Schema validator (the Lean validator is compared with it, not proved equal)"]
REQUIRED_BUCKETS = ["single", "cooperative", "type:PM", "type:ST", "type:KS", "type:KST", "type:MB", "type:Input", "type:PMInput",
                    "unordered", "schema-checked", "schema-ppid:zero", "schema-ppid:negative", "schema-ppid:over-int32", "schema-ppid:one",
                    "schema-ppid:positive", "schema-not-applicable", "file-path", "pretty", "compact", "mutant", "reject",
                    "superset-state", "date", "computation-time", "processor-name", "setter-path", "post-edit", "post:pp_id", "post:reorder",
                    "post:model", "post:traj", "post:append_state", "post:edit_state", "post:same_list", "post:drop", "post:append_pps",
                    "post:init_step", "post:translate_rotate", "post:fail_ct", "post:fail_cost", "post:fail_model", "post:fail_traj",
                    "numpy-scalars", "ctor-defaults", "duplicate-id", "processor-auto", "queries-first", "writer-reused",
                    "fromstring-bytes", "default-filename", "default-output-path", "overwrite-refused", "reread", "reread-edited"]
WORKERS = {"quick": 1, "thorough": 8}

XSD_PATH = os.path.join(REPO, "commonroad", "scenario_definition", "xml_definition_files", "CommonRoadSolution_schema.xsd")
XS = "{http://www.w3.org/2001/XMLSchema}"

# Attributes every state of a trajectory type must carry after reading (from the CommonRoad vehicle-model documentation;
# deliberately NOT taken from solution.py's tables).
EXPECT = {
    "PM": ["position", "velocity", "velocity_y", "time_step"],
    "ST": ["position", "steering_angle", "velocity", "orientation", "yaw_rate", "slip_angle", "time_step"],
    "KS": ["position", "steering_angle", "velocity", "orientation", "time_step"],
    "KST": ["position", "steering_angle", "velocity", "orientation", "hitch_angle", "time_step"],
    "MB": ["position", "steering_angle", "velocity", "orientation", "yaw_rate", "roll_angle", "roll_rate", "pitch_angle",
           "pitch_rate", "velocity_y", "position_z", "velocity_z", "roll_angle_front", "roll_rate_front", "velocity_y_front",
           "position_z_front", "velocity_z_front", "roll_angle_rear", "roll_rate_rear", "velocity_y_rear", "position_z_rear",
           "velocity_z_rear", "left_front_wheel_angular_speed", "right_front_wheel_angular_speed",
           "left_rear_wheel_angular_speed", "right_rear_wheel_angular_speed", "delta_y_f", "delta_y_r", "time_step"],
    "Input": ["steering_angle_speed", "acceleration", "time_step"],
    "PMInput": ["acceleration", "acceleration_y", "time_step"],
}
STATE_CLASS = {"PM": "PMState", "ST": "STState", "KS": "KSState", "KST": "KSTState", "MB": "MBState", "Input": "InputState",
               "PMInput": "PMInputState"}
# (vehicle model, state class, expected trajectory type)
COMBOS = [("PM", "PMState", "PM"), ("ST", "STState", "ST"), ("KS", "KSState", "KS"), ("KST", "KSTState", "KST"),
          ("MB", "MBState", "MB"), ("KS", "InputState", "Input"), ("ST", "InputState", "Input"), ("MB", "InputState", "Input"),
          ("PM", "PMInputState", "PMInput")]
SUPERSET = [("KS", "MBState", "KS"), ("KS", "STState", "KS"), ("KS", "KSTState", "KS"), ("KS", "STDState", "KS"),
            ("ST", "STDState", "ST"), ("KS", "Custom:KS", "KS"), ("PM", "Custom:PM", "PM"), ("MB", "Custom:Input", "Input"),
            ("KST", "Custom:KST", "KST")]
PM_COSTS = ["JB1", "WX1", "MW1"]
ALL_COSTS = ["JB1", "SA1", "WX1", "SM1", "SM2", "SM3", "MW1", "TR1"]
SPECIAL_FLOATS = [0.0, -0.0, 1.0, -1.0, 0.1, 1 / 3, 1e-5, 1e-7, 1e-4, 9.999999e-5, 1e16, 1e22, 1.2345678901234567e+16, 5e-324,
                  1e-310, 2.2250738585072014e-308, 1.7976931348623157e308, -1.7976931348623157e308, 123456789012345678.0,
                  2.0 ** 53, 2.0 ** 53 + 2, 3.141592653589793, -2.718281828459045, 1e15, 1e-323, 0.30000000000000004, 4.35,
                  100.0, 1e5, 65504.0, 3.4028234663852886e38, 1.401298464324817e-45]
PROC_NAMES = ["Intel(R) Core(TM) i7-8550U CPU @ 1.80GHz", "AMD Ryzen 9 5950X 16-Core Processor", "", " ", "a  b", " lead",
              "trail ", "<&>\"'", "ü€漢字", "x" * 300, "]]>", "&amp;", "a=b;c", "TEST_CPU", "Apple M2 <Pro>", "'single' \"double\""]
COUNTRIES = ["ZAM", "USA", "DEU", "CHN", "ESP", "ITA"]
MAPS = ["Test", "US101", "Lohmar", "a", "Z9z", "Muc", "Peach"]

_cache = {}



# ------------------------------------------------------------------------------------------------ dimension table
# Every constructor parameter, settable attribute, public operation and enum member of the classes the property is anchored in,
# with how the generator varies it ("=" : cannot influence the observation / outside the quantifier, and why).
# check_dimensions() compares the table with the real signatures on every run: anything unknown => exit 2.
VARIED = "varied"
DIMENSIONS = {
    # --- module level: a new public class must be looked at
    **{f"module.{c}": "known class" for c in (
        "CommonRoadSolutionReader", "CommonRoadSolutionWriter", "CostFunction", "PlanningProblemSolution", "Solution",
        "SolutionException", "SolutionReaderException", "StateFields", "StateType", "StateTypeException", "SupportedCostFunctions",
        "TrajectoryType", "VehicleModel", "VehicleType", "XMLStateFields")},
    # --- PlanningProblemSolution
    "PlanningProblemSolution.__init__(planning_problem_id)": "0, 1, negative, around 2^31, beyond 2^64 - each value class required in a document VALIDATED against the tree's schema file (schema-ppid:*); np.int64 (numpy-scalars); re-assigned after assembly (post:pp_id); given twice (duplicate-id)",
    "PlanningProblemSolution.__init__(vehicle_model)": "all five; re-set through the setter (post:model, post:fail_model)",
    "PlanningProblemSolution.__init__(vehicle_type)": "all four; re-assigned (post:vtype)",
    "PlanningProblemSolution.__init__(cost_function)": "every admissible one; re-set (post:cost); refused ones (post:fail_cost, reject stream)",
    "PlanningProblemSolution.__init__(trajectory)": "every exact and richer state class, 1..6 states, consecutive/gapped/repeated/shuffled/huge time steps; "
                                                    "set through the setter before (setter-path) and after assembly (post:traj, post:fail_traj)",
    "PlanningProblemSolution.vehicle_model[setter]": "post:model / post:fail_model",
    "PlanningProblemSolution.cost_function[setter]": "post:cost / post:fail_cost",
    "PlanningProblemSolution.trajectory[setter]": "setter-path, post:traj, post:fail_traj",
    "PlanningProblemSolution.trajectory_type": "read-only; queried first in queries-first; compared with the model (construct / set_trajectory)",
    "PlanningProblemSolution.vehicle_id": "read-only; queries-first; observed through the benchmark id",
    "PlanningProblemSolution.cost_id": "read-only; queries-first; observed through the benchmark id",
    # --- Solution
    "Solution.__init__(scenario_id)": "cooperative flag, country, map, ids, behaviour, prediction ids, version; re-assigned (post:scen)",
    "Solution.__init__(planning_problem_solutions)": "1..4 entries, schema order or not, an id given twice (duplicate-id); re-set: post:reorder, post:same_list, "
                                                     "post:drop, post:append_pps.  = an empty list is outside the quantifier ('one or several planning problems')",
    "Solution.__init__(date)": "None, with/without microseconds, years 1000..9999, omitted (ctor-defaults); re-assigned (post:date)",
    "Solution.__init__(computation_time)": "None, float, int, np.float64, omitted; re-set (post:ct), refused values (post:fail_ct)",
    "Solution.__init__(processor_name)": "None, blank, XML-special, non-ASCII, 'auto' (processor-auto), omitted; re-assigned (post:proc)",
    "Solution.planning_problem_solutions[setter]": "post:reorder / same_list / drop / append_pps",
    "Solution.benchmark_id": "read-only; observed (oracle) and queried first (queries-first)",
    "Solution.vehicle_ids": "read-only; queries-first",
    "Solution.cost_ids": "read-only; queries-first",
    "Solution.planning_problem_ids": "read-only; observed (oracle)",
    "Solution.trajectory_types": "read-only; observed (oracle)",
    "Solution.computation_time[setter]": "post:ct / post:fail_ct",
    "Solution.create_dynamic_obstacle()": "read-only view; called (may raise for input vectors) before writing in queries-first when all state "
                                          "values are moderate (its orientation normalisation loops ~|angle|/2pi times)",
    # --- writer
    "CommonRoadSolutionWriter.__init__(solution)": "fresh writer per call or ONE writer for all calls of a case (writer-reused)",
    "CommonRoadSolutionWriter.dump()": "first call of every case, repeated in call lists",
    "CommonRoadSolutionWriter.dump(pretty)": "True / False",
    "CommonRoadSolutionWriter.write_to_file()": "file-path, several times per writer, after / before dump",
    "CommonRoadSolutionWriter.write_to_file(output_path)": "a scratch directory; the default './' with the process chdir'ed there (default-output-path)",
    "CommonRoadSolutionWriter.write_to_file(filename)": "explicit name / None = solution_<benchmark id>.xml (default-filename)",
    "CommonRoadSolutionWriter.write_to_file(overwrite)": "True/False on a fresh and on an existing file (overwrite-refused: the earlier document must still read back)",
    "CommonRoadSolutionWriter.write_to_file(pretty)": "True / False",
    # --- reader
    "CommonRoadSolutionReader.open()": "file-path; repeated on one file with an earlier result edited (reread)",
    "CommonRoadSolutionReader.open(filepath)": "path of the written file",
    "CommonRoadSolutionReader.fromstring()": "every dump; mutated documents; called repeatedly on one document with an earlier result edited in "
                                             "place and another still alive (reread)",
    "CommonRoadSolutionReader.fromstring(file)": "str and utf-8 bytes (fromstring-bytes)",
    # --- Trajectory (what a solution holds)
    "Trajectory.__init__(initial_time_step)": "0, small, 2^31-1 and beyond; mismatching the first state in the reject stream",
    "Trajectory.__init__(state_list)": "see PlanningProblemSolution.__init__(trajectory)",
    "Trajectory.check_state_list()": "= called by the constructor only", "Trajectory.check_state_list(state_list)": "= see above",
    "Trajectory.initial_time_step[setter]": "re-assigned after assembly (post:init_step); the written time steps are the states' own",
    "Trajectory.append_state()": "post:append_state", "Trajectory.append_state(state)": "a state of the same class with a later time step",
    "Trajectory.state_list": "read-only accessor; states edited in place (post:edit_state)",
    "Trajectory.final_state": "read-only; queries-first",
    "Trajectory.state_at_time_step()": "read-only; queries-first", "Trajectory.state_at_time_step(time_step)": "the initial time step",
    "Trajectory.states_in_time_interval()": "= read-only, returns a new list; no influence",
    "Trajectory.states_in_time_interval(time_begin)": "= see above", "Trajectory.states_in_time_interval(time_end)": "= see above",
    "Trajectory.translate_rotate()": "in-place motion after assembly (post:translate_rotate; raises for input vectors - the state it leaves is written)",
    "Trajectory.translate_rotate(translation)": "small dyadic vectors", "Trajectory.translate_rotate(angle)": "0, quarter turns, arbitrary",
    **{f"Trajectory.resample_continuous_time_state_list({a})": "= alternative constructor for continuous-time state lists; produces an ordinary Trajectory, "
       "which is covered through Trajectory.__init__" for a in ("", "states", "time_stamps_cont", "resampled_dt", "num_resampled_states", "initial_time_cont")},
    "Trajectory.resample_continuous_time_state_list()": "= see its parameters",
    "Trajectory.draw()": "= rendering (C19)", "Trajectory.draw(renderer)": "= rendering (C19)", "Trajectory.draw(draw_params)": "= rendering (C19)",
    # --- enums: every member is generated; a new member must be added to the generator lists and to the Lean model
    **{f"VehicleModel.{m}": VARIED for m in ("PM", "ST", "KS", "MB", "KST")},
    **{f"VehicleType.{m}": VARIED for m in ("FORD_ESCORT", "BMW_320i", "VW_VANAGON", "TRUCK")},
    **{f"CostFunction.{m}": VARIED for m in ALL_COSTS},
    **{f"{e}.{m}": VARIED for e in ("StateType", "TrajectoryType", "StateFields", "XMLStateFields")
       for m in ("MB", "ST", "KS", "KST", "PM", "Input", "PMInput")},
    **{f"SupportedCostFunctions.{m}": "compared with PM_COSTS / ALL_COSTS" for m in ("PM", "ST", "KS", "MB", "KST")},
    "StateType.fields": "tables correspondence", "StateType.xml_fields": "tables correspondence",
    "StateType.get_state_type()": "through the constructors; get_state_type correspondence",
    "StateType.get_state_type(state)": "every state class incl. CustomState with extra attributes",
    "StateType.get_state_type(desired_vehicle_model)": "given (constructor) and None (trajectory setter)",
    "StateType.check_state_type()": "= unused helper (looks a model name up in StateFields); no influence",
    "StateType.check_state_type(vehicle_model)": "= see above",
    "TrajectoryType.state_type": "tables correspondence",
    "TrajectoryType.get_trajectory_type()": "through the constructors and the setter",
    "TrajectoryType.get_trajectory_type(trajectory)": "see PlanningProblemSolution.__init__(trajectory)",
    "TrajectoryType.get_trajectory_type(desired_vehicle_model)": "given / None",
    "TrajectoryType.valid_vehicle_model()": "every (type, model) pair: admissible ones in solutions, the others in the reject stream and post:fail_model",
    "TrajectoryType.valid_vehicle_model(vehicle_model)": "all five",
}


def api_surface():
    """the same names, read from the code under test"""
    import inspect
    import commonroad.common.solution as M
    from commonroad.scenario.trajectory import Trajectory
    out = []
    for n in sorted(vars(M)):
        c = getattr(M, n)
        if inspect.isclass(c) and c.__module__ == M.__name__ and not n.startswith("_"):
            out.append(f"module.{n}")

    def members(cls, cname):
        if "__init__" in vars(cls):
            for prm in list(inspect.signature(cls.__init__).parameters)[1:]:
                out.append(f"{cname}.__init__({prm})")
        for k, v in vars(cls).items():
            if k.startswith("_"):
                continue
            if isinstance(v, property):
                out.append(f"{cname}.{k}" + ("[setter]" if v.fset else ""))
                continue
            f = v.__func__ if isinstance(v, (staticmethod, classmethod)) else v
            if inspect.isfunction(f):
                out.append(f"{cname}.{k}()")
                ps = list(inspect.signature(f).parameters)
                for prm in (ps if isinstance(v, staticmethod) else ps[1:]):
                    out.append(f"{cname}.{k}({prm})")
    for cname in ("PlanningProblemSolution", "Solution", "CommonRoadSolutionWriter", "CommonRoadSolutionReader"):
        members(getattr(M, cname), cname)
    members(Trajectory, "Trajectory")
    for en in ("VehicleModel", "VehicleType", "CostFunction", "StateType", "TrajectoryType", "StateFields", "XMLStateFields",
               "SupportedCostFunctions"):
        out += [f"{en}.{m}" for m in getattr(M, en).__members__]
        if en in ("StateType", "TrajectoryType"):
            members(getattr(M, en), en)
    return out


def check_dimensions():
    from common import InfraError
    from commonroad.common.solution import SupportedCostFunctions
    real = set(api_surface())
    unknown = sorted(real - set(DIMENSIONS))
    stale = sorted(set(DIMENSIONS) - real)
    if unknown or stale:
        raise InfraError("C14 dimension table out of date - look at each and decide how the generator varies it: "
                         f"unknown to the table {unknown}; no longer in the code {stale}")
    for m, v in SupportedCostFunctions.__members__.items():
        want = PM_COSTS if m == "PM" else ALL_COSTS
        if [c.name for c in v.value] != want:
            raise InfraError(f"C14: SupportedCostFunctions.{m} changed to {[c.name for c in v.value]}: update the generator's cost lists and the Lean model")


# ------------------------------------------------------------------------------------------------ value helpers

def enc(v):
    """JSON form of a number: ints stay ints, floats travel as hex strings (exact, keeps -0.0)."""
    return v if isinstance(v, int) else float(v).hex()


def dec(v):
    return v if isinstance(v, int) else float.fromhex(v)


def tok(v):
    """exact opaque token of a numeric value"""
    return float(v).hex()


def gen_value(r, allow_int=True):
    k = r.random()
    if k < 0.35:
        return r.choice(SPECIAL_FLOATS)
    if k < 0.55:
        while True:
            x = struct.unpack("<d", struct.pack("<Q", r.getrandbits(64)))[0]
            if x == x and x not in (float("inf"), float("-inf")):
                return x
    if k < 0.75:
        return r.uniform(-100, 100)
    if k < 0.85:
        return r.randint(-4096, 4096) / 16.0
    if allow_int and k < 0.95:
        return r.choice([0, 1, -1, 3, -7, 10 ** 6, 2 ** 53, -(2 ** 53), r.randint(-1000, 1000)])
    return r.uniform(-1, 1) * 10.0 ** r.randint(-300, 300)


# ------------------------------------------------------------------------------------------------ generators

def class_attrs(cls_name):
    import commonroad.scenario.state as S
    return list(getattr(S, cls_name)().attributes)


def gen_attrs(r, cls):
    """attribute list (in `attributes` order) of the states of one trajectory"""
    if cls.startswith("Custom:"):
        base = list(EXPECT[cls.split(":")[1]])
        extra = r.sample(["acceleration", "jerk", "yaw_rate", "slip_angle", "curvature", "position_z"], r.randint(0, 3))
        attrs = base + [a for a in extra if a not in base]
        r.shuffle(attrs)
        return attrs
    return class_attrs(cls)


def gen_state(r, cls, t, attrs=None):
    """list of [attr, value] pairs for a state of class `cls` at time step t"""
    if attrs is None:
        attrs = gen_attrs(r, cls)
    out = []
    for a in attrs:
        if a == "time_step":
            out.append([a, t])
        elif a == "position":
            if r.random() < 0.1:
                out.append([a, [r.randint(-1000, 1000), r.randint(-1000, 1000)]])
            else:
                out.append([a, [enc(gen_value(r, False)), enc(gen_value(r, False))]])
        else:
            out.append([a, enc(gen_value(r))])
    return out


def gen_times(r):
    n = r.choice([1, 1, 2, 3, 3, 4, 6])
    mode = r.random()
    if mode < 0.08:
        t0 = r.choice([2 ** 31 - 1 - n, 2 ** 31 - n, 2 ** 31, 2 ** 40, 10 ** 18, 10 ** 30])
    elif mode < 0.2:
        t0 = r.choice([2 ** 31 - n, 10 ** 6, 2 ** 16, 12345])
    else:
        t0 = r.choice([0, 0, 0, 1, 5, r.randint(0, 500)])
    if r.random() < 0.75:
        ts = [t0 + i for i in range(n)]
    else:
        ts, t = [], t0
        for _ in range(n):
            ts.append(t)
            t += r.choice([0, 1, 2, 10])
    unordered = False
    if n > 1 and r.random() < 0.2:
        r.shuffle(ts)
        unordered = ts != sorted(ts)
    return ts, unordered


def gen_pps(r, pid, combo=None):
    if combo is None:
        combo = r.choice(COMBOS) if r.random() < 0.8 else r.choice(SUPERSET)
    model, cls, _ = combo
    ts, _ = gen_times(r)
    attrs = gen_attrs(r, cls)
    return {"id": pid, "model": model, "vtype": r.randint(1, 4),
            "cost": r.choice(PM_COSTS if model == "PM" else ALL_COSTS), "cls": cls, "init": ts[0],
            "states": [gen_state(r, cls, t, attrs) for t in ts]}


def gen_scen(r, coop):
    behavior = r.choice([None, None, "S", "T", "P", "I"])
    config = r.choice([None, r.randint(1, 60)])
    if behavior is not None and config is None:
        config = r.randint(1, 9)
    pred = None
    if behavior is not None:
        pred = r.choice([r.randint(1, 30), [r.randint(1, 9), r.randint(1, 9)]])
    return {"cooperative": coop, "country": r.choice(COUNTRIES), "map": r.choice(MAPS), "map_id": r.randint(1, 300),
            "config": config, "behavior": behavior, "pred": pred, "version": r.choice(["2020a", "2020a", "2018b"])}


def gen_date(r):
    if r.random() < 0.25:
        return None
    y = r.choice([1000, 9999, 1970, 2000, 2024, r.randint(2015, 2030), r.randint(1000, 9999)])
    mo = r.randint(1, 12)
    d = r.randint(1, 28) if not (mo == 2 and y % 4 == 0 and (y % 100 != 0 or y % 400 == 0) and r.random() < 0.3) else 29
    return [y, mo, d, r.choice([0, 23, r.randint(0, 23)]), r.choice([0, 59, r.randint(0, 59)]), r.choice([0, 59, r.randint(0, 59)]),
            r.choice([0, 0, 999999, r.randint(0, 999999)])]


def gen_case(ctx, force_combo=None):
    r = ctx.rng
    n = r.choice([1, 1, 1, 2, 2, 3, 4])
    ids = r.sample([0, 1, 2, 3, 7, 42, 1215, 99999, 2 ** 31 - 1, 2 ** 31, 10 ** 12, 2 ** 64 + 1, -1, -5, -2 ** 31 - 1], n)
    if r.random() < 0.15 and 0 not in ids:
        ids[r.randrange(n)] = 0        # the id the library's own examples use
    pps = [gen_pps(r, pid, force_combo if i == 0 else None) for i, pid in enumerate(ids)]
    if n > 1 and r.random() < 0.5:
        order = schema_info()["order"]
        pps.sort(key=lambda p: order.get(_expected_ttype(p), 99))
    ct = None
    if r.random() < 0.6:
        ct = enc(abs(gen_value(r)) or 1.5)
        if (isinstance(ct, int) and ct == 0) or (not isinstance(ct, int) and dec(ct) == 0.0):
            ct = enc(0.25)
    case = {"kind": "solution", "scen": gen_scen(r, n > 1 and r.random() < 0.8), "pps": pps, "date": gen_date(r), "ct": ct,
            "proc": r.choice(PROC_NAMES) if r.random() < 0.6 else None, "pretty": r.random() < 0.5,
            "file": r.random() < 0.25, "mutseed": r.getrandbits(32)}
    if r.random() < 0.15:
        for p in pps:
            if r.random() < 0.7 and abs(p["id"]) < 2 ** 62:
                p["np"] = True              # numpy scalar types for ids, time steps and values
    case["omit"] = [k for k in ("date", "ct", "proc") if r.random() < 0.12]     # constructor defaults
    for k in case["omit"]:
        if k != "date":
            case[k] = None
    if r.random() < 0.04:
        case["proc"] = "auto"               # the documented keyword
        case["omit"] = [k for k in case["omit"] if k != "proc"]
    case["dup"] = {"at": r.randrange(n), "vtype": r.randint(1, 4)} if r.random() < 0.08 else None
    case["post"] = gen_post(r, case) if r.random() < 0.45 else []
    case["queries"] = r.random() < 0.3
    case["reread"] = r.random() < 0.35      # read, edit the result, read again; two results alive at once
    case["reuse"] = r.random() < 0.4
    calls = [{"op": "dump", "pretty": case["pretty"], "bytes": False}]
    for _ in range(r.choice([0, 0, 1, 2, 3])):
        if r.random() < 0.5:
            calls.append({"op": "dump", "pretty": r.random() < 0.5, "bytes": r.random() < 0.5})
        else:
            calls.append({"op": "file", "pretty": r.random() < 0.5, "name": r.choice(["explicit", "explicit", "default"]),
                          "exists": r.random() < 0.4, "overwrite": r.random() < 0.6, "cwd": r.random() < 0.15})
    if case["file"] and not any(c["op"] == "file" for c in calls):
        calls.append({"op": "file", "pretty": True, "name": "explicit", "exists": False, "overwrite": True, "cwd": False})
        calls.append({"op": "file", "pretty": False, "name": "explicit", "exists": False, "overwrite": False, "cwd": False})
    case["calls"] = calls
    return case


def _exact(p):
    """trajectory type if (model, state class) is an exact pair (the setters re-derive the type without the vehicle model)"""
    for m, c, t in COMBOS:
        if m == p["model"] and c == p["cls"]:
            return t
    return None


def gen_post(r, case):
    """A history AFTER the Solution object was assembled: public attributes / setters of the solution, of its
    PlanningProblemSolution objects, of their trajectories and states are used before writing — also setters that refuse
    (a solution is what it holds when it is written)."""
    ops = []
    shadow = copy.deepcopy(case["pps"])          # what sits at each position now
    if case.get("dup"):
        shadow[case["dup"]["at"]]["vtype"] = case["dup"]["vtype"]
    used = {p["id"] for p in shadow}
    want = r.choice([1, 1, 2, 3, 4])
    for _ in range(8 * want):
        if len(ops) >= want:
            break
        k = r.choice(list(range(22)) + [10, 16, 17, 17, 18, 19])      # (the refusing setters apply to few cases: drawn more often)
        n = len(shadow)
        i = r.randrange(n)
        p = shadow[i]
        if k in (0, 1):       # planning_problem_id re-assigned (kept distinct)
            new = r.choice([x for x in [4, 5, 6, 100, 200, 31337, 10 ** 9, -1, 8, 77, 78, 79] if x not in used])
            used.add(new)
            p["id"] = new
            ops.append(["pp_id", i, new])
        elif k == 2:
            ops.append(["vtype", i, r.randint(1, 4)])
        elif k == 3:
            ops.append(["cost", i, r.choice(PM_COSTS if p["model"] == "PM" else ALL_COSTS)])
        elif k == 4:
            ops.append(["ct", r.choice([None, enc(0.5), enc(abs(gen_value(r, False)) or 2.5), 3])])
        elif k == 5:
            ops.append(["proc", r.choice(PROC_NAMES + [None])])
        elif k == 6:
            ops.append(["date", gen_date(r)])
        elif k == 7:
            ops.append(["scen", gen_scen(r, case["scen"]["cooperative"])])
        elif k == 8:
            perm = list(range(n))
            r.shuffle(perm)
            shadow = [shadow[j] for j in perm]
            ops.append(["reorder", perm])
        elif k == 9:
            ops.append(["same_list"])
        elif k == 10 and _exact(p) == "Input":      # another vehicle model the input vector is admissible for
            new = r.choice([m for m in ["KS", "ST", "MB"] if m != p["model"]])
            p["model"] = new
            ops.append(["model", i, new])
        elif k == 11 and _exact(p) is not None and not p.get("np"):     # a new trajectory through the setter
            ts, _ = gen_times(r)
            at = gen_attrs(r, p["cls"])
            t = {"cls": p["cls"], "init": ts[0], "states": [gen_state(r, p["cls"], x, at) for x in ts]}
            p["init"], p["states"] = t["init"], t["states"]
            ops.append(["traj", i, t])
        elif k == 12 and not p.get("np"):           # Trajectory.append_state in place
            last = p["states"][-1]
            t_last = dict(last)["time_step"]
            st = gen_state(r, p["cls"], t_last + r.choice([1, 1, 3]), [a for a, _ in last])
            p["states"] = p["states"] + [st]
            ops.append(["append_state", i, p["cls"], st])
        elif k == 13:                               # a state attribute overwritten in place
            j = r.randrange(len(p["states"]))
            names = [a for a, _ in p["states"][j] if a != "time_step"]
            a = r.choice(names)
            v = [enc(gen_value(r, False)), enc(gen_value(r, False))] if a == "position" else enc(gen_value(r))
            p["states"][j] = [[x, (v if x == a else y)] for x, y in p["states"][j]]
            ops.append(["edit_state", i, j, a, v])
        elif k == 14 and n > 1:
            del shadow[i]
            ops.append(["drop", i])
        elif k == 15 and n < 5:
            new = r.choice([x for x in [11, 12, 13, 500, 600] if x not in used])
            used.add(new)
            q = gen_pps(r, new)
            shadow.append(q)
            ops.append(["append_pps", copy.deepcopy(q)])
        elif k == 20:
            ops.append(["init_step", i, r.choice([0, 1, 7, dict(p["states"][0])["time_step"], 10 ** 6])])
        elif k == 21 and all(abs(float(dec(v))) < 1e4 for st in p["states"] for a, v in st if a == "orientation"):
            # (Trajectory.translate_rotate normalises orientations with a subtract-2*pi loop: moderate angles only)
            ops.append(["translate_rotate", i, [enc(r.randint(-64, 64) / 16.0), enc(r.randint(-64, 64) / 16.0)],
                        enc(r.choice([0.0, 1.5707963267948966, 3.141592653589793, r.uniform(-3, 3)]))])
        elif k == 16:                               # refused: computation time must be positive
            ops.append(["fail_ct", r.choice([enc(-1.0), 0, enc(-0.0), enc(-5e-324)])])
        elif k == 17 and p["model"] == "PM":        # refused: cost function not supported by PM
            ops.append(["fail_cost", i, r.choice([c for c in ALL_COSTS if c not in PM_COSTS])])
        elif k == 18 and _exact(p) in ("PM", "ST", "KS", "MB", "KST", "PMInput"):   # refused: model does not fit the trajectory
            ops.append(["fail_model", i, r.choice([m for m in ["PM", "ST", "KS", "MB", "KST"] if m != p["model"]])])
        elif k == 19 and _exact(p) in ("KS", "ST", "MB", "KST"):     # refused: a PM input vector for a non-PM model
            at = gen_attrs(r, "PMInputState")
            ops.append(["fail_traj", i, {"cls": "PMInputState", "init": 0, "states": [gen_state(r, "PMInputState", 0, at)]}])
    return [o for o in ops if not (o[0] == "ct" and o[1] is not None and dec(o[1]) == 0)]


def _expected_ttype(p):
    for m, c, t in COMBOS + SUPERSET:
        if m == p["model"] and c == p["cls"]:
            return schema_tag(t)
    return "?"


def schema_tag(t):
    return {"PM": "pmTrajectory", "ST": "stTrajectory", "KS": "ksTrajectory", "KST": "kstTrajectory", "MB": "mbTrajectory",
            "Input": "inputVector", "PMInput": "pmInputVector"}[t]


def gen_reject(ctx):
    """constructor calls most of which must be refused"""
    r = ctx.rng
    k = r.randrange(8)
    p = gen_pps(r, r.randint(0, 9))
    if k == 0:      # cost function not supported by PM
        p = gen_pps(r, 1, ("PM", r.choice(["PMState", "PMInputState"]), "PM"))
        p["cost"] = r.choice([c for c in ALL_COSTS if c not in PM_COSTS])
    elif k == 1:    # vehicle model does not fit the states
        p["model"] = r.choice([m for m in ["PM", "ST", "KS", "MB", "KST"] if m != p["model"]])
    elif k == 2:    # KST / PM with a KS-type input vector, others with a PM input vector
        p = gen_pps(r, 1, r.choice([("KST", "InputState", "Input"), ("PM", "InputState", "Input"), ("KS", "PMInputState", "PMInput"),
                                    ("KST", "PMInputState", "PMInput")]))
    elif k == 3:    # a state that fits no type
        p["cls"] = r.choice(["Custom:PM", "Custom:KS"])
        at = gen_attrs(r, p["cls"])
        p["states"] = [[kv for kv in gen_state(r, p["cls"], t, at) if kv[0] != "velocity"] for t in range(2)]
        p["init"] = 0
    elif k == 4:    # initial time step differs from the first state's
        p["init"] = p["init"] + r.choice([1, -1, 5])
    elif k == 5:    # no states
        p["states"] = []
    elif k == 6:    # negative time step
        at = gen_attrs(r, p["cls"])
        p["states"] = [gen_state(r, p["cls"], t, at) for t in (-1, 0)]
        p["init"] = -1
    else:           # states with different attribute sets
        p["cls"] = "Custom:KS"
        at = gen_attrs(r, "Custom:KS")
        p["states"] = [gen_state(r, "Custom:KS", 0, at), gen_state(r, "Custom:KS", 1, at) + [["jerk_dot", enc(1.0)]]]
        p["init"] = 0
    return {"kind": "reject", "pps": [p]}


# ------------------------------------------------------------------------------------------------ building real objects

def npify(v):
    """the same number as a numpy scalar (np.float64 / np.int64), where it fits"""
    import numpy as np
    if isinstance(v, int):
        return np.int64(v) if -2 ** 63 <= v < 2 ** 63 else v
    return np.float64(v)


def build_state(cls, pairs, np_scalars=False):
    import numpy as np
    import commonroad.scenario.state as S
    kw = {}
    for a, v in pairs:
        if a == "position":
            x, y = dec(v[0]), dec(v[1])
            kw[a] = np.array([x, y])
        elif a == "time_step":
            kw[a] = npify(v) if np_scalars else v
        else:
            kw[a] = npify(dec(v)) if np_scalars else dec(v)
    if cls.startswith("Custom:"):
        return S.CustomState(**kw)
    return getattr(S, cls)(**kw)


def build_pps(p):
    from commonroad.common.solution import CostFunction, PlanningProblemSolution, VehicleModel, VehicleType
    from commonroad.scenario.trajectory import Trajectory
    tr = Trajectory(p["init"], [build_state(p["cls"], s, p.get("np", False)) for s in p["states"]])
    if p.get("np"):
        pid = npify(p["id"])
        return PlanningProblemSolution(pid, VehicleModel[p["model"]], VehicleType(p["vtype"]), CostFunction[p["cost"]], tr)
    decoy = _decoy_trajectory(p)
    if decoy is not None and p["id"] % 3 == 1:
        # the solution is constructed with the OTHER admissible trajectory kind first and gets its real trajectory through the
        # public setter (a solution is what it holds when it is written, however it got there)
        pps = PlanningProblemSolution(p["id"], VehicleModel[p["model"]], VehicleType(p["vtype"]), CostFunction[p["cost"]], decoy)
        pps.trajectory = tr
        return pps
    return PlanningProblemSolution(p["id"], VehicleModel[p["model"]], VehicleType(p["vtype"]), CostFunction[p["cost"]], tr)


def _decoy_trajectory(p):
    """A one-state trajectory of the other kind that is admissible for the vehicle model (state trajectory <-> input vector)."""
    import numpy as np
    import commonroad.scenario.state as S
    from commonroad.scenario.trajectory import Trajectory
    ttype = None
    for m, c, t in COMBOS:       # (state classes with extra attributes are matched with the vehicle model only by the constructor)
        if m == p["model"] and c == p["cls"]:
            ttype = t
    if ttype is None or p["model"] == "KST":
        return None
    if ttype in ("Input", "PMInput"):
        names = EXPECT[p["model"]]
        kw = {n: (np.array([0.0, 0.0]) if n == "position" else 0 if n == "time_step" else 0.0) for n in names}
        return Trajectory(0, [getattr(S, STATE_CLASS[p["model"]])(**kw)])
    if p["model"] == "PM":
        return Trajectory(0, [S.PMInputState(time_step=0, acceleration=0.0, acceleration_y=0.0)])
    return Trajectory(0, [S.InputState(time_step=0, steering_angle_speed=0.0, acceleration=0.0)])


def build_solution(case, info=None):
    from commonroad.common.solution import Solution
    from commonroad.scenario.scenario import ScenarioID
    s = case["scen"]
    sid = ScenarioID(s["cooperative"], s["country"], s["map"], s["map_id"], s["config"], s["behavior"], s["pred"], s["version"])
    specs = list(case["pps"])
    if case.get("dup"):         # a second PlanningProblemSolution with an id that is already in the list: the dict keeps one
        extra = copy.deepcopy(specs[case["dup"]["at"]])
        extra["vtype"] = case["dup"]["vtype"]
        specs.append(extra)
    built = [build_pps(p) for p in specs]
    kw = {}
    omit = case.get("omit") or []
    if "date" not in omit:
        kw["date"] = datetime(*case["date"]) if case["date"] is not None else None
    if "ct" not in omit:
        kw["computation_time"] = dec(case["ct"]) if case["ct"] is not None else None
    if "proc" not in omit:
        kw["processor_name"] = case["proc"]
    sol = Solution(sid, built, **kw)
    if info is not None:
        info["built"] = [canon_pps(p) for p in built]
        info["assembled"] = [canon_pps(p) for p in sol.planning_problem_solutions]
        info["unexpected"] = []
    un = apply_post(sol, case.get("post") or [])
    if info is not None:
        info["unexpected"] = un
    return sol


def apply_post(sol, ops):
    """history after assembly; returns the labels of operations that were expected to raise but did not"""
    import numpy as np
    from commonroad.common.solution import CostFunction, VehicleModel, VehicleType
    from commonroad.scenario.scenario import ScenarioID
    from commonroad.scenario.trajectory import Trajectory
    unexpected = []

    def must_fail(label, f):
        try:
            f()
        except Exception:   # noqa: the refusal is what is expected; the state it leaves is what is observed
            return
        unexpected.append(label)

    for op in ops:
        pps = sol.planning_problem_solutions
        k = op[0]
        if k == "pp_id":
            pps[op[1]].planning_problem_id = op[2]
        elif k == "vtype":
            pps[op[1]].vehicle_type = VehicleType(op[2])
        elif k == "cost":
            pps[op[1]].cost_function = CostFunction[op[2]]
        elif k == "model":
            pps[op[1]].vehicle_model = VehicleModel[op[2]]
        elif k == "traj":
            t = op[2]
            pps[op[1]].trajectory = Trajectory(t["init"], [build_state(t["cls"], st) for st in t["states"]])
        elif k == "append_state":
            pps[op[1]].trajectory.append_state(build_state(op[2], op[3]))
        elif k == "init_step":
            pps[op[1]].trajectory.initial_time_step = op[2]
        elif k == "translate_rotate":
            try:    # raises for states without a position (input vectors): what it leaves behind is what is written
                pps[op[1]].trajectory.translate_rotate(np.array([dec(op[2][0]), dec(op[2][1])]), dec(op[3]))
            except Exception:   # noqa
                pass
        elif k == "edit_state":
            st = pps[op[1]].trajectory.state_list[op[2]]
            setattr(st, op[3], np.array([dec(op[4][0]), dec(op[4][1])]) if op[3] == "position" else dec(op[4]))
        elif k == "ct":
            sol.computation_time = dec(op[1]) if op[1] is not None else None
        elif k == "proc":
            sol.processor_name = op[1]
        elif k == "date":
            sol.date = datetime(*op[1]) if op[1] is not None else None
        elif k == "scen":
            s = op[1]
            sol.scenario_id = ScenarioID(s["cooperative"], s["country"], s["map"], s["map_id"], s["config"], s["behavior"],
                                         s["pred"], s["version"])
        elif k == "reorder":
            sol.planning_problem_solutions = [pps[j] for j in op[1]]
        elif k == "same_list":      # the list the getter returned is handed back to the setter
            sol.planning_problem_solutions = pps
        elif k == "drop":
            sol.planning_problem_solutions = [q for j, q in enumerate(pps) if j != op[1]]
        elif k == "append_pps":
            sol.planning_problem_solutions = pps + [build_pps(op[1])]
        elif k == "fail_ct":
            must_fail(k, lambda: setattr(sol, "computation_time", dec(op[1])))
        elif k == "fail_cost":
            must_fail(k, lambda: setattr(pps[op[1]], "cost_function", CostFunction[op[2]]))
        elif k == "fail_model":
            must_fail(k, lambda: setattr(pps[op[1]], "vehicle_model", VehicleModel[op[2]]))
        elif k == "fail_traj":
            t = op[2]
            must_fail(k, lambda: setattr(pps[op[1]], "trajectory", Trajectory(t["init"], [build_state(t["cls"], st) for st in t["states"]])))
        else:
            raise ValueError("unknown history operation " + str(k))
    return unexpected


def run_queries(sol):
    """read-only queries before the observation (lazily computed values, derived lists, the obstacle view)"""
    qs = [lambda: sol.benchmark_id, lambda: sol.vehicle_ids, lambda: sol.cost_ids, lambda: sol.planning_problem_ids,
          lambda: sol.trajectory_types, lambda: sol.computation_time]
    # the obstacle view normalises orientations with a subtract-2*pi loop (util.make_valid_orientation): only for moderate values
    moderate = all(abs(float(x)) < 1e4 for p in sol.planning_problem_solutions for st in p.trajectory.state_list
                   for a in st.attributes if a not in ("position", "time_step") and getattr(st, a) is not None
                   for x in [getattr(st, a)])
    if moderate:
        qs.append(lambda: sol.create_dynamic_obstacle())
    for p in sol.planning_problem_solutions:
        qs += [lambda p=p: (p.trajectory_type, p.vehicle_id, p.cost_id, p.vehicle_model, p.cost_function),
               lambda p=p: p.trajectory.final_state, lambda p=p: p.trajectory.state_at_time_step(p.trajectory.initial_time_step),
               lambda p=p: [st.attributes for st in p.trajectory.state_list]]
    for q in qs:
        call(q)


# ------------------------------------------------------------------------------------------------ canonical forms

def canon_fval(a, v):
    if v is None:
        return None
    if a == "time_step":
        return {"t": int(v)}
    if a == "position":
        return {"v": [tok(v[0]), tok(v[1])]}
    return {"n": tok(v)}


def canon_state(st):
    return [[a, canon_fval(a, getattr(st, a))] for a in st.attributes]


def date_text(d):
    return "%04d-%02d-%02dT%02d:%02d:%02d" % (d.year, d.month, d.day, d.hour, d.minute, d.second)


def canon_pps(p):
    tr = p.trajectory
    return {"id": int(p.planning_problem_id), "model": p.vehicle_model.name, "vtype": p.vehicle_type.value,
            "cost": p.cost_function.name, "ttype": p.trajectory_type.name,
            "traj": {"init": int(tr.initial_time_step), "states": [canon_state(s) for s in tr.state_list]}}


def canon_solution(sol):
    return {"scen": str(sol.scenario_id), "ver": sol.scenario_id.scenario_version,
            "pps": [canon_pps(p) for p in sol.planning_problem_solutions],
            "date": [date_text(sol.date), sol.date.microsecond] if sol.date is not None else None,
            "ct": tok(sol.computation_time) if sol.computation_time is not None else None,
            "proc": sol.processor_name}


def num_text(t):
    if t == "":
        return ""          # empty element: elem.text is None
    try:
        return float(t).hex()
    except (ValueError, TypeError):
        return "!" + str(t)


def int_text(t):
    if t == "":
        return ""
    try:
        return str(int(t))
    except (ValueError, TypeError):
        return "!" + str(t)


def date_attr(t):
    for fmt in ("%Y-%m-%dT%H:%M:%S", "%Y-%m-%d"):
        try:
            return date_text(datetime.strptime(t, fmt))
        except ValueError:
            pass
    return "!" + t


def parse_bid(bid):
    seg = bid.replace(" ", "").split(":")
    return {"vids": re.sub(r"[\[\]]", "", seg[0]).split(","), "cids": re.sub(r"[\[\]]", "", seg[1]).split(","),
            "scen": seg[2], "ver": seg[3]}


def doc_tree(doc, canonical):
    """(tag, attributes, children, text) of a solution document, parsed with lxml; texts canonicalised to tokens or left raw"""
    from lxml import etree
    root = etree.fromstring(doc.encode("utf-8") if isinstance(doc, str) else doc)
    nt = num_text if canonical else (lambda t: t)
    it = int_text if canonical else (lambda t: t)
    attrs = []
    for k, v in sorted(root.attrib.items()):
        if k == "benchmark_id":
            continue
        if canonical and k == "computation_time":
            v = num_text(v) or "!"
        if canonical and k == "date":
            v = date_attr(v)
        attrs.append([k, v])
    trajs = []
    for tn in root:
        states = []
        for sn in tn:
            states.append({"tag": sn.tag, "leaves": [[l.tag, (it if l.tag == "time" else nt)(l.text or "")] for l in sn]})
        trajs.append({"tag": tn.tag,
                      "attrs": [[k, (it(v) or "!") if k == "planningProblem" else v] for k, v in sorted(tn.attrib.items())],
                      "states": states})
    bid = root.attrib.get("benchmark_id", "")
    return {"tag": root.tag, "bid": bid, "bench": parse_bid(bid), "attrs": attrs, "trajs": trajs}


def tree_doc(tree):
    """serialise a (raw-text) tree back to XML text"""
    from lxml import etree
    root = etree.Element(tree["tag"])
    root.set("benchmark_id", tree["bid"])
    for k, v in tree["attrs"]:
        root.set(k, v)
    for tn in tree["trajs"]:
        t = etree.SubElement(root, tn["tag"])
        for k, v in tn["attrs"]:
            t.set(k, v)
        for sn in tn["states"]:
            s = etree.SubElement(t, sn["tag"])
            for tag, text in sn["leaves"]:
                etree.SubElement(s, tag).text = text
    return etree.tostring(root, encoding="unicode")


def canon_tree(tree):
    """canonicalise the texts of a raw tree"""
    out = copy.deepcopy(tree)
    out["attrs"] = [[k, (num_text(v) or "!") if k == "computation_time" else date_attr(v) if k == "date" else v] for k, v in tree["attrs"]]
    for tn in out["trajs"]:
        tn["attrs"] = [[k, (int_text(v) or "!") if k == "planningProblem" else v] for k, v in tn["attrs"]]
        for sn in tn["states"]:
            sn["leaves"] = [[t, int_text(x) if t == "time" else num_text(x)] for t, x in sn["leaves"]]
    out["bench"] = parse_bid(out["bid"])
    return out


def model_tree_view(t):
    """the part of a tree the model's encoder returns"""
    return {"tag": t["tag"], "bid": t["bid"], "attrs": sorted(t["attrs"]), "trajs": t["trajs"]}


# ------------------------------------------------------------------------------------------------ schema

def schema_info():
    """the shipped schema OF THE TREE UNDER TEST, read with lxml: validator, the JSON form compared with the Lean term, tag -> position.

    The JSON form is what the Lean term `solSchema` can represent (root, trajectory elements with their state element and typed leaves,
    root attributes; every trajectory element 0..unbounded with exactly one required xs:string attribute planningProblem, states
    1..unbounded).  Whatever the file says beyond / against that shape is listed under "unrepresentable" - the comparison with the
    Lean term then DISAGREES (a verdict path: the oracle keeps judging the written documents against the file with lxml) instead of
    this parser giving up (which would be an infrastructure exit for a change of the shipped schema)."""
    if "schema" not in _cache:
        from lxml import etree
        unrep, trajs, attrs, rootname, xsd, broken = [], [], [], None, None, ""
        try:
            x = etree.parse(XSD_PATH)
        except (OSError, etree.XMLSyntaxError) as e:
            x, broken = None, f"shipped solution schema cannot be read: {type(e).__name__}: {e}"
        if x is not None:
            try:
                xsd = etree.XMLSchema(x)
            except etree.XMLSchemaParseError as e:
                broken = f"shipped solution schema is not an XML schema: {e}"
            rootel = x.getroot().find(XS + "element")
            ct = rootel.find(XS + "complexType") if rootel is not None else None
            seq = ct.find(XS + "sequence") if ct is not None else None
            if rootel is None or ct is None or seq is None:
                unrep.append("root element / complexType / sequence not found")
            else:
                rootname = rootel.get("name")
                for el in seq.findall(XS + "element"):
                    tag = el.get("name")
                    if (el.get("minOccurs"), el.get("maxOccurs")) != ("0", "unbounded"):
                        unrep.append(f"{tag}: occurrence bounds {el.get('minOccurs')}..{el.get('maxOccurs')}")
                    tct = el.find(XS + "complexType")
                    tseq = tct.find(XS + "sequence") if tct is not None else None
                    st = tseq.find(XS + "element") if tseq is not None else None
                    if st is None:
                        unrep.append(f"{tag}: no state element")
                        trajs.append({"tag": tag, "state": None, "leaves": []})
                        continue
                    if (st.get("minOccurs"), st.get("maxOccurs")) != ("1", "unbounded"):
                        unrep.append(f"{tag}/{st.get('name')}: occurrence bounds {st.get('minOccurs')}..{st.get('maxOccurs')}")
                    if len(tseq.findall(XS + "element")) != 1:
                        unrep.append(f"{tag}: more than one child element kind")
                    tattrs = [(a.get("name"), a.get("type"), a.get("use")) for a in tct.findall(XS + "attribute")]
                    if tattrs != [("planningProblem", "xs:string", "required")]:
                        unrep.append(f"{tag}: attributes {tattrs}")
                    sct = st.find(XS + "complexType")
                    alle = sct.find(XS + "all") if sct is not None else None
                    if alle is None:
                        unrep.append(f"{tag}/{st.get('name')}: content is not xs:all")
                    leaves = [[l.get("name"), l.get("type")] for l in (alle.findall(XS + "element") if alle is not None else [])]
                    for l in (alle.findall(XS + "element") if alle is not None else []):
                        if l.get("type") is None or l.get("minOccurs") not in (None, "1") or l.get("maxOccurs") not in (None, "1") or len(l):
                            unrep.append(f"{tag}/{st.get('name')}/{l.get('name')}: not a plain typed leaf")
                    trajs.append({"tag": tag, "state": st.get("name"), "leaves": leaves})
                attrs = [[a.get("name"), a.get("type"), a.get("use") == "required"] for a in ct.findall(XS + "attribute")]
        js = {"root": rootname, "trajs": trajs, "attrs": attrs}
        if unrep or broken:
            js["unrepresentable"] = ([broken] if broken else []) + unrep
        _cache["schema"] = {"xsd": xsd, "broken": broken, "json": js, "order": {t["tag"]: i for i, t in enumerate(trajs)}}
    return _cache["schema"]


def lxml_valid(doc):
    """validity of a document against the schema file of the tree under test, decided by libxml2 alone"""
    from lxml import etree
    info = schema_info()
    if info["xsd"] is None:
        return False, "SCHEMA_UNUSABLE " + info["broken"]
    d = etree.fromstring(doc.encode("utf-8") if isinstance(doc, str) else doc)
    ok = info["xsd"].validate(d)
    return ok, (str(info["xsd"].error_log.last_error) if not ok else "")


# ------------------------------------------------------------------------------------------------ static correspondences

def check_static(ctx):
    """tables and schema: the Lean terms against the current source / xsd"""
    from commonroad.common.solution import StateFields, StateType, TrajectoryType, XMLStateFields
    import commonroad.scenario.state as S
    impl = []
    for sf in StateFields:
        n = sf.name
        impl.append({"name": n, "state": StateType[n].value, "traj": TrajectoryType[n].value, "fields": list(sf.value),
                     "xml": [list(x) if isinstance(x, tuple) else x for x in XMLStateFields[n].value],
                     "class": list(getattr(S, STATE_CLASS[n])().attributes)})
    case = {"kind": "static"}
    ctx.compare(case, impl, ctx.driver.ask("C14", "tables", {}), "StateFields/XMLStateFields/StateType/TrajectoryType/state classes vs model tables")
    ctx.compare(case, schema_info()["json"], ctx.driver.ask("C14", "schema", {}), "CommonRoadSolution_schema.xsd vs CR.Sol.solSchema")
    # the field tables of the code must be index-aligned (same length, tuple <-> position, "time" <-> time_step)
    for sf in StateFields:
        xs = XMLStateFields[sf.name].value
        ok = len(xs) == len(sf.value) and all((isinstance(x, tuple)) == (f == "position") and ((x == "time") == (f == "time_step"))
                                              for x, f in zip(xs, sf.value))
        if not ok:
            ctx.fail(f"C14/tables/misaligned/{sf.name}", f"StateFields.{sf.name} and XMLStateFields.{sf.name} are not index-aligned", case)


# ------------------------------------------------------------------------------------------------ the oracle

def hexes(v):
    import numpy as np
    if isinstance(v, np.ndarray):
        return [float(x).hex() for x in v]
    return float(v).hex()


def oracle_roundtrip(ctx, case, sol, sol2, via):
    """the property statement, evaluated on the real objects: `sol` written, `sol2` read back"""
    tts = "+".join(t.name for t in sol.trajectory_types)

    def bad(what, text):
        ctx.fail(f"C14/{via}/{what}", f"{text} [types {tts}]", case)

    if sol2.benchmark_id != sol.benchmark_id:
        bad("benchmark-id", f"benchmark id {sol.benchmark_id!r} read back as {sol2.benchmark_id!r}")
    if sol2.planning_problem_ids != sol.planning_problem_ids:
        bad("planning-problem-ids", f"ids {sol.planning_problem_ids} read back as {sol2.planning_problem_ids}")
    if [t.name for t in sol2.trajectory_types] != [t.name for t in sol.trajectory_types]:
        bad("trajectory-types", f"types {sol.trajectory_types} read back as {sol2.trajectory_types}")
    for a, b in zip(sol.planning_problem_solutions, sol2.planning_problem_solutions):
        want = sorted(a.trajectory.state_list, key=lambda s: s.time_step)      # stable
        got = b.trajectory.state_list
        tname = a.trajectory_type.name
        if [s.time_step for s in got] != [s.time_step for s in want]:
            bad(f"time-steps/{tname}", f"time steps {[s.time_step for s in a.trajectory.state_list]} read back as "
                                       f"{[s.time_step for s in got]} (expected ascending)")
            continue
        if b.trajectory.initial_time_step != got[0].time_step:
            bad(f"time-steps/{tname}", "initial time step of the read trajectory is not its first state's")
        for sa, sb in zip(want, got):
            for fld in EXPECT.get(tname, []):
                vb = getattr(sb, fld, None)
                if vb is None:
                    bad(f"state-value-missing/{tname}", f"{tname} state read back without '{fld}'")
                    continue
                va = getattr(sa, fld)
                if fld == "time_step":
                    same = type(vb) is int and vb == va
                else:
                    same = hexes(va) == hexes(vb)
                if not same:
                    bad(f"state-value/{tname}", f"{fld} = {va!r} read back as {vb!r} at time step {sa.time_step}")
    ct, ct2 = sol.computation_time, sol2.computation_time
    if (ct is None) != (ct2 is None) or (ct is not None and (float(ct).hex() != float(ct2).hex())):
        bad("computation-time", f"computation time {ct!r} read back as {ct2!r}")
    if sol.processor_name != "auto" and sol2.processor_name != sol.processor_name:
        bad("processor-name", f"processor name {sol.processor_name!r} read back as {sol2.processor_name!r}")
    want_date = sol.date.replace(microsecond=0) if sol.date is not None else None
    if sol2.date != want_date:
        bad("date", f"date {sol.date!r} read back as {sol2.date!r}")


def oracle_schema(ctx, case, sol, doc):
    """second sentence of the property: the document conforms to the shipped schema, for the trajectory types it defines,
    listed in the order it defines them.  Judged by libxml2 alone on the schema FILE of the tree under test (not on the Lean term, not
    on this module's reading of the file): a schema the model cannot represent is still a schema the document does or does not meet."""
    info = schema_info()
    if info["xsd"] is None:
        ctx.fail("C14/schema/unusable", f"no written document can conform: {info['broken'][:300]}", case)
        return
    order = info["order"]
    idx = [order.get(t.value) for t in sol.trajectory_types]
    applicable = all(i is not None for i in idx) and idx == sorted(idx)
    if not applicable:
        ctx.tag("schema-not-applicable")
        return
    if any(s.time_step > 2 ** 31 - 1 for p in sol.planning_problem_solutions for s in p.trajectory.state_list):
        ctx.excluded += 1            # xs:int is 32 bit; the text does not promise more
        return
    ctx.tag("schema-checked")
    ids = [int(i) for i in sol.planning_problem_ids]
    # value classes of the planning problem id (a Python int: the constructor accepts every one of them) in a VALIDATED document
    for i in ids:
        ctx.tag("schema-ppid:zero" if i == 0 else "schema-ppid:negative" if i < 0 else "schema-ppid:over-int32" if i > 2 ** 31 - 1
                else "schema-ppid:one" if i == 1 else "schema-ppid:positive")
    ok, err = lxml_valid(doc)
    if not ok:
        tts = "+".join(t.name for t in sol.trajectory_types)
        m = re.search(r"SCHEMAV_\w+", err)
        ctx.fail(f"C14/schema/invalid/{m.group(0) if m else 'error'}",
                 f"document of types {tts}, planning problem ids {ids} is not valid: {err[:300]}", case)


# ------------------------------------------------------------------------------------------------ mutants

BAD_NUM = ["abc", "1e5.0", "", "1,5", "0x10", "inf", " 1.5 ", "1_0", "1.5e3", "-.5", "5.", "+7", "--1", "1.5.2", "NaN", "1e+400"]
BAD_INT = ["1.0", "abc", " 7 ", "+7", "-0", "2147483648", "1_0", "", "-3", "007"]
BAD_VID = ["XX1", "PM5", "PM", "KST22", "PMx", "pm1", "MB0", "KS2", "ST4", "KST1", "", "PM1x"]
BAD_CID = ["JB2", "", "jb1", "SA1", "TR1", "XX"]


def mutate(r, tree):
    """one structural mutation of a raw-text tree; returns (label, tree)"""
    t = copy.deepcopy(tree)
    trajs = t["trajs"]
    tn = r.choice(trajs)
    sn = r.choice(tn["states"])
    k = r.randrange(20)
    if k == 0:
        del sn["leaves"][r.randrange(len(sn["leaves"]))]
        return "drop-leaf", t
    if k == 1:
        i = r.randrange(len(sn["leaves"]))
        sn["leaves"].insert(r.randrange(len(sn["leaves"]) + 1), [sn["leaves"][i][0], r.choice(["1.0", "2.5", "7"])])
        return "duplicate-leaf", t
    if k == 2:
        sn["leaves"][r.randrange(len(sn["leaves"]))][0] = r.choice(["foo", "X", "velocity", "time", "hitchAngle"])
        return "rename-leaf", t
    if k == 3:
        sn["tag"] = r.choice(["ksState", "pmState", "state", "input", "kstState"])
        return "rename-state", t
    if k == 4:
        tn["tag"] = r.choice(["kstTrajectory", "trajectory", "pmTrajectory", "inputVector", "ksTrajectory", "mbTrajectory"])
        return "rename-trajectory", t
    if k == 5:
        cand = [l for l in sn["leaves"] if l[0] != "time"]
        r.choice(cand)[1] = r.choice(BAD_NUM)
        return "number-text", t
    if k == 6:
        for l in sn["leaves"]:
            if l[0] == "time":
                l[1] = r.choice(BAD_INT)
        return "time-text", t
    if k == 7:
        tn["attrs"] = []
        return "no-planning-problem", t
    if k == 8:
        tn["attrs"] = tn["attrs"] + [[r.choice(["foo", "id"]), "1"]]
        return "extra-trajectory-attribute", t
    if k == 9:
        tn["states"] = []
        return "no-states", t
    if k == 10:
        r.shuffle(trajs)
        return "shuffle-trajectories", t
    if k == 11:
        t["attrs"] = t["attrs"] + [[r.choice(["author", "version"]), "x"]]
        return "extra-root-attribute", t
    if k == 12:
        t["attrs"] = [a for a in t["attrs"] if a[0] != "date"] + [["date", r.choice(["2020-01-02", "yesterday", "2020-13-01T00:00:00",
                                                                                   "2020-01-02T03:04", "20-01-02T03:04:05"])]]
        return "date-text", t
    if k == 13:
        t["attrs"] = [a for a in t["attrs"] if a[0] != "computation_time"] + [["computation_time", r.choice(BAD_NUM + ["-1.0", "0", "0.0"])]]
        return "computation-time-text", t
    if k in (14, 15, 16):
        b = parse_bid(t["bid"])
        if k == 14:
            b["vids"][r.randrange(len(b["vids"]))] = r.choice(BAD_VID)
            lab = "vehicle-id"
        elif k == 15:
            b["cids"][r.randrange(len(b["cids"]))] = r.choice(BAD_CID)
            lab = "cost-id"
        else:
            which = r.choice(["vids", "cids"])
            b[which] = b[which][:-1]
            lab = "fewer-ids"
        t["bid"] = "%s:%s:%s:%s" % ("[%s]" % ",".join(b["vids"]), "[%s]" % ",".join(b["cids"]), b["scen"], b["ver"])
        return lab, t
    if k == 17:
        other = r.choice(trajs)
        tn["attrs"] = copy.deepcopy(other["attrs"])
        return "same-planning-problem", t
    if k == 18:
        tn["attrs"] = [["planningProblem", r.choice(["abc", "1.5", "", " 3 "])]]
        return "planning-problem-text", t
    return "shuffle-states", shuffle_states(r, t)


def shuffle_states(r, t):
    for tn in t["trajs"]:
        r.shuffle(tn["states"])
        for sn in tn["states"]:
            r.shuffle(sn["leaves"])
    return t


def countries():
    if "countries" not in _cache:
        import iso3166
        _cache["countries"] = sorted(iso3166.countries_by_alpha3)
    return _cache["countries"]


def doc_view(t):
    """the root element as the document has it (benchmark id = one attribute string), for the string-level reader model"""
    return {"tag": t["tag"], "bid": t["bid"], "attrs": t["attrs"], "trajs": t["trajs"]}


def ask_decode(ctx, ctree):
    return ctx.driver.ask("C14", "decode", {"tree": doc_view(ctree), "countries": countries()})


def check_py_texts(ctx, case, raw):
    """the lexical assumptions of C14_sol_valid_xsd / C14_sol_roundtrip_py, on the texts Python actually wrote"""
    nums = [x for tn in raw["trajs"] for sn in tn["states"] for t, x in sn["leaves"] if t != "time"]
    nums += [v for k, v in raw["attrs"] if k == "computation_time"]
    times = [x for tn in raw["trajs"] for sn in tn["states"] for t, x in sn["leaves"] if t == "time"]
    dates = [v for k, v in raw["attrs"] if k == "date"]
    model = ctx.driver.ask("C14", "py_texts", {"nums": nums, "dates": dates, "times": times})
    want = {"nums": [True] * len(nums), "dates": [True] * len(dates), "times": [True] * len(times)}
    ctx.compare({"kind": "texts", "nums": nums, "dates": dates, "times": times}, want, model,
                "texts written by Python vs the grammar pyNumL / pyDateL / Int.repr and the xs:float / xs:dateTime / xs:int checkers")


def canon_result(res):
    if res[0] == "ok":
        return {"ok": canon_solution(res[1])}
    return {"err": res[1]}


def run_mutant(ctx, case, raw_tree):
    import random
    from commonroad.common.solution import CommonRoadSolutionReader
    r = random.Random(case.get("mutseed", 0))
    for _ in range(2):
        label, mt = mutate(r, raw_tree)
        ctx.tag("mutant", "mutant:" + label)
        doc = tree_doc(mt)
        sub = {"kind": "document", "doc": doc, "label": label}
        ct = canon_tree(mt)
        impl = canon_result(call(CommonRoadSolutionReader.fromstring, doc))
        model = ask_decode(ctx, ct)
        ctx.compare(sub, impl, model, f"CommonRoadSolutionReader.fromstring vs CR.Sol.decodeDoc on a mutated document ({label})")
        ok, _ = lxml_valid(doc)
        mv = ctx.driver.ask("C14", "validate", {"tree": {**mt, "bench": parse_bid(mt["bid"])}})
        ctx.compare(sub, ok, mv, f"lxml validation vs CR.Sol.validate on a mutated document ({label})")


# ------------------------------------------------------------------------------------------------ one case

def pps_args(p, states):
    return {"id": p["id"], "model": p["model"], "vtype": p["vtype"], "cost": p["cost"], "init": p["init"], "states": states}


def check_construct(ctx, case):
    """Trajectory + PlanningProblemSolution constructors vs mkTraj/mkPPS; returns the built solutions or None"""
    out = []
    for p in case["pps"]:
        try:
            states = [build_state(p["cls"], s, p.get("np", False)) for s in p["states"]]
        except Exception:   # a state the generator could not build is not a case
            return None
        res = call(build_pps, p)
        impl = {"ok": res[1].trajectory_type.name} if res[0] == "ok" else {"err": res[1]}
        decoy = _decoy_trajectory(p)
        if decoy is not None and p["id"] % 3 == 1 and not p.get("np"):
            ctx.tag("setter-path")
            args = pps_args(p, [canon_state(s) for s in states])
            args["decoy"] = {"init": int(decoy.initial_time_step), "states": [canon_state(s) for s in decoy.state_list]}
            model = ctx.driver.ask("C14", "set_trajectory", args)
            ctx.compare({"kind": "reject", "pps": [p]}, impl, model,
                        "PlanningProblemSolution(decoy) + trajectory setter vs CR.Sol.mkPPS/setTrajectory")
        else:
            model = ctx.driver.ask("C14", "construct", pps_args(p, [canon_state(s) for s in states]))
            ctx.compare({"kind": "reject", "pps": [p]}, impl, model, "Trajectory/PlanningProblemSolution constructors vs CR.Sol.mkTraj/mkPPS")
        out.append(res)
    return out


def auto_name():
    if "auto" not in _cache:
        from commonroad.common.solution import CommonRoadSolutionWriter
        _cache["auto"] = CommonRoadSolutionWriter._get_processor_name()
    return _cache["auto"]


def blame_types(sol, pretty):
    """trajectory types whose single-problem solution already cannot be written and read back (stable finding keys)"""
    from commonroad.common.solution import CommonRoadSolutionReader, CommonRoadSolutionWriter, Solution
    out = set()
    for p in sol.planning_problem_solutions:
        def attempt(p=p):
            one = Solution(sol.scenario_id, [p], None, None, None)
            return CommonRoadSolutionReader.fromstring(CommonRoadSolutionWriter(one).dump(pretty))
        if call(attempt)[0] != "ok":
            out.add(p.trajectory_type.name)
    return sorted(out) or ["solution"]


def scramble(solution, r):
    """edit EVERYTHING reachable from a solution the reader returned, in place, through public attributes: afterwards it equals
    no solution that was written.  (Only this result may change: other results of the reader, past or future, must not.)"""
    import numpy as np
    from commonroad.common.solution import CostFunction, VehicleType
    sid = solution.scenario_id
    sid.configuration_id = (sid.configuration_id or 0) + r.randint(1, 5)
    sid.scenario_version = "2018b" if sid.scenario_version == "2020a" else "2020a"
    sid.map_id = sid.map_id + r.randint(1, 9)
    sid.map_name = "Edited"
    sid.cooperative = not sid.cooperative
    sid.country_id = "ESP" if sid.country_id != "ESP" else "ZAM"
    if sid.obstacle_behavior is not None:
        sid.obstacle_behavior = "I" if sid.obstacle_behavior != "I" else "S"
        sid.prediction_id = 77
    solution.computation_time = 4242.5
    solution.processor_name = "edited"
    solution.date = datetime(1999, 12, 31, 23, 59, 58)
    for p in solution.planning_problem_solutions:
        p.planning_problem_id = p.planning_problem_id + 1000 + r.randint(0, 9)
        p.vehicle_type = VehicleType(p.vehicle_type.value % 4 + 1)
        p.cost_function = CostFunction.JB1 if p.cost_function != CostFunction.JB1 else CostFunction.WX1
        for st in p.trajectory.state_list:
            for a in st.attributes:
                v = getattr(st, a)
                if a == "time_step" or v is None:
                    continue
                if isinstance(v, np.ndarray):
                    v[:] = 4242.25          # the array itself, in place
                else:
                    setattr(st, a, 4242.25)
        p.trajectory.state_list.reverse()
        p.trajectory.state_list.append(p.trajectory.state_list[0])
    solution.planning_problem_solutions = list(reversed(solution.planning_problem_solutions))[:1]


def reread(ctx, case, sol, read, n_call):
    """history across reader calls: two results alive at once, one of them edited, then the same document read again - every
    result must still be the written solution (no state shared between results of separate reader calls)"""
    import random
    r = random.Random((case.get("mutseed", 0), n_call).__hash__())
    ctx.tag("reread")
    a, b = call(read), call(read)
    if a[0] != "ok" or b[0] != "ok":
        return      # (a failing read is reported by the caller)
    res = call(scramble, a[1], r)
    if res[0] != "ok":
        ctx.tag("reread-edit-refused")
        return
    ctx.tag("reread-edited")
    oracle_roundtrip(ctx, case, sol, b[1], "reread-alive")
    c = call(read)
    if c[0] == "ok":
        oracle_roundtrip(ctx, case, sol, c[1], "reread")
    else:
        ctx.fail(f"C14/reread/raises-{c[1]}", f"reading the same document again after editing an earlier result raises {c[2]}", case)


def default_calls(case):
    """stored cases from before the call lists existed"""
    calls = [{"op": "dump", "pretty": case["pretty"], "bytes": False}]
    if case.get("file"):
        calls += [{"op": "file", "pretty": True, "name": "explicit", "exists": False, "overwrite": True, "cwd": False},
                  {"op": "file", "pretty": False, "name": "explicit", "exists": False, "overwrite": True, "cwd": False}]
    return calls


def run_calls(ctx, case, sol):
    """every writer / reader call of the case, each judged by the oracle; returns (document, read result) of the first dump"""
    from commonroad.common.solution import CommonRoadSolutionReader, CommonRoadSolutionWriter
    calls = case.get("calls") or default_calls(case)
    shared = None
    if case.get("reuse"):
        ctx.tag("writer-reused")
        mk = call(lambda: CommonRoadSolutionWriter(sol))
        if mk[0] != "ok":
            for t in blame_types(sol, True):
                ctx.fail(f"C14/dump/raises-{mk[1]}/{t}", f"constructing the writer raises {mk[2]}", case)
            return None, None
        shared = mk[1]
    first = (None, None)
    wdir = None
    for n_call, c in enumerate(calls):
        pretty = c["pretty"]
        if c["op"] == "dump":
            ctx.tag("pretty" if pretty else "compact")
            w = call(lambda: (shared or CommonRoadSolutionWriter(sol)).dump(pretty))
            if w[0] != "ok":
                for t in blame_types(sol, pretty):
                    ctx.fail(f"C14/dump/raises-{w[1]}/{t}", f"writing raises {w[2]}", case)
                if n_call == 0:
                    return None, None
                continue
            doc = w[1]
            if c.get("bytes"):
                ctx.tag("fromstring-bytes")
            rd = call(CommonRoadSolutionReader.fromstring, doc.encode("utf-8") if c.get("bytes") and isinstance(doc, str) else doc)
            if rd[0] != "ok":
                for t in blame_types(sol, pretty):
                    ctx.fail(f"C14/fromstring/raises-{rd[1]}/{t}", f"reading the written document raises {rd[2]}", case)
            else:
                oracle_roundtrip(ctx, case, sol, rd[1], "fromstring")
                if case.get("reread"):
                    arg = doc.encode("utf-8") if c.get("bytes") and isinstance(doc, str) else doc
                    reread(ctx, case, sol, lambda: CommonRoadSolutionReader.fromstring(arg), n_call)
            oracle_schema(ctx, case, sol, doc)
            if n_call == 0:
                first = (doc, rd)
            continue
        # ---- write_to_file -> open
        ctx.tag("file-path")
        if wdir is None:
            wdir = os.path.join(ctx.tmpdir(), f"case{ctx.evaluations}")
            os.makedirs(wdir, exist_ok=True)
        name = f"s{n_call}.xml" if c["name"] == "explicit" else None
        path = os.path.join(wdir, name if name is not None else "solution_%s.xml" % sol.benchmark_id)
        if name is None:
            ctx.tag("default-filename")
        if c.get("exists") and not os.path.exists(path):
            call(lambda: (shared or CommonRoadSolutionWriter(sol)).write_to_file(wdir, name, overwrite=True, pretty=not pretty))
        expect_refusal = os.path.exists(path) and not c["overwrite"]     # the documented FileExistsError
        if expect_refusal:
            ctx.tag("overwrite-refused")

        def write():
            wr = shared or CommonRoadSolutionWriter(sol)
            if c.get("cwd"):
                old = os.getcwd()
                os.chdir(wdir)
                try:
                    return wr.write_to_file(filename=name, overwrite=c["overwrite"], pretty=pretty)
                finally:
                    os.chdir(old)
            return wr.write_to_file(wdir, name, overwrite=c["overwrite"], pretty=pretty)
        if c.get("cwd"):
            ctx.tag("default-output-path")
        wf = call(write)
        if wf[0] != "ok" and not expect_refusal:
            ctx.fail(f"C14/write_to_file/raises-{wf[1]}/pretty={pretty}", f"write_to_file(pretty={pretty}) raises {wf[2]}", case)
            continue
        # whatever is in the file now (after a refused overwrite: the earlier document) must read back as the solution
        ro = call(CommonRoadSolutionReader.open, path)
        if ro[0] != "ok":
            for t in blame_types(sol, pretty):
                ctx.fail(f"C14/open/raises-{ro[1]}/{t}", f"opening the written file raises {ro[2]}", case)
        else:
            oracle_roundtrip(ctx, case, sol, ro[1], "open")
            if case.get("reread"):
                reread(ctx, case, sol, lambda: CommonRoadSolutionReader.open(path), n_call)
    if wdir is not None:
        import shutil
        shutil.rmtree(wdir, ignore_errors=True)
    return first


def run_solution(ctx, case, model=True):
    info = {}
    res = call(build_solution, case, info)
    if res[0] != "ok":
        # the generator only asks for admissible solutions and admissible histories: a refusal here is a failure of the code
        ctx.fail(f"C14/construct/raises-{res[1]}", f"an admissible solution / history was refused: {res[2]}", case)
        return
    sol = res[1]
    if info.get("unexpected"):
        # a setter that must refuse (non-positive computation time, unsupported cost, unfit model / trajectory) accepted: what the
        # object holds now is not a solution in the property's quantifier - no verdict
        ctx.excluded += 1
        return
    import math
    import numpy as np
    if not all(math.isfinite(float(x)) for p in sol.planning_problem_solutions for st in p.trajectory.state_list for a in st.attributes
               if a != "time_step" and getattr(st, a) is not None for x in np.atleast_1d(getattr(st, a))):
        ctx.excluded += 1       # the history (translate_rotate of huge values) produced a non-finite value: outside 'finite state values'
        return
    types = [t.name for t in sol.trajectory_types]
    ctx.tag("single" if len(types) == 1 else "cooperative", *["type:" + t for t in set(types)])
    for op in case.get("post") or []:
        ctx.tag("post-edit", "post:" + op[0])
    if any(p.get("np") for p in case["pps"]):
        ctx.tag("numpy-scalars")
    if case.get("omit"):
        ctx.tag("ctor-defaults")
    if case.get("dup"):
        ctx.tag("duplicate-id")
    if case.get("proc") == "auto":
        ctx.tag("processor-auto")
    if not case.get("post") and not case.get("dup") and \
            any(p["cls"] not in STATE_CLASS.values() or STATE_CLASS[t] != p["cls"] for p, t in zip(case["pps"], types)):
        ctx.tag("superset-state")
    if any([s.time_step for s in p.trajectory.state_list] != sorted(s.time_step for s in p.trajectory.state_list)
           for p in sol.planning_problem_solutions):
        ctx.tag("unordered")
    for k, b in (("date", "date"), ("ct", "computation-time"), ("proc", "processor-name")):
        if case[k] is not None:
            ctx.tag(b)
    ctx.case(case)
    if case.get("queries"):
        ctx.tag("queries-first")
        run_queries(sol)

    doc, rd = run_calls(ctx, case, sol)
    if doc is None:
        return

    if not model:
        return
    # ---- correspondence with the Lean model
    check_construct(ctx, case)
    if info.get("built") is not None:
        ctx.compare(case, info["assembled"], ctx.driver.ask("C14", "dict_of", {"pps": info["built"]}),
                    "Solution.planning_problem_solutions after assembly vs CR.Sol.dictOf (ids given twice)")
    csol = canon_solution(sol)
    auto = auto_name()
    raw = doc_tree(doc, canonical=False)
    ctree = doc_tree(doc, canonical=True)
    menc = ctx.driver.ask("C14", "encode", {"sol": csol, "auto": auto})
    if "ok" in menc:
        menc = {"ok": model_tree_view(menc["ok"])}
    ctx.compare(case, {"ok": model_tree_view(ctree)}, menc, "CommonRoadSolutionWriter.dump vs CR.Sol.encodeSol")
    impl_dec = canon_result(rd)
    ctx.compare(case, impl_dec, ask_decode(ctx, ctree), "CommonRoadSolutionReader.fromstring vs CR.Sol.decodeDoc (benchmark id parsed from the attribute text)")
    ctx.compare(case, impl_dec, ctx.driver.ask("C14", "decode_tokens", {"tree": ctree}), "CommonRoadSolutionReader.fromstring vs CR.Sol.decodeSol (token level)")
    check_py_texts(ctx, case, raw)
    if rd[0] == "ok":
        ctx.compare(case, impl_dec["ok"], ctx.driver.ask("C14", "norm", {"sol": csol, "auto": auto}),
                    "read-back solution vs CR.Sol.normSol (right-hand side of C14_sol_roundtrip)")
    ok, _ = lxml_valid(doc)
    ctx.compare(case, ok, ctx.driver.ask("C14", "validate", {"tree": raw}), "lxml validation vs CR.Sol.validate")
    order_ok = ctx.driver.ask("C14", "in_schema_order", {"tags": [t["tag"] for t in raw["trajs"]]})
    idx = [schema_info()["order"].get(t["tag"]) for t in raw["trajs"]]
    ctx.compare(case, all(i is not None for i in idx) and idx == sorted(idx), order_ok, "schema order of the trajectory tags vs CR.Sol.inSchemaOrder")
    run_mutant(ctx, case, raw)


def run_document(ctx, case):
    """a stored document (mutant): reader and validator correspondences only"""
    from commonroad.common.solution import CommonRoadSolutionReader
    ctx.case(case)
    doc = case["doc"]
    raw = doc_tree(doc, canonical=False)
    impl = canon_result(call(CommonRoadSolutionReader.fromstring, doc))
    ctx.compare(case, impl, ask_decode(ctx, canon_tree(raw)), "fromstring vs decodeDoc (stored document)")
    ok, _ = lxml_valid(doc)
    ctx.compare(case, ok, ctx.driver.ask("C14", "validate", {"tree": raw}), "lxml vs validate (stored document)")


def run_case(ctx, case, model=True):
    kind = case.get("kind", "solution")
    if kind == "solution":
        run_solution(ctx, case, model)
    elif kind == "reject":
        ctx.tag("reject")
        ctx.case(case)
        if model:
            check_construct(ctx, case)
    elif kind == "document":
        if model:
            run_document(ctx, case)


def run(ctx):
    check_dimensions()
    check_static(ctx)
    for p in sorted(glob.glob(os.path.join(CORPUS_DIR, "C14", "*.json"))):
        run_case(ctx, json.load(open(p)))
    n = ctx.n(420)
    every = COMBOS + SUPERSET
    for i in range(n):
        run_case(ctx, gen_case(ctx, every[i] if i < len(every) else None))
    for _ in range(ctx.n(160)):
        run_case(ctx, gen_reject(ctx))
    if any(f.key.startswith("C14/construct/") for f in ctx.failures):
        # the code refused admissible solutions: the buckets those cases were generated for cannot be reached.  The refusal itself is
        # the finding (a concrete failure with a replay), so the coverage gate must not turn it into an infrastructure exit.
        for b in REQUIRED_BUCKETS:
            ctx.tag(b)


def search(ctx):
    """failing-input search: the oracle only (no model), more cases"""
    for p in sorted(glob.glob(os.path.join(CORPUS_DIR, "C14", "*.json"))):
        run_case(ctx, json.load(open(p)), model=False)
    every = COMBOS + SUPERSET
    for i in range(ctx.n(300)):
        run_case(ctx, gen_case(ctx, every[i % len(every)] if i < 3 * len(every) else None), model=False)
    for b in REQUIRED_BUCKETS:
        ctx.tag(b)


def replay(ctx, case):
    run_case(ctx, case, model=False)


def _keys(case):
    from common import Ctx
    c = Ctx("C14", "quick", 0)
    try:
        run_case(c, case, model=False)
        return {f.key for f in c.failures}
    finally:
        c.close()


def shrink(case, key):
    """greedy: fewer planning problems, fewer states, no metadata — while the same finding key is still produced"""
    if case.get("kind", "solution") != "solution":
        return case

    def still(c):
        try:
            return key in _keys(c)
        except Exception:   # noqa
            return False

    cur = copy.deepcopy(case)
    if not still(cur):
        return case
    for i in range(len(cur.get("post") or []) - 1, -1, -1):
        cand = copy.deepcopy(cur)
        del cand["post"][i]
        if still(cand):
            cur = cand
    if cur.get("calls"):
        for i in range(len(cur["calls"]) - 1, 0, -1):
            cand = copy.deepcopy(cur)
            del cand["calls"][i]
            if still(cand):
                cur = cand
    for k, v in (("queries", False), ("reuse", False), ("reread", False)):
        cand = copy.deepcopy(cur)
        cand[k] = v
        if still(cand):
            cur = cand
    if cur.get("post") or cur.get("dup"):   # the remaining edits refer to planning problems by position: keep the list as it is
        for k in ("date", "ct", "proc"):
            cand = copy.deepcopy(cur)
            cand[k] = None
            if still(cand):
                cur = cand
        return cur
    for i in range(len(cur["pps"]) - 1, -1, -1):
        if len(cur["pps"]) > 1:
            cand = copy.deepcopy(cur)
            del cand["pps"][i]
            if still(cand):
                cur = cand
    for p_i in range(len(cur["pps"])):
        while len(cur["pps"][p_i]["states"]) > 1:
            cand = copy.deepcopy(cur)
            cand["pps"][p_i]["states"].pop()
            if still(cand):
                cur = cand
            else:
                break
    for k in ("date", "ct", "proc"):
        cand = copy.deepcopy(cur)
        cand[k] = None
        if still(cand):
            cur = cand
    for k, v in (("file", False), ("queries", False), ("reuse", False), ("omit", []), ("dup", None)):
        cand = copy.deepcopy(cur)
        cand[k] = v
        if still(cand):
            cur = cand
    if cur.get("calls"):
        for i in range(len(cur["calls"]) - 1, 0, -1):
            cand = copy.deepcopy(cur)
            del cand["calls"][i]
            if still(cand):
                cur = cand
    return cur
