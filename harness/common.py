"""Shared machinery of the commonroad-io verification harness.

Decision rule (DESIGN.md §2):
  build + audit proofs  -> correspondence (model vs implementation) -> oracle on the same cases
  any broken obligation / disagreement / oracle failure -> failing-input search on the real code
     found & listed in known-findings.txt -> "KNOWN-FINDING: ..." ; keep going
     found & not listed                   -> replay + "VIOLATION property=<id> replay=<path>" ; exit 1
     none found                           -> replay naming the theorem / correspondence +
                                             "VIOLATION ... no-failing-input-found" ; exit 1
  timeout / infrastructure error -> exit 2
"""
from __future__ import annotations

import fcntl
import hashlib
import json
import os
import random
import re
import shutil
import subprocess
import sys
import tempfile
import time
import traceback
from fractions import Fraction

ROOT = os.path.dirname(os.path.dirname(os.path.abspath(__file__)))
LEAN = os.path.join(ROOT, "lean")
REPO = os.environ.get("VERIF_REPO", "/repo")
DRIVER_BIN = os.path.join(LEAN, ".lake", "build", "bin", "crdriver")
EVIDENCE_DIR = os.environ.get("VERIF_EVIDENCE_DIR") or os.path.join(ROOT, "evidence")   # seed tests redirect it
REPLAY_DIR = os.environ.get("VERIF_REPLAY_DIR") or os.path.join(ROOT, "replays")
CORPUS_DIR = os.path.join(ROOT, "corpus")
FINDINGS_FILE = os.path.join(ROOT, "known-findings.txt")
GUARD = "COMMONROAD_IO_VERIF"

ALLOWED_AXIOMS = {"propext", "Classical.choice", "Quot.sound"}
FORBIDDEN_RE = re.compile(r"\bsorry\b|\badmit\b|^axiom\s|native_decide|bv_decide|implemented_by|\bunsafe\s|maxHeartbeats\s+0\b",
                          re.M)

TRUSTED_BASE = [
    "Lean 4.33.0 kernel; axioms allowed per theorem: propext, Classical.choice, Quot.sound (audited every run with collectAxioms)",
    "no sorry/admit/axiom/native_decide/bv_decide/implemented_by/unsafe/maxHeartbeats 0 in lean/ (grep, comments stripped, every run)",
    "Lean compiler + runtime for the executable models (crdriver) and Lean.Data.Json",
    "hand-written model lean/CRModel/*; tied to /repo by the correspondence harness (harness/*.py), which is trusted to compare faithfully",
    "the direct Python oracles are trusted only to report; every replay is re-executed on the real code by ./check <id> --replay <path>",
]


class InfraError(Exception):
    """Infrastructure failure: never a verdict (exit 2)."""


# ------------------------------------------------------------------------------------------------ numbers

def frac(x) -> Fraction:
    """Exact rational value of a Python int/float/numpy scalar."""
    if isinstance(x, Fraction):
        return x
    if isinstance(x, bool):
        return Fraction(int(x))
    if isinstance(x, int):
        return Fraction(x)
    try:
        import numpy as np
        if isinstance(x, np.integer):
            return Fraction(int(x))
        if isinstance(x, np.floating):
            x = float(x)
    except ImportError:  # pragma: no cover
        pass
    return Fraction(*float(x).as_integer_ratio())


def rat(x) -> str:
    """Wire format of a rational: 'num/den'."""
    f = frac(x)
    return f"{f.numerator}/{f.denominator}"


def unrat(s) -> Fraction:
    if isinstance(s, int):
        return Fraction(s)
    a, _, b = s.partition("/")
    return Fraction(int(a), int(b or 1))


def err_class(e: BaseException) -> str:
    """Map a Python exception to the small enum shared with the model."""
    if isinstance(e, AssertionError):
        return "assert"
    if isinstance(e, KeyError):
        return "key"
    if isinstance(e, IndexError):
        return "index"
    if isinstance(e, ZeroDivisionError):
        return "zero-div"
    if isinstance(e, AttributeError):
        return "attr"
    if isinstance(e, TypeError):
        return "type"
    if isinstance(e, ValueError):
        return "value"
    return "other"


def canon(x):
    """Canonical JSON-able form: sets sorted, tuples -> lists, numpy scalars -> python, floats -> exact rationals."""
    import numpy as np
    if isinstance(x, (set, frozenset)):
        return sorted((canon(v) for v in x), key=lambda v: json.dumps(v, sort_keys=True))
    if isinstance(x, dict):
        return {str(k): canon(v) for k, v in sorted(x.items(), key=lambda kv: str(kv[0]))}
    if isinstance(x, (list, tuple)):
        return [canon(v) for v in x]
    if isinstance(x, np.ndarray):
        return canon(x.tolist())
    if isinstance(x, (bool, np.bool_)):
        return bool(x)
    if isinstance(x, (int, np.integer)):
        return int(x)
    if isinstance(x, (float, np.floating)):
        return rat(x)
    if isinstance(x, Fraction):
        return rat(x)
    if x is None or isinstance(x, str):
        return x
    import enum
    if isinstance(x, enum.Enum):
        return x.name
    return repr(x)


# ------------------------------------------------------------------------------------------------ build + audit

def _strip_comments(src: str) -> str:
    # nested block comments are rare in our files; handle one level + line comments
    src = re.sub(r"/-.*?-/", "", src, flags=re.S)
    src = re.sub(r"--[^\n]*", "", src)
    return src


def lean_sources():
    out = []
    for d in ("CRModel", "CRProofs", "CRProps", "Driver", "Gen"):
        p = os.path.join(LEAN, d)
        for base, _, files in os.walk(p):
            for f in sorted(files):
                if f.endswith(".lean"):
                    out.append(os.path.join(base, f))
    return out


def grep_forbidden():
    hits = []
    for p in lean_sources():
        src = _strip_comments(open(p, encoding="utf-8").read())
        for m in FORBIDDEN_RE.finditer(src):
            line = src.count("\n", 0, m.start()) + 1
            hits.append(f"{os.path.relpath(p, LEAN)}:{line}:{m.group(0).strip()}")
    return hits


class BuildLock:
    def __enter__(self):
        os.makedirs(os.path.join(LEAN, ".lake"), exist_ok=True)
        self.f = open(os.path.join(LEAN, ".lake", "verif.lock"), "w")
        fcntl.flock(self.f, fcntl.LOCK_EX)
        return self

    def __exit__(self, *a):
        fcntl.flock(self.f, fcntl.LOCK_UN)
        self.f.close()


def run_translators():
    """Regenerate lean/Gen/ from /repo's current working tree (py->Lean translators). Returns dict name->status."""
    status = {}
    tdir = os.path.join(ROOT, "harness", "translate")
    if not os.path.isdir(tdir):
        return status
    sys.path.insert(0, os.path.join(ROOT, "harness"))
    try:
        from translate import regenerate  # type: ignore
    except Exception as e:  # noqa
        return {"translate": f"unavailable: {e}"}
    try:
        status = regenerate(REPO, os.path.join(LEAN, "Gen"))
    except Exception as e:  # translator failure is never a verdict
        status = {"translate": f"lost: {type(e).__name__}: {e}"}
    return status


def lake_build(targets=None, timeout=3000):
    """lake build; returns (ok, log)."""
    cmd = ["lake", "build"] + (targets or [])
    try:
        p = subprocess.run(cmd, cwd=LEAN, stdout=subprocess.PIPE, stderr=subprocess.STDOUT, text=True, timeout=timeout)
    except subprocess.TimeoutExpired:
        raise InfraError("lake build timed out")
    return p.returncode == 0, p.stdout


AUDIT_TEMPLATE = """import Lean
import {module}
open Lean Elab Command

run_cmd do
  let env ← getEnv
  let some idx := env.getModuleIdx? `{module} | throwError "module not found"
  let names := env.header.moduleData[idx.toNat]!.constNames
  for n in names do
    match env.find? n with
    | some (.thmInfo _) =>
      if n.isInternal then continue
      let ax ← collectAxioms n
      IO.println s!"AXIOMS {{n}} {{ax.toList}}"
    | _ => pure ()
"""


def audit_module(module: str):
    """Run collectAxioms on every theorem of `module`. Returns (theorems: {name: [axioms]}, log)."""
    with tempfile.NamedTemporaryFile("w", suffix=".lean", dir=os.path.join(LEAN, ".lake"), delete=False) as f:
        f.write(AUDIT_TEMPLATE.format(module=module))
        path = f.name
    try:
        p = subprocess.run(["lake", "env", "lean", path], cwd=LEAN, stdout=subprocess.PIPE, stderr=subprocess.STDOUT,
                           text=True, timeout=1200)
    except subprocess.TimeoutExpired:
        raise InfraError("axiom audit timed out")
    finally:
        os.unlink(path)
    thms = {}
    for line in p.stdout.splitlines():
        m = re.match(r"AXIOMS (\S+) \[(.*)\]", line)
        if m:
            axs = [a.strip() for a in m.group(2).split(",") if a.strip()]
            thms[m.group(1)] = axs
    return thms, p.stdout, p.returncode


def declared_theorems(prop: str):
    """Names of the `theorem`s textually declared in CRProps/<prop>.lean (the obligations that must be discharged)."""
    p = os.path.join(LEAN, "CRProps", f"{prop}.lean")
    if not os.path.exists(p):
        return []
    src = _strip_comments(open(p, encoding="utf-8").read())
    return re.findall(r"^\s*(?:private\s+|protected\s+)?theorem\s+([A-Za-z0-9_.'«»]+)", src, flags=re.M)


# ------------------------------------------------------------------------------------------------ driver

class Driver:
    """Line-protocol pipe to the compiled Lean model (crdriver)."""

    def __init__(self):
        if not os.path.exists(DRIVER_BIN):
            raise InfraError(f"driver binary missing: {DRIVER_BIN} (run ./check --setup)")
        self.p = subprocess.Popen([DRIVER_BIN], stdin=subprocess.PIPE, stdout=subprocess.PIPE, text=True, bufsize=1)
        self.lines = 0

    def ask(self, prop: str, op: str, args):
        line = json.dumps([prop, op, args], separators=(",", ":"))
        try:
            self.p.stdin.write(line + "\n")
            self.p.stdin.flush()
            out = self.p.stdout.readline()
        except BrokenPipeError:
            raise InfraError("driver died")
        if not out:
            raise InfraError(f"driver closed the pipe on: {line[:300]}")
        self.lines += 1
        r = json.loads(out)
        if isinstance(r, dict) and "fatal" in r:
            raise InfraError(f"driver could not interpret {line[:300]}: {r['fatal']}")
        return r

    def close(self):
        try:
            self.p.stdin.close()
            self.p.wait(timeout=5)
        except Exception:
            self.p.kill()


# ------------------------------------------------------------------------------------------------ findings

def load_findings():
    """known-findings.txt:  'known: property=Cxx key=<key> <text>'   |   'fixed: property=Cxx <commit> <text>'."""
    known = {}
    if os.path.exists(FINDINGS_FILE):
        for line in open(FINDINGS_FILE, encoding="utf-8"):
            line = line.strip()
            m = re.match(r"known:\s+property=(\S+)\s+key=(\S+)\s*(.*)", line)
            if m:
                known.setdefault(m.group(1), {})[m.group(2)] = m.group(3)
    return known


# ------------------------------------------------------------------------------------------------ context

class Failure:
    """A concrete failure of the property on the real code."""

    def __init__(self, key: str, what: str, case, detail=None):
        self.key = key          # stable finding key: call site + observation + class
        self.what = what        # one line, human readable
        self.case = case        # JSON-able replayable input / history
        self.detail = detail


class SearchBudget(BaseException):
    """the failing-input search used up its wall-clock budget (partial results are kept)"""


class Ctx:
    def __init__(self, prop: str, tier: str, seed: int, worker: int = 0, workers: int = 1):
        self.deadline = None            # set for the failing-input search only: time.time() after which `case` stops the search
        self.prop = prop
        self.tier = tier
        self.seed = seed
        self.worker = worker
        self.workers = workers
        self.rng = random.Random(f"{prop}:{seed}:{worker}")
        self.t0 = time.time()
        self.evaluations = 0
        self.distinct = set()
        self.hist = {}
        self.samples = []
        self.traces = 0                 # cases compared model vs impl
        self.disagreements = []         # (case, impl, model)
        self.failures = []              # Failure objects (oracle)
        self.excluded = 0
        self._driver = None
        self.scale = {"quick": 1, "thorough": 6}[tier]
        self.tmp = None

    # -- resources
    @property
    def driver(self) -> Driver:
        if self._driver is None:
            self._driver = Driver()
        return self._driver

    def tmpdir(self):
        if self.tmp is None:
            self.tmp = tempfile.mkdtemp(prefix=f"crverif_{self.prop}_")
        return self.tmp

    def close(self):
        if self._driver is not None:
            self._driver.close()
        if self.tmp:
            shutil.rmtree(self.tmp, ignore_errors=True)

    # -- bookkeeping
    def n(self, quick: int) -> int:
        """Number of cases for this worker."""
        return max(1, quick * self.scale)

    def tag(self, *tags):
        for t in tags:
            self.hist[t] = self.hist.get(t, 0) + 1

    def case(self, case, nontrivial: bool = True):
        """Count one evaluated case; distinct non-trivial cases are counted by hashing their canonical form."""
        if self.deadline is not None and time.time() > self.deadline:
            raise SearchBudget()
        self.evaluations += 1
        if nontrivial:
            h = hashlib.sha1(json.dumps(case, sort_keys=True, default=str).encode()).digest()[:10]
            self.distinct.add(h)
        if len(self.samples) < 3 or (self.evaluations % 997 == 0 and len(self.samples) < 8):
            self.samples.append(case)

    def compare(self, case, impl, model, what: str = ""):
        """Correspondence: implementation output vs model output on the same case (both canonical)."""
        self.traces += 1
        if impl != model:
            if len(self.disagreements) < 50:
                self.disagreements.append({"case": case, "impl": impl, "model": model, "what": what})
            return False
        return True

    def fail(self, key: str, what: str, case, detail=None):
        if len(self.failures) < 200:
            self.failures.append(Failure(key, what, case, detail))

    def result(self):
        return {
            "evaluations": self.evaluations,
            "distinct": [h.hex() for h in self.distinct],
            "hist": self.hist,
            "samples": self.samples,
            "traces": self.traces,
            "disagreements": self.disagreements,
            "failures": [{"key": f.key, "what": f.what, "case": f.case, "detail": f.detail} for f in self.failures],
            "excluded": self.excluded,
            "driver_lines": self._driver.lines if self._driver else 0,
        }


def call(f, *a, **k):
    """Run f, return ('ok', value) or ('err', class)."""
    try:
        return ("ok", f(*a, **k))
    except Exception as e:  # noqa
        return ("err", err_class(e), f"{type(e).__name__}: {str(e)[:200]}")


def shrink_list(items, still_fails, max_rounds=200):
    """Greedy delta debugging on a list: remove chunks while `still_fails(list)`."""
    items = list(items)
    n = 2
    rounds = 0
    while len(items) >= 2 and rounds < max_rounds:
        chunk = max(1, len(items) // n)
        removed = False
        for i in range(0, len(items), chunk):
            cand = items[:i] + items[i + chunk:]
            rounds += 1
            if cand and still_fails(cand):
                items = cand
                n = max(n - 1, 2)
                removed = True
                break
        if not removed:
            if chunk == 1:
                break
            n = min(n * 2, len(items))
    return items
