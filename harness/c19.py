"""C19 — rendering is total and shows the model at the selected time.
models: lean/CRModel/Params.lean (BaseParam.__setattr__), lean/CRModel/DrawSelect.lean (selection logic of
MPRenderer.draw_scenario and friends); theorems: lean/CRProps/C19.lean.
Helpers: c19_build.py (JSON spec -> commonroad objects), c19_gen.py (generators)."""
import dataclasses
import json
import os

from common import CORPUS_DIR, call, canon, err_class, shrink_list
import c19_build as B
import c19_gen as G
import c19_dims as D

RULE = ("two case kinds. params: a parameter class of draw_params.py (MPDrawParams in ~1/3 of the cases) constructed with random "
        "keyword values, then 1..7 assignments setattr(group at a random path, name, value) with names declared in the target "
        "group / only deeper / only elsewhere / nowhere, plain values of the declared type and fresh parameter groups as values "
        "(after a group-valued assignment the history continues at ancestors of that group only, because Python shares the "
        "object and the tree model copies it); compared field by field over all nested groups after every step. "
        "draw: a scenario built with the repository's constructors (0..4 lanelets with adjacency, line markings, stop lines, "
        "traffic signs, traffic lights with cycles, an intersection; 0..5 obstacles of all roles: static, dynamic without / with "
        "trajectory / with set-based prediction incl. interval time steps and holes, phantom, environment; shapes rectangle, "
        "circle, polygon, group; exact and uncertain positions; signal series) + 0..2 planning problems, drawn with a parameter "
        "setting: window begin chosen around every initial/final time step (before, inside, after the horizons), end = begin, "
        "begin+1, begin+3, another horizon point, begin+40 or begin-1; in ~45% of the cases 1..3 earlier frames ran on the same renderer: render(keep_static_artists True/False) frames, create_video-style frames (remove_dynamic, clear, draws, render_dynamic), draws that raise half-way followed by clear(), after EVERY shown frame (earlier ones too) the obstacle patch collections that are on the axes (ax.collections) are observed and judged against the occupancies of that frame's own window, whole scenario or obstacles only, fresh parameter objects or one shared object whose window is re-set, the scenario changed in place between frames (obstacle removed / added, prediction dropped / replaced, trajectory re-assigned, initial state re-set), often re-drawing the same step; the selected frame is drawn through one of six public entry points (scenario.draw, draw_scenario, renderer's own parameters with draw_params=None, network + draw_list, per object with its sub-group, list of parameter objects), on a renderer constructed with / without draw_params, plot_limits (flat, nested, 'auto'), focus_obstacle, figsize, rendered with or without a file name, after read-only queries; lattice cases also set style values (colours, widths, z-orders, opacities; int where float is usual); value classes: obstacle id 0, off-centre / rotated obstacle shapes, shuffled occupancy sets, 3-D lanelet vertices, signs / lights without position, inactive cycles, obstacle history; mode 'plain' = shapes on, icons/signals/trajectories/"
        "extra occupancies/history off (other flags random), mode 'lattice' = every boolean field of the 87 nested groups "
        "flipped with probability 0/0.1/0.5/0.9, history steps, id filters (none, empty, subset, superset, unknown ids) for "
        "lanelets, planning problems, traffic signs. Positions, orientations and velocities of obstacle states are exact "
        "or uncertain (shape / interval). "
        "non-trivial = every case; distinct = distinct canonical JSON of the case")
ASSUMPTIONS = ["harness/c19_dims.py lists every parameter field, BaseParam / MPRenderer operation and constructor parameter that can "
               "influence the observations with how it is varied; checked against the real signatures on every run (exit 2 on growth)",
               "style values are type-correct and sensible (scale factors, radii, widths > 0; opacity / fading in [0, 1]; valid "
               "matplotlib colours): zero scale (3.0 / scale_factor) or an alpha > 1 are outside 'every parameter setting'",
               "create_video needs ffmpeg and writes a file: outside; its per-frame step is replayed as 'video' style frames; "
               "rasterisation is claimed for render() only",
               "scenario changes between frames use the public setters / add / remove; Scenario.translate_rotate is C05's subject",
               "clause (b) is stated for time windows time_begin <= time_end; an inverted window is outside the quantifier "
               "(C19_witness_inverted_window, corpus/C19/witness_inverted_window.json; counted as excluded by the oracle)",
               "set-based predictions have at least one occupancy (XSD); an empty one makes final_time_step raise "
               "(C19_witness_empty_set_prediction, corpus/C19/outside_empty_set_prediction.json: model and code fail alike)",
               "assigned parameter-group values do not contain a group declaring the assigned name (true for all type-correct "
               "values); otherwise Python raises RecursionError, modelled by Grp.setPy and replayed, no verdict "
               "(corpus/C19/outside_self_referential_assignment.json)",
               "matplotlib patch objects keep the vertex arrays / centre / width / height they were constructed with "
               "(Polygon.get_xy, Ellipse.center/width/height, PolyCollection.get_paths)",
               "totality of draw/render/rasterisation (Agg) is explored, not proved; proved only for the selection logic with explicit partial reads (C19_total_selection_partial, C19_total_net_partial, C19_total_light_labels_partial)",
               "Python shares a parameter group assigned to several fields, the Lean tree copies it: histories continue only "
               "at ancestors of a group-valued assignment"]
TRUSTED = ["harness expansion of model items to shapes uses the implementation's own occupancy_at_time / state_at_time_step "
           "(the model selects *which* occupancy is drawn, not its geometry)"]
REQUIRED_BUCKETS = ["params:ctor-window", "params:top-level", "params:nested", "params:group-value", "params:deeper-only",
                    "params:not-declared", "params:window", "params:self-referential", "params:partly-held", "params:item-assignment", "draw:plain", "draw:lattice", "window:before", "window:inside",
                    "window:after", "window:tb=te", "obst:static", "obst:dyn-none", "obst:dyn-traj", "obst:dyn-set",
                    "obst:phantom", "obst:env", "obst:uncertain-init", "lanelets:all", "lanelets:subset", "lanelets:none-selected",
                    "problems:filtered", "raster", "renderer-reused", "frames:keep-static", "frames:obstacles-only", "frames:failed-draw-then-clear",
                    "frames:scenario-mutated", "frames:mutated-same-step", "frames:same-params-object", "style:video", "style:render", "render:filename",
                    "queries-before-draw", "renderer:plot-limits", "renderer:focus-obstacle", "renderer:ctor-params",
                    "entry:scenario.draw", "entry:draw_scenario", "entry:renderer-params", "entry:network+draw_list",
                    "entry:per-object", "entry:list-of-params", "params:style-values", "outside-quantifier", "anchor:center", "reading:mid", "border-vertices", "light-labels", "set-based-later-steps", "hidden-by-guard", "icon", "history",
                    "axes:video-frames>=2", "axes:video-frames>=2/plain", "axes:render-then-video", "axes:earlier-frame-judged",
                    "axes:render-frame"]
WORKERS = {"quick": 1, "thorough": 8}
EXTRA_MODULES = ["CRProps.T19"]      # translator tie: Gen.SrcC19 (regenerated from the repo every run by harness/translate/src_c19.py) = hand model

PRIV = "_BaseParam__initialized"
_SCHEMA = None
_AX = None


# ================================================================================================ parameter trees

def atom(v):
    return json.dumps(v, sort_keys=True, default=repr)


def pub(g):
    """The declared (public) fields of a parameter object: private helper attributes an implementation may keep are not observed."""
    return [(k, v) for k, v in g.__dict__.items() if not k.startswith("_")]


def dump(g, _seen=()):
    """Observable state of a parameter group and everything nested in it, in __dict__ order.
    A group that contains itself (possible only after a self-referential assignment) is cut at the cycle."""
    from commonroad.visualization.draw_params import BaseParam
    if id(g) in _seen:
        return atom("<cycle>")
    seen = _seen + (id(g),)
    return {"i": bool(g.__dict__.get(PRIV, False)),
            "f": [[k, dump(v, seen) if isinstance(v, BaseParam) else atom(v)] for k, v in pub(g)]}


def schema():
    """class name -> [(field, category, group class name | None, default)], from default instances."""
    global _SCHEMA
    if _SCHEMA is None:
        from commonroad.visualization.draw_params import BaseParam
        out = {}
        for n, c in B.param_classes().items():
            inst = c()
            fs = []
            for k, v in pub(inst):
                if isinstance(v, BaseParam):
                    fs.append((k, "group", type(v).__name__, None))
                else:
                    cat = ("bool" if isinstance(v, bool) else "int" if isinstance(v, int) else "float" if isinstance(v, float)
                           else "str" if isinstance(v, str) else "dict" if isinstance(v, dict) else "opt")
                    fs.append((k, cat, None, v))
            out[n] = fs
        _SCHEMA = out
    return _SCHEMA


def declares_deep(cls, name, seen=()):
    for k, cat, gc, _ in schema()[cls]:
        if k == name:
            return True
        if cat == "group" and declares_deep(gc, name):
            return True
    return False


def name_kinds():
    """field name -> list of (category, group class) over all classes that declare it."""
    m = {}
    for c, fs in schema().items():
        for k, cat, gc, d in fs:
            m.setdefault(k, [])
            if (cat, gc) not in m[k]:
                m[k].append((cat, gc))
    return m


COLORS = ["#1d7eea", "red", "k", "#00aa16", "g"]


def g_plain(r, name, cat):
    if name in ("time_begin", "time_end"):
        return r.choice([0, 1, 5, 17, 200, -3, 1000])
    if name in ("draw_ids", "show_traffic_signs"):
        return r.choice([None, [], [10], [10, 20, 999]])
    if name == "speed_limit_unit":
        return r.choice(["auto", "mph", "kmh"])
    if cat == "bool":
        return r.random() < 0.5
    if cat == "int":
        return r.choice([0, 1, 3, 9, 20])
    if cat == "float":
        return r.choice([0.0, 0.25, 1.0, 2.5, 18.0])
    if cat == "str":
        return r.choice(COLORS)
    if cat == "dict":
        return {}
    return r.choice([None, "black", 0.5])


def g_group_value(r, cls, depth=0):
    kw = {}
    for k, cat, gc, _ in schema()[cls]:
        if r.random() < (0.25 if depth == 0 else 0.1):
            if cat == "group":
                if depth < 1:
                    kw[k] = g_group_value(r, gc, depth + 1)
            else:
                kw[k] = {"v": g_plain(r, k, cat)}
    return {"g": cls, "kw": kw}


def paths_of(cls, prefix=()):
    out = [(list(prefix), cls)]
    for k, cat, gc, _ in schema()[cls]:
        if cat == "group":
            out.extend(paths_of(gc, prefix + (k,)))
    return out


def gen_params_case(ctx):
    r = ctx.rng
    sch = schema()
    kinds = name_kinds()
    roots = [c for c in sch if c != "BaseParam"]
    root = "MPDrawParams" if r.random() < 0.3 else r.choice(
        ["DynamicObstacleParams", "PhantomObstacleParams", "LaneletNetworkParams", "PlanningProblemSetParams",
         "PlanningProblemParams", "VehicleShapeParams", "OccupancyParams", "StaticObstacleParams", "TrajectoryParams",
         "InitialStateParams", "VehicleSignalParams"] + roots)
    kw = g_group_value(r, root)["kw"]
    if r.random() < 0.5:
        kw["time_begin"] = {"v": r.choice([3, 7, 50])}
        if r.random() < 0.7:
            kw["time_end"] = {"v": r.choice([8, 60, 300])}
    if r.random() < 0.3:
        # one parameter set again and again at different depths of one branch with values from a small pool that contains
        # the default: nested groups deviate from the groups above them, then an ancestor is set to a value that some of
        # the groups below already hold and others do not
        deep_paths = [(pth, c) for pth, c in paths_of(root) if len(pth) >= 2]
        if deep_paths:
            pth, c = r.choice(deep_paths)
            names = [(k, cat, d) for k, cat, gc, d in sch[c] if cat != "group"]
            name, cat, dflt = r.choice(names) if r.random() < 0.7 else ("time_begin", "int", 0)
            pool = [dflt, g_plain(r, name, cat), g_plain(r, name, cat)] + ([None] if cat == "opt" or r.random() < 0.15 else [])
            ops = [[pth[:r.randint(0, len(pth))] if i else list(pth), name, {"v": r.choice(pool)}]
                   for i in range(r.choice([2, 3, 4, 5]))]
            return {"kind": "params", "root": root, "kw": kw, "ops": ops}
    ops = []
    allowed = None  # after a group-valued assignment at path P only prefixes of P are addressed (aliasing, see RULE)
    all_paths = paths_of(root)
    all_names = sorted(kinds)
    for _ in range(r.choice([1, 2, 3, 5, 7])):
        if allowed is None:
            path, cls = r.choice(all_paths) if r.random() < 0.6 else all_paths[0]
        else:
            k = r.randint(0, len(allowed))
            path = allowed[:k]
            cls = [c for p, c in all_paths if p == path][0]
        own = [k for k, _, _, _ in sch[cls]]
        deeper = sorted({n for n in all_names if declares_deep(cls, n) and n not in own})
        mode = r.choice(["own", "own", "window", "deeper", "deeper", "elsewhere", "bogus"])
        if allowed is None and r.random() < 0.08:
            # self-referential assignment: a group inside the value declares the assigned name (type-incorrect, outside
            # the property's quantifier; Python answers RecursionError as soon as the value is stored anywhere). Ends the history.
            name = r.choice(sorted(n for n, ks in kinds.items() if any(c == "group" for c, _ in ks)))
            holders = sorted(c for c in sch if declares_deep(c, name))
            ops.append([list(path), name, {"g": r.choice(holders), "kw": {}}])
            break
        if mode == "own" or (mode == "deeper" and not deeper):
            name = r.choice(own)
        elif mode == "window":
            name = r.choice(["time_begin", "time_end", "antialiased"])
        elif mode == "deeper":
            name = r.choice(deeper)
        elif mode == "elsewhere":
            name = r.choice(all_names)
        else:
            name = r.choice(["no_such_parameter", "timebegin", "draw_shapes"])
        cands = kinds.get(name, [("int", None)])
        cat, gc = r.choice(cands)
        if cat == "group":
            if declares_deep(gc, name) or r.random() < 0.3:
                v = {"v": None}  # a group value whose interior declares the name is outside the model; use a plain value
            else:
                v = g_group_value(r, gc)
                allowed = list(path)
        else:
            v = {"v": g_plain(r, name, cat)}
        ops.append([list(path), name, v] + (["setitem"] if r.random() < 0.25 else []))
    return {"kind": "params", "root": root, "kw": kw, "ops": ops}


def spec_tree(v):
    """Value spec -> what the model receives (atom string or tree of the constructed group)."""
    if isinstance(v, dict) and "g" in v:
        return dump(B.mk_value(v))
    return atom(v["v"])


def walk_groups(g, path=()):
    from commonroad.visualization.draw_params import BaseParam
    yield path, g
    for k, v in pub(g):
        if isinstance(v, BaseParam):
            yield from walk_groups(v, path + (k,))


def run_params_case(ctx, case, model=True):
    from commonroad.visualization.draw_params import BaseParam
    ctx.case(case)
    cls = B.param_classes()[case["root"]]
    kw = case["kw"]
    # ---- construction: generated __init__ (no propagation) then __post_init__
    res = call(lambda: B.mk_value({"g": case["root"], "kw": kw}))
    if res[0] != "ok":
        ctx.fail(f"C19/params.ctor/raises-{res[1]}", f"{case['root']}(**{list(kw)}) raises {res[2]}", case)
        return
    root = res[1]
    if "time_begin" in kw or "time_end" in kw:
        ctx.tag("params:ctor-window")
    if model:
        pre = dump(cls())
        pre["i"] = False
        for k, v in kw.items():
            for f in pre["f"]:
                if f[0] == k:
                    f[1] = spec_tree(v)
        m = ctx.driver.ask("C19", "post_init", {"tree": pre})
        ctx.compare(case, {"ok": dump(root)}, m, f"{case['root']}(**kw) vs CR.Params.Grp.postInit")
    # oracle: constructor window reaches every nested group that declares it
    for nm in ("time_begin", "time_end"):
        if nm in kw:
            for path, h in walk_groups(root):
                if nm in {f.name for f in dataclasses.fields(h)} and getattr(h, nm) != kw[nm]["v"]:
                    ctx.fail("C19/params.ctor/window-not-propagated",
                             f"{case['root']}({nm}={kw[nm]['v']}): nested group {'.'.join(path)} has {nm}={getattr(h, nm)!r}",
                             {**case, "ops": []})
    # ---- assignments
    impl, trees_in = [], []
    for i, (path, name, v, *via) in enumerate(case["ops"]):
        via = via[0] if via else "setattr"
        val = B.mk_value(v)
        sub = {**case, "ops": case["ops"][:i + 1]}
        tres = call(B.follow, root, path)
        if tres[0] != "ok" or not isinstance(tres[1], BaseParam):
            # an earlier step stored a plain value where the path expects a group: AttributeError on both sides
            res = call(lambda: setattr(B.follow(root, path), name, val))
            impl.append({"err": res[1]} if res[0] != "ok" else {"ok": dump(root)})
            trees_in.append([path, name, spec_tree(v)])
            continue
        target = tres[1]
        is_group = isinstance(val, BaseParam)
        own = name in {f.name for f in dataclasses.fields(target)}
        deeper = any(name in {f.name for f in dataclasses.fields(h)} for p, h in walk_groups(target) if p)
        ctx.tag("params:top-level" if not path else "params:nested")
        if is_group:
            ctx.tag("params:group-value")
        if not own and deeper:
            ctx.tag("params:deeper-only")
        if not own and not deeper:
            ctx.tag("params:not-declared")
        if name in ("time_begin", "time_end"):
            ctx.tag("params:window")
        if not is_group:
            held = [getattr(h, name) for _, h in walk_groups(target) if name in {f.name for f in dataclasses.fields(h)}]
            if any(x == val and type(x) is type(val) for x in held) and any(x != val for x in held):
                ctx.tag("params:partly-held")  # some nested groups already hold the value, others deviate
        selfref = is_group and declares_deep(type(val).__name__, name)
        if via == "setitem":  # the item form of the same assignment, after a read of a missing item (KeyError, no effect)
            ctx.tag("params:item-assignment")
            miss = call(lambda: target["no_such_parameter"])
            if miss[:2] != ("err", "key"):
                ctx.fail("C19/params.getitem/missing-item-no-KeyError", f"group['no_such_parameter'] gives {miss[:2]}", sub)
            res = call(target.__setitem__, name, val)
        else:
            res = call(setattr, target, name, val)
        if selfref:
            # outside the property's quantifier: only the correspondence (RecursionError <-> CR.Params.Grp.setPy) is checked;
            # the objects are cyclic after the error, so the history ends here
            ctx.tag("params:self-referential")
            trees_in.append([path, name, spec_tree(v)])
            impl.append({"err": res[1]} if res[0] != "ok" else {"ok": dump(root)})
            break
        if res[0] != "ok":
            ctx.fail(f"C19/params.setattr/raises-{res[1]}", f"setattr({'.'.join(path) or 'root'}, {name!r}, …) raises {res[2]}", sub)
            impl.append({"err": res[1]})
            trees_in.append([path, name, spec_tree(v)])
            continue
        # oracle: every group nested in the target (the target included) that declares the name holds the value;
        # the groups are those that were nested before the assignment (minus fields replaced by it) plus the value itself
        for p, h in list(walk_groups(target)):
            if name in p:
                continue  # inside the freshly stored value
            if name in {f.name for f in dataclasses.fields(h)}:
                got = getattr(h, name)
                ok = (got is val) if is_group else (got == val and type(got) is type(val))
                if not ok:
                    ctx.fail("C19/params.setattr/not-propagated",
                             f"after setattr({'.'.join(path) or 'root'}, {name!r}, {v}) the nested group "
                             f"{'.'.join(path + list(p)) or 'root'} declares {name!r} but holds {got!r}", sub)
            elif name in h.__dict__:
                ctx.fail("C19/params.setattr/undeclared-attribute-created",
                         f"group {'.'.join(path + list(p)) or 'root'} does not declare {name!r} but acquired it", sub)
        impl.append({"ok": dump(root)})
        trees_in.append([path, name, spec_tree(v)])
    if model and case["ops"]:
        m = ctx.driver.ask("C19", "setattr", {"tree": dump(B.mk_value({"g": case["root"], "kw": kw})), "ops": trees_in})
        for i, (a, b) in enumerate(zip(impl, m)):  # noqa: B007
            if not ctx.compare({**case, "ops": case["ops"][:i + 1]}, a, b,
                               f"BaseParam.__setattr__ vs CR.Params.Grp.setAt, step {i}: {case['ops'][i][:2]}"):
                break


# ================================================================================================ drawing

def get_ax():
    global _AX
    if _AX is None:
        import matplotlib
        matplotlib.use("Agg")
        import matplotlib.pyplot as plt
        fig, ax = plt.subplots(figsize=(3, 2), dpi=40)
        _AX = ax
    return _AX


def flat(shape):
    """Shape -> list of canonical primitives, in the order Shape.draw emits them."""
    from commonroad.geometry.shape import Circle, Polygon, Rectangle, ShapeGroup
    if isinstance(shape, ShapeGroup):
        out = []
        for s in shape.shapes:
            out.extend(flat(s))
        return out
    if isinstance(shape, Circle):
        return [["ell", canon(shape.center), canon(2 * shape.radius), canon(2 * shape.radius)]]
    if isinstance(shape, (Rectangle, Polygon)):
        return [poly(shape.vertices)]
    raise TypeError(type(shape))


def poly(v):
    import numpy as np
    v = np.asarray(v, dtype=float)[:, :2]
    if len(v) > 1 and (v[0] == v[-1]).all():
        v = v[:-1]
    return ["poly", canon(v)]


def patch_canon(p):
    import matplotlib.patches as mp
    if isinstance(p, mp.Polygon):
        return poly(p.get_xy())
    if isinstance(p, mp.Ellipse):
        return ["ell", canon(p.center), canon(p.width), canon(p.height)]
    # any other patch (icon parts, path patches): its outline in data coordinates
    return ["path", type(p).__name__, canon(p.get_patch_transform().transform(p.get_path().vertices))]


def walk_fields(g, path=()):
    from commonroad.visualization.draw_params import BaseParam
    for k, v in pub(g):
        if k == PRIV:
            continue
        if isinstance(v, BaseParam):
            yield from walk_fields(v, path + (k,))
        else:
            yield list(path), k, v


_BOOLS = None


def bool_fields():
    global _BOOLS
    if _BOOLS is None:
        from commonroad.visualization.draw_params import MPDrawParams
        _BOOLS = [(p, k) for p, k, v in walk_fields(MPDrawParams()) if isinstance(v, bool)]
    return _BOOLS


PLAIN_SETS = [[[], "draw_shape", {"v": True}], [[], "draw_icon", {"v": False}], [[], "draw_signals", {"v": False}],
              [[], "draw_trajectory", {"v": False}], [[], "draw_occupancies", {"v": False}], [[], "draw_history", {"v": False}],
              [[], "draw_direction", {"v": False}], [[], "draw_initial_state", {"v": False}], [[], "fill_lanelet", {"v": True}]]
OBSTACLE_FLAGS = {"draw_shape", "draw_icon", "draw_signals", "draw_trajectory", "draw_occupancies", "draw_history",
                  "draw_direction", "draw_initial_state", "draw_arrow", "fill_lanelet", "draw_continuous"}


_DEFAULT = None


def fresh_default():
    global _DEFAULT
    if _DEFAULT is None:
        from commonroad.visualization.draw_params import MPDrawParams
        _DEFAULT = MPDrawParams()
    return _DEFAULT


MUTATIONS = ["remove", "drop-prediction", "set-prediction", "retime-trajectory", "initial-state", "add"]


def g_mutation(r, spec):
    k = r.choice(MUTATIONS)
    dyn = [o for o in spec["obstacles"] if o["role"] == "dynamic"]
    m = {"kind": k, "idx": r.randrange(8)}
    if k == "set-prediction":
        if not dyn:
            return None
        tgt = dyn[m["idx"] % len(dyn)]
        donor = G.g_obstacle(r, 9999, "dynamic")
        donor["init"]["t"] = tgt["init"]["t"]
        if donor.get("pred", {}).get("kind") == "set":  # occupancies of the donor start after the target's initial step
            donor["pred"] = G.g_set_pred(r, tgt["init"]["t"] + 1)
        m["donor"] = donor
    elif k == "add":
        spec["_next_id"] = spec.get("_next_id", 9000) + 1
        m["obstacle"] = G.g_obstacle(r, spec["_next_id"], r.choice(["static", "dynamic", "env"]))
    elif k == "initial-state":
        m["pos"] = [r.choice(G.Q) * 2, r.choice(G.Q)]
    return m


# ---- time_begin against every boundary of every obstacle's horizon (round-6 dimension: predictions that start later than the
# step after the initial state, so that there is a gap in which the obstacle reports no occupancy and no state)
REQUIRED_BUCKETS += ["obst:dyn-traj-gap", "obst:dyn-traj-gap>len", "horizon:before-initial", "horizon:at-initial",
                     "horizon:in-gap/traj", "horizon:in-gap/set", "horizon:first-step", "horizon:inside", "horizon:last-step",
                     "horizon:after-end", "horizon:in-hole/set", "horizon:phantom-occupancy", "horizon:phantom-no-occupancy",
                     "gap-obstacle:before-initial", "gap-obstacle:at-initial", "gap-obstacle:in-gap", "gap-obstacle:first-step",
                     "gap-obstacle:last-step", "gap-obstacle:after-end",
                     "plain:in-gap/traj", "plain:in-gap>len/traj", "plain:prediction-after-gap"]
RULE += ("; trajectory predictions start at initial step + 1 + gap, gap 0 (60%) / 1 / 2 / 4 / 7 steps (shorter and longer than the "
         "trajectory of 1..6 states), also for focus obstacles and for predictions assigned between frames; time_begin is taken "
         "from the points around every horizon boundary of every obstacle (before / at / after the initial step, the first and the "
         "last prediction step) plus every step of a gap or hole, in ~30% of the cases with such steps directly from them")


def horizon_of(o):
    """(initial step, sorted steps covered by the prediction) of a dynamic / phantom obstacle, read from the time steps its own
    states / occupancies carry (not from occupancy_at_time)."""
    from commonroad.common.util import Interval
    from commonroad.prediction.prediction import TrajectoryPrediction
    init = o.initial_state.time_step if hasattr(o, "initial_state") else None
    pr = o.prediction
    steps = set()
    if isinstance(pr, TrajectoryPrediction):
        steps.update(int(st.time_step) for st in pr.trajectory.state_list)
    elif pr is not None:
        for oc in pr.occupancy_set:
            ts = oc.time_step
            steps.update(range(int(ts.start), int(ts.end) + 1) if isinstance(ts, Interval) else [int(ts)])
    return init, sorted(steps)


def tag_horizon(ctx, o, tb, plain):
    """Coverage buckets: where time_begin lies relative to the horizon of this obstacle."""
    from commonroad.prediction.prediction import TrajectoryPrediction
    from commonroad.scenario.obstacle import DynamicObstacle, PhantomObstacle
    if isinstance(o, PhantomObstacle):
        _, steps = horizon_of(o)
        ctx.tag("horizon:phantom-occupancy" if tb in steps else "horizon:phantom-no-occupancy")
        return
    if not isinstance(o, DynamicObstacle):
        return
    init, steps = horizon_of(o)
    steps = [t for t in steps if t > init]  # occupancy_at_time answers from the prediction only after the initial step
    kind = "traj" if isinstance(o.prediction, TrajectoryPrediction) else "set"
    gap = steps[0] - init - 1 if steps else 0
    longer = kind == "traj" and gap > len(steps)
    if kind == "traj" and gap > 0:
        ctx.tag("obst:dyn-traj-gap")
        if longer:
            ctx.tag("obst:dyn-traj-gap>len")
    if tb < init:
        where = "before-initial"
    elif tb == init:
        where = "at-initial"
    elif not steps or tb > steps[-1]:
        where = "after-end"
    elif tb < steps[0]:
        where = "in-gap/" + kind
    elif tb == steps[0]:
        where = "first-step"
    elif tb == steps[-1]:
        where = "last-step"
    else:
        where = "inside" if tb in steps else "in-hole/" + kind
    ctx.tag("horizon:" + where)
    if kind == "traj" and gap > 0:
        ctx.tag("gap-obstacle:" + where.split("/")[0])
        if tb == steps[-1]:
            ctx.tag("gap-obstacle:last-step")  # a one-state trajectory: the first step is the last one
        if plain:  # the cases in which the oracle judges clause (b) on an obstacle with a gap
            if where == "in-gap/traj":
                ctx.tag("plain:in-gap/traj")
                if longer:
                    ctx.tag("plain:in-gap>len/traj")
            elif where in ("first-step", "inside", "last-step"):
                ctx.tag("plain:prediction-after-gap")


def gen_draw_case(ctx):
    r = ctx.rng
    spec = G.g_network(r)
    nob = r.choice([0, 1, 2, 3, 3, 5])
    roles = [None] * nob
    if nob and r.random() < 0.5:
        roles[0] = r.choice(["dynamic", "dynamic", "phantom", "static", "env"])
    focus = nob > 0 and r.random() < 0.2
    spec["obstacles"] = [G.g_obstacle(r, 100 + i, roles[i], focus and i == 0) for i in range(nob)]
    spec["pps"] = G.g_pps(r)
    pts = G.horizon_points(spec)
    tb = r.choice(pts)
    classes = G.boundary_classes(spec)
    if classes and r.random() < 0.5:
        tb = r.choice(r.choice(classes))  # a boundary class of an obstacle whose horizon has a gap / hole, then a step of it
    if focus:
        o = spec["obstacles"][0]
        tb = o["init"]["t"] + r.randint(0, o["pred"].get("gap", 0) + len(o["pred"]["states"]))
    te = r.choice([tb, tb + 1, tb + 2, tb + 3, r.choice(pts), tb + 40, tb + 40, tb - 1])
    mode = "plain" if r.random() < (0.2 if focus else 0.55) else "lattice"
    if mode == "plain" and te < tb:
        te = tb + r.choice([0, 1, 4])
    sets = []
    lids = [l["id"] for l in spec["lanelets"]]
    ppids = [p["id"] for p in spec["pps"]]
    if mode == "lattice":
        pf = r.choice([0.0, 0.1, 0.5, 0.9])
        for p, k in bool_fields():
            if r.random() < pf:
                sets.append([p, k, {"v": r.random() < 0.5}])
        if r.random() < 0.3:
            sets.append([["dynamic_obstacle", "history"], "steps", {"v": r.choice([0, 1, 3, 5])}])
            sets.append([["dynamic_obstacle", "history"], "step_size", {"v": r.choice([1, 2])}])
        if r.random() < 0.3:
            sets.append([[], "speed_limit_unit", {"v": r.choice(["auto", "mph", "kmh"])}])
        if r.random() < 0.3:
            sets.append([[], "show_traffic_signs", {"v": r.choice([None, [], [500], [500, 501, 7]])}])
        if r.random() < 0.35:  # style values: colours, widths, z-orders, opacities ... (type-correct, int where float is usual)
            plain = [(pp, k) for pp, k, v in walk_fields(fresh_default()) if D.PARAM_FIELDS[k][1] is not None and not isinstance(v, bool)]
            for pp, k in r.sample(plain, min(len(plain), r.choice([3, 10, 40]))):
                sets.append([pp if r.random() < 0.7 else [], k, {"v": r.choice(D.PARAM_FIELDS[k][1])}])
            spec_style = True
        else:
            spec_style = False
        if r.random() < 0.2:  # a window set on a sub-group only
            sets.append([r.choice([["dynamic_obstacle"], ["phantom_obstacle"], ["dynamic_obstacle", "trajectory"],
                                   ["static_obstacle"], ["lanelet_network"]]), r.choice(["time_begin", "time_end"]),
                         {"v": r.choice(pts)}])
        sets.append([[], "time_begin", {"v": tb}] if r.random() < 0.9 else [["dynamic_obstacle"], "time_begin", {"v": tb}])
        sets.append([[], "time_end", {"v": te}])
        r.shuffle(sets)
        if r.random() < 0.6:  # make sure the rarer branches of draw_dynamic_obstacle are taken often
            for k in r.sample(["draw_icon", "draw_history", "draw_occupancies", "draw_direction", "draw_initial_state",
                               "draw_signals", "draw_continuous", "draw_trajectory", "show_label", "draw_arrow"], r.choice([1, 2, 4])):
                sets.append([r.choice([[], ["dynamic_obstacle"]]), k, {"v": True}])
        for k, pr in (("draw_icon", 0.6 if focus else 0.2), ("draw_history", 0.3), ("draw_occupancies", 0.2),
                      ("show_label", 0.5 if focus else 0.0), ("draw_initial_state", 0.5 if focus else 0.0),
                      ("draw_arrow", 0.4 if focus else 0.0)):
            if r.random() < pr:
                sets.append([[], k, {"v": True}])
    else:
        for p, k in bool_fields():  # flags that do not concern obstacle shapes are free
            if k not in OBSTACLE_FLAGS and r.random() < 0.15:
                sets.append([p, k, {"v": r.random() < 0.5}])
        sets.extend(PLAIN_SETS)
        sets.append([[], "time_begin", {"v": tb}])
        sets.append([[], "time_end", {"v": te}])
        r.shuffle(sets)
    if r.random() < 0.55:
        sets.append([["lanelet_network"], "draw_ids", {"v": r.choice([[], lids[:1], lids[1:], lids[::2], lids + [999], [999]])}])
    if r.random() < 0.5:
        sets.append([["planning_problem_set"], "draw_ids", {"v": r.choice([[], ppids[:1], ppids[1:], ppids + [5], [5]])}])
    kw = {}
    if mode == "plain" and r.random() < 0.3:  # the window through the constructor instead of assignments
        sets = [s for s in sets if s[1] not in ("time_begin", "time_end")]
        kw = {"time_begin": {"v": tb}, "time_end": {"v": te}}
    spec["params"] = {"root": "MPDrawParams", "kw": kw, "sets": sets}
    spec.update({"kind": "draw", "mode": mode, "tb": tb, "te": te, "raster": r.random() < 0.4})
    if mode == "lattice" and spec_style:
        spec["style_values"] = True
    if r.random() < 0.45:
        # earlier frames on the same renderer. Styles: 'render' = draws + render(keep_static_artists=…); 'failed' = a draw that
        # raises half-way (invalid extra obstacle) followed by clear(); 'video' = create_video's frame step (remove_dynamic, clear,
        # draws, render_dynamic) — once a video frame occurred all later frames are video frames (render_dynamic does not clear).
        # The static map is normally drawn only while none is kept. Between frames the scenario may be changed in place and the
        # parameter object may be one shared object whose window is re-set.
        frames, kept, video = [], 0, False
        same = r.random() < 0.35
        for _ in range(r.choice([1, 1, 2, 3])):
            st = "video" if video else r.choice(["render", "render", "render", "failed", "video"])
            video = video or st == "video"
            nw = st == "video" or kept == 0 or r.random() < 0.15
            keep = st == "render" and r.random() < 0.5
            fr = {"dt": r.choice([1, 1, -1, 2, 0]), "network": nw, "keep": keep, "style": st,
                  "entry": r.choice(ENTRIES_FULL), "params": "same" if same else "fresh"}
            if r.random() < 0.2 and st != "failed":
                fr["mutate"] = g_mutation(r, spec)
            frames.append(fr)
            kept = 0 if st in ("video", "failed") else (kept + nw if keep else 0)
        spec["frames"] = frames
        spec["style"] = "video" if video or r.random() < 0.1 else "render"
        spec["network"] = spec["style"] == "video" or kept == 0 or r.random() < 0.15
        spec["main_params"] = "same" if same else "fresh"
        if r.random() < 0.3:
            spec["mutate"] = g_mutation(r, spec)
            if spec["mutate"] and frames[-1]["style"] != "failed" and r.random() < 0.75:
                frames[-1]["dt"] = 0  # the same time step is drawn before and after the change of the scenario
    elif r.random() < 0.05:
        spec["style"] = "video"
    if r.random() < 0.6:
        spec["entry"] = r.choice(ENTRIES_FULL if spec.get("network", True) else ENTRIES_OBST)
    rc = {}
    if r.random() < 0.35:
        rc["plot_limits"] = r.choice([[-30, 60, -20, 20], [-30.5, 60.0, -20.25, 20.0], [[-30, 60], [-20, 20]], "auto"])
    if spec["obstacles"] and r.random() < 0.25:
        rc["focus"] = r.randrange(len(spec["obstacles"]))
    if r.random() < 0.2:
        rc["figsize"] = r.choice([[3, 2], [2.5, 2.5]])
    if r.random() < 0.2:
        rc["ctor_params"] = True
    if rc:
        spec["renderer"] = rc
    spec["queries"] = r.random() < 0.3
    spec["savefig"] = spec.get("style", "render") == "render" and r.random() < 0.08
    if nob and r.random() < 0.1:
        spec["obstacles"][0]["id"] = 0
    return spec


def signal_count(sig, shape):
    """Number of ellipses `_draw_signal_state` draws (mp_renderer.py:1596-1650)."""
    from commonroad.geometry.shape import Rectangle
    if not isinstance(shape, Rectangle):
        return 0
    n = 0
    if getattr(sig, "hazard_warning_lights", None) is True:
        n += 4
    else:
        n += 2 * (getattr(sig, "indicator_left", None) is True) + 2 * (getattr(sig, "indicator_right", None) is True)
    n += 2 * (getattr(sig, "braking_lights", None) is True)
    n += (getattr(sig, "flashing_blue_lights", None) is True) + (getattr(sig, "horn", None) is True)
    return n


def describe(o, lo, hi):
    """What the selection model reads from an obstacle: everything through the obstacle's public query methods."""
    from commonroad.geometry.shape import Rectangle
    from commonroad.prediction.prediction import SetBasedPrediction, TrajectoryPrediction
    from commonroad.scenario.obstacle import DynamicObstacle, EnvironmentObstacle, PhantomObstacle, StaticObstacle
    from commonroad.common.util import Interval
    from commonroad.visualization.icons import supported_icons
    no = {"all": False, "ts": []}
    d = {"init": 0, "pred": {"kind": "none"}, "uncInit": False, "stateAt": no, "uncAt": no, "sigAt": no, "rectAt": no,
         "iconType": False, "hasLW": False, "orientIntInit": False, "velIntInit": False, "orientIntAt": no, "velIntAt": no}
    rng = range(lo, hi + 1)
    if isinstance(o, EnvironmentObstacle):
        d.update(role="env", occ={"all": True, "ts": []})
        return d
    if isinstance(o, PhantomObstacle):
        d.update(role="phantom", occ={"all": False, "ts": [t for t in rng if o.occupancy_at_time(t) is not None]})
        return d
    d["init"] = o.initial_state.time_step
    d["uncInit"] = bool(o.initial_state.is_uncertain_position)
    d["orientIntInit"] = isinstance(getattr(o.initial_state, "orientation", None), Interval)
    d["velIntInit"] = isinstance(getattr(o.initial_state, "velocity", None), Interval)
    d["sigAt"] = {"all": False, "ts": [t for t in rng if o.signal_state_at_time_step(t) is not None]}
    if isinstance(o, StaticObstacle):
        d.update(role="static", occ={"all": True, "ts": []})
        return d
    assert isinstance(o, DynamicObstacle)
    d["role"] = "dynamic"
    occ = {t: o.occupancy_at_time(t) for t in rng}
    d["occ"] = {"all": False, "ts": [t for t in rng if occ[t] is not None]}
    d["rectAt"] = {"all": False, "ts": [t for t in rng if occ[t] is not None and isinstance(occ[t].shape, Rectangle)]}
    d["iconType"] = o.obstacle_type in supported_icons()
    d["hasLW"] = hasattr(o.obstacle_shape, "length") and hasattr(o.obstacle_shape, "width")
    p = o.prediction
    if isinstance(p, TrajectoryPrediction):
        d["pred"] = {"kind": "traj", "final": p.final_time_step}
        st = {t: p.trajectory.state_at_time_step(t) for t in rng}
        d["stateAt"] = {"all": False, "ts": [t for t in rng if st[t] is not None]}
        d["uncAt"] = {"all": False, "ts": [t for t in rng if st[t] is not None and st[t].is_uncertain_position]}
        d["orientIntAt"] = {"all": False, "ts": [t for t in rng if st[t] is not None
                                                 and isinstance(getattr(st[t], "orientation", None), Interval)]}
        d["velIntAt"] = {"all": False, "ts": [t for t in rng if st[t] is not None
                                              and isinstance(getattr(st[t], "velocity", None), Interval)]}
    elif isinstance(p, SetBasedPrediction):
        if not p.occupancy_set:
            d["pred"] = {"kind": "set-empty"}
        else:
            f = p.final_time_step
            d["pred"] = {"kind": "set", "final": int(f.end) if isinstance(f, Interval) else f}
    return d


def read_flags(p):
    dy, ph = p.dynamic_obstacle, p.phantom_obstacle
    return {"dyn": {"tb": dy.time_begin, "te": dy.time_end, "draw_shape": dy.draw_shape, "draw_icon": dy.draw_icon,
                    "draw_direction": dy.draw_direction, "draw_signals": dy.draw_signals,
                    "draw_occupancies": dy.occupancy.draw_occupancies, "draw_trajectory": dy.trajectory.draw_trajectory,
                    "draw_history": dy.history.draw_history, "hist_steps": dy.history.steps,
                    "hist_step_size": dy.history.step_size, "draw_initial_state": dy.draw_initial_state,
                    "show_label": dy.show_label, "state_arrow": dy.state.draw_arrow, "traj_tb": dy.trajectory.time_begin, "traj_te": dy.trajectory.time_end,
                    "traj_continuous": dy.trajectory.draw_continuous},
            "ph": {"tb": ph.time_begin, "te": ph.time_end, "draw_shape": ph.draw_shape,
                   "draw_occupancies": ph.occupancy.draw_occupancies},
            "tb_static": p.static_obstacle.time_begin, "tb_env": p.environment_obstacle.time_begin}


ANY = ["any"]


def marker_state(o, p):
    """The state the icon is placed at (mp_renderer.py:563-566)."""
    tb = p.dynamic_obstacle.time_begin
    return o.initial_state if tb == o.initial_state.time_step else o.prediction.trajectory.state_at_time_step(tb)


def label_state(o, p):
    """The state of lines 622-627 (label, state marker): the initial state iff time_begin == 0."""
    tb = p.dynamic_obstacle.time_begin
    return o.initial_state if tb == 0 else o.prediction.trajectory.state_at_time_step(tb)


def anchor(st, how):
    """The point the model selected: the position array itself ("exact") or the centre of the position shape ("center")."""
    return st.position.center if how == "center" else st.position


def reading(x, how):
    """The number the model selected: the value itself ("exact") or the centre of the interval ("mid")."""
    return 0.5 * (x.start + x.end) if how == "mid" else x


def expand(item, o, p):
    """Model item -> expected canonical patches (geometry from the implementation's own query methods)."""
    from commonroad.visualization.icons import get_obstacle_icon_patch
    from commonroad.visualization.util import get_vehicle_direction_triangle
    k = item[0]
    if k in ("occ", "hist"):
        return flat(o.occupancy_at_time(item[1]).shape)
    if k == "uncInit":
        return flat(o.initial_state.position)
    if k in ("uncState", "uncTraj"):
        return flat(o.prediction.trajectory.state_at_time_step(item[1]).position)
    if k == "dir":
        return [poly(get_vehicle_direction_triangle(o.occupancy_at_time(p.dynamic_obstacle.time_begin).shape))]
    if k == "icon":
        st = marker_state(o, p)
        dy = p.dynamic_obstacle
        return [patch_canon(x) for x in get_obstacle_icon_patch(
            o.obstacle_type, anchor(st, item[1])[0], anchor(st, item[1])[1], reading(st.orientation, item[2]),
            vehicle_length=o.obstacle_shape.length, vehicle_width=o.obstacle_shape.width,
            vehicle_color=dy.vehicle_shape.occupancy.shape.facecolor, edgecolor=dy.vehicle_shape.occupancy.shape.edgecolor,
            zorder=dy.zorder, opacity=dy.opacity)]
    if k == "sig":
        tb = p.dynamic_obstacle.time_begin
        return [ANY] * signal_count(o.signal_state_at_time_step(tb), o.occupancy_at_time(tb).shape)
    if k == "trajLine":
        return [ANY]
    if k == "state":
        import math
        import matplotlib.patches as mp
        sp = p.dynamic_obstacle.state
        st = label_state(o, p)
        pos = anchor(st, item[1])
        out = [patch_canon(mp.Circle(pos, radius=sp.radius))]
        if item[2] is not None:
            ori, vel = reading(st.orientation, item[2][0]), reading(st.velocity, item[2][1])
            ln = max(vel, 3.0 / sp.scale_factor)
            out.append(patch_canon(mp.FancyArrow(x=pos[0], y=pos[1], dx=ln * math.cos(ori) * sp.scale_factor,
                                                 dy=ln * math.sin(ori) * sp.scale_factor, width=sp.arrow.width)))
        return out
    if k == "label":
        return []
    raise ValueError(k)


def multiset_sub(a, b):
    """a - b as multisets of JSON values; returns (rest of a, part of b not found in a)."""
    rest = [json.dumps(x) for x in a]
    missing = []
    for x in b:
        s = json.dumps(x)
        if s in rest:
            rest.remove(s)
        else:
            missing.append(x)
    return [json.loads(x) for x in rest], missing


def lanelet_poly(l):
    import numpy as np
    return poly(np.concatenate((l.right_vertices[:, :2], np.flip(l.left_vertices[:, :2], 0))))


def fail_exc(ctx, stage, e, case):
    import traceback
    fr = [f for f in traceback.extract_tb(e.__traceback__) if "commonroad" in f.filename]
    loc = f"{os.path.basename(fr[-1].filename)}:{fr[-1].name}" if fr else "matplotlib"
    ctx.fail(f"C19/{stage}/raises-{err_class(e)}/{loc}",
             f"{stage} raises {type(e).__name__}: {str(e)[:160]} (time window [{case['tb']}, {case['te']}), mode {case['mode']})",
             case)
    try:
        get_ax().cla()
    except Exception:  # noqa
        pass


def descriptors(p, obstacles):
    fl = read_flags(p)
    times = [fl["dyn"]["tb"], fl["dyn"]["te"], fl["dyn"]["traj_tb"], fl["dyn"]["traj_te"], fl["ph"]["tb"], fl["ph"]["te"]]
    hist = max(0, fl["dyn"]["hist_steps"]) * abs(fl["dyn"]["hist_step_size"])
    lo, hi = min(times) - hist - 2, max(times) + 2
    return [describe(o, lo, hi) for o in obstacles]


def model_draw(ctx, p, obstacles):
    """The selection model's answer for this parameter object and these obstacles: the tree goes in, `flagsOf` reads it."""
    return ctx.driver.ask("C19", "draw_tree", {"tree": dump(p), "obstacles": descriptors(p, obstacles)})


def expected_of(items, obstacles, p):
    """Model items of one frame -> expected canonical patches and labels."""
    expected, labels = [], []
    for o, its in zip(obstacles, items):
        for it in its:
            if it[0] == "label":
                pos = anchor(label_state(o, p), it[1])
                labels.append([canon(pos[0] + 0.5), canon(pos[1]), str(o.obstacle_id)])
            expected.extend(expand(it, o, p))
    return expected, labels


def observe_buffers(rnd):
    patches = [patch_canon(x) for x in rnd.obstacle_patches]
    labels = [[canon(t.get_position()[0]), canon(t.get_position()[1]), t.get_text()] for t in rnd.dynamic_labels]
    return patches, labels


def light_texts(ax):
    """Texts of all TextArea boxes inside the annotation boxes of the axes (traffic-light / sign labels)."""
    from matplotlib.offsetbox import AnnotationBbox, OffsetBox, TextArea

    def texts(box):
        out = [box.get_text()] if isinstance(box, TextArea) else []
        for c in box.get_children():
            if isinstance(c, OffsetBox):
                out.extend(texts(c))
        return out
    return sorted(t for a in ax.get_children() if isinstance(a, AnnotationBbox) for t in texts(a.offsetbox))


def prescribed_shapes(ctx, obstacles, tb, te):
    """The property text evaluated on the obstacles' own query methods: shapes that must be drawn / may be drawn in addition."""
    from commonroad.prediction.prediction import SetBasedPrediction
    from commonroad.scenario.obstacle import DynamicObstacle, PhantomObstacle, StaticObstacle
    required, allowed = [], []
    for o in obstacles:
        occ = o.occupancy_at_time(tb)
        here = flat(occ.shape) if occ is not None else []
        required.extend(here)
        later = []
        if isinstance(o, DynamicObstacle) and isinstance(o.prediction, SetBasedPrediction):
            for t in range(tb + 1, te):  # "also those at the later steps of the time window"; the end point is not demanded
                oc = o.occupancy_at_time(t)
                if oc is not None:
                    later.extend(flat(oc.shape))
            required.extend(later)
            oc = o.occupancy_at_time(te) if te > tb else None
            if oc is not None:
                allowed.extend(flat(oc.shape))
            if later:
                ctx.tag("set-based-later-steps")
        elif isinstance(o, PhantomObstacle):
            for t in range(tb + 1, te + 1):  # a phantom obstacle has a set-based prediction: later steps are tolerated
                oc = o.occupancy_at_time(t)
                if oc is not None:
                    allowed.extend(flat(oc.shape))
        if isinstance(o, (StaticObstacle, DynamicObstacle)) and o.initial_state.is_uncertain_position and occ is not None:
            allowed.extend(flat(o.initial_state.position))  # the uncertain initial position is drawn with the shape
        if isinstance(o, DynamicObstacle) and not here and not later:
            ctx.tag("hidden-by-guard")
    return required, allowed


class AxesWatch:
    """What the FIGURE displays: the obstacle patch collections that are on the axes (read from `ax.collections`, not from
    the renderer's bookkeeping), every path named by the canonical form of the patch it was made from.  `note` is called
    before every show with the renderer's buffers: it only builds the dictionary 'path vertices -> canonical patch' and
    remembers which collections are static map collections (lanelet centre lines / direction arrows are PatchCollections too)."""

    def __init__(self):
        self.known, self.other, self.static, self.obst = {}, set(), [], []

    @staticmethod
    def key(x):
        return json.dumps(canon(x.get_transform().transform_path(x.get_path()).vertices))

    def obstacles(self, rnd):
        """called when the buffers hold obstacle patches only (before the planning problems add their markers)"""
        have = {id(x) for x in self.obst}
        for x in rnd.obstacle_patches:
            if id(x) not in have:
                self.obst.append(x)
                self.known.setdefault(self.key(x), patch_canon(x))

    def note(self, rnd, patches=True):
        """called before every show: the remaining buffered patches are markers of planning problems (initial states, goal
        regions), not obstacle shapes; static map collections are remembered by identity"""
        have = {id(x) for x in self.obst}
        for x in rnd.obstacle_patches if patches else []:
            if id(x) not in have:
                self.other.add(self.key(x))
        have = {id(c) for c in self.static}
        self.static.extend(c for c in rnd.static_collections if id(c) not in have)

    def shown(self, ax):
        import matplotlib.collections as mcoll
        static, seen, out = {id(c) for c in self.static}, set(), []
        for col in ax.collections:
            if not isinstance(col, mcoll.PatchCollection) or id(col) in static or id(col) in seen:
                continue
            seen.add(id(col))  # the same artist added twice is displayed once
            shapes = []
            for pa in col.get_paths():
                key = json.dumps(canon(pa.vertices))
                if key in self.known or key not in self.other:
                    shapes.append(self.known.get(key, ["path", "unknown", canon(pa.vertices)]))
            out.append(shapes)
        return out


def jsorted(xs):
    return sorted(xs, key=json.dumps)


def axes_ops(tl):
    """The timeline as the renderer operations the harness performs on the real renderer, for CR.Draw.runAxes:
    -> (ops, for every show the index of the frame that makes it)."""
    ops, show_frame, video_started = [], [], False
    for i, (style, q, obs, nw, keep, tree, desc) in enumerate(tl):
        d = {"op": "draw", "tree": tree, "obstacles": desc, "draw_network": nw}
        if style == "failed":
            ops.append({"op": "clear", "keep": False})
            continue
        if style == "video":
            if not video_started:  # create_video: ax.clear(); init_frame = draw_list(...), render_static()
                ops += [{"op": "cla"}, {**d, "draw_network": True}, {"op": "render_static"}]
                video_started = True
            ops += [{"op": "remove_dynamic"}, {"op": "clear", "keep": False}, d, {"op": "render_dynamic"}]
        else:
            ops += [d, {"op": "render", "keep": keep}]
        show_frame.append(i)
    return ops, show_frame


def check_axes(ctx, case, watch, ax, i, tl, show_frame, maxes, pres, window):
    """After the show of frame i: the obstacle shapes that are ON THE AXES now (a) against the model of the axes
    (CR.Draw.runAxes: one collection per show still displayed), (b) oracle: against the occupancies the obstacles report
    for THIS frame's window — the property sentence judged on the figure, not on the buffers."""
    shown = watch.shown(ax)
    k = show_frame.index(i)
    if maxes is not None:
        exp_cols, got_cols = [], []
        for c in maxes[k]:
            fi = show_frame[c["show"]]
            exp = expected_of(c["patches"], tl[fi][2], tl[fi][1])[0]
            exp_cols.append({"n": len(exp), "known": jsorted(x for x in exp if x != ANY)})
        exp_cols = jsorted(exp_cols)
        rest = list(exp_cols)
        for g in shown:  # a displayed collection matches an expected one if it has its size and contains its known patches
            hit = next((e for e in rest if e["n"] == len(g) and not multiset_sub(g, e["known"])[1]), None)
            if hit is not None:
                rest.remove(hit)
                got_cols.append(hit)
            else:
                got_cols.append({"n": len(g), "known": jsorted(g)})
        ctx.compare(case, jsorted(got_cols), exp_cols,
                    f"obstacle patch collections on the axes after the show of frame {i} ({tl[i][0]}) vs CR.Draw.runAxes")
    if pres[i] is None:
        return
    required, allowed = pres[i]
    flat_shown = [x for g in shown for x in g]
    extra, missing = multiset_sub(flat_shown, required)
    if missing:
        ctx.fail("C19/axes/occupancy-not-shown",
                 f"frame {i} ({tl[i][0]}), window [{window[0]}, {window[1]}): {len(missing)} occupancy shape(s) the obstacles "
                 f"report are not on the axes after the frame was rendered, first {missing[0][0]}", case)
    extra2, _ = multiset_sub(extra, allowed)
    if extra2:
        ctx.fail("C19/axes/shape-without-occupancy",
                 f"frame {i} ({tl[i][0]}), window [{window[0]}, {window[1]}): the axes show {len(flat_shown)} obstacle shape(s) in "
                 f"{len(shown)} collection(s), {len(extra2)} of them are no occupancy of any obstacle in this frame's window "
                 f"(left over from an earlier frame or drawn twice), first {extra2[0][0]}", case)


ENTRIES_FULL = ["scenario.draw", "draw_scenario", "renderer-params", "network+draw_list", "per-object", "list-of-params"]
ENTRIES_OBST = ["draw_list", "per-object", "list-of-params", "renderer-params"]


def group_of(q, o):
    """The parameter group draw_scenario hands to an obstacle of this role (mp_renderer.py:464-472)."""
    from commonroad.scenario.obstacle import DynamicObstacle, EnvironmentObstacle, StaticObstacle
    return (q.dynamic_obstacle if isinstance(o, DynamicObstacle) else q.static_obstacle if isinstance(o, StaticObstacle)
            else q.environment_obstacle if isinstance(o, EnvironmentObstacle) else q.phantom_obstacle)


def draw_obstacles(rnd, sc, q, entry):
    """The public ways of drawing all obstacles of a scenario with one parameter object."""
    obs = sc.obstacles
    if entry == "per-object":
        for o in obs:
            o.draw(rnd, group_of(q, o))
    elif entry == "list-of-params":
        rnd.draw_list(obs, [q] * len(obs))
    elif entry == "renderer-params":
        rnd.draw_params = q
        rnd.draw_list(obs)
    else:
        rnd.draw_list(obs, q)


def draw_frame(rnd, sc, pps, q, network, entry):
    """One frame's draws — the whole scenario or only the obstacles on top of a kept static map — through one of the
    public entry points; returns the buffers as they are before the planning problems add their own markers."""
    if not network:
        draw_obstacles(rnd, sc, q, entry if entry in ENTRIES_OBST else "draw_list")
    elif entry == "draw_scenario":
        rnd.draw_scenario(sc, q)
    elif entry == "renderer-params":
        rnd.draw_params = q
        sc.draw(rnd)
    elif entry == "network+draw_list":
        sc.lanelet_network.draw(rnd, q)
        rnd.draw_list(sc.obstacles, q)
    elif entry == "per-object":
        sc.lanelet_network.draw(rnd, q.lanelet_network)
        draw_obstacles(rnd, sc, q, "per-object")
    elif entry == "list-of-params":
        rnd.draw_list([sc.lanelet_network] + sc.obstacles, [q] * (1 + len(sc.obstacles)))
    else:
        sc.draw(rnd, q)
    return observe_buffers(rnd)


def apply_mutation(sc, mut):
    """In-place changes of the scenario between two frames, through the public setters / scenario operations."""
    import numpy as np
    from commonroad.scenario.trajectory import Trajectory
    if not mut:
        return
    k = mut["kind"]
    dyn = sc.dynamic_obstacles
    if k == "add":
        sc.add_objects(B.mk_obstacle(mut["obstacle"]))
    elif not dyn:
        return
    else:
        o = dyn[mut["idx"] % len(dyn)]
        if k == "remove":
            sc.remove_obstacle(o)
        elif k == "drop-prediction":
            o.prediction = None
        elif k == "set-prediction":
            o.prediction = B.mk_obstacle({**mut["donor"], "id": 9999}).prediction
        elif k == "retime-trajectory" and getattr(o.prediction, "trajectory", None) is not None:
            tr = o.prediction.trajectory
            states = [st for st in tr.state_list][:max(1, len(tr.state_list) - 1)]
            o.prediction.trajectory = Trajectory(tr.initial_time_step, states)  # setter: the cached occupancy set must go
        elif k == "initial-state":
            st = o.initial_state
            st.position = B.mk_pos(mut["pos"])
            o.initial_state = st  # the same object handed back to the setter


def read_only_queries(sc, pps, q, tb):
    """Queries that must not change what is drawn afterwards (they fill caches / materialise lazy attributes)."""
    import copy
    for o in sc.obstacles:
        o.occupancy_at_time(tb)
        o.occupancy_at_time(tb + 1)
        pr = getattr(o, "prediction", None)
        if pr is not None and pr.occupancy_set:
            getattr(pr.occupancy_set[0].shape, "shapely_object", None)
            pr.final_time_step  # noqa: B018
        if hasattr(o, "state_at_time"):
            call(o.state_at_time, tb)
    for l in sc.lanelet_network.lanelets:
        l.polygon  # noqa: B018
        l.distance  # noqa: B018
    sc.lanelet_network.map_inc_lanelets_to_intersections  # noqa: B018
    repr(q)
    copy.deepcopy(q)
    q["time_begin"], q.dynamic_obstacle["time_end"]  # noqa: B018
    dataclasses.asdict(q.dynamic_obstacle)
    list(pps.planning_problem_dict.items())


def mk_plot_limits(spec):
    return spec  # None | [x0, x1, y0, y1] | [[x0, x1], [y0, y1]] | "auto"


_PBLOB = {}


def fresh_params(case):
    """A parameter object in the state the case prescribes. The constructor + setattr history is executed once per case;
    further objects of the same state are clones (pickle round trip), which is ~100x cheaper."""
    import pickle
    key = json.dumps(case["params"], sort_keys=True)
    if _PBLOB.get("key") != key:
        _PBLOB.clear()
        _PBLOB.update(key=key, blob=pickle.dumps(B.mk_params(case["params"])))
    return pickle.loads(_PBLOB["blob"])


def timeline(case, tb, te):
    """Every frame of the case (earlier frames + the selected one) on a TWIN of the scenario and of the parameter object:
    [(style, parameter object as it is when the frame is drawn, obstacles then, draws the network, keep flag)].
    Nothing of the implementation's drawing code runs here."""
    import copy
    sc2 = B.mk_scenario(case)
    shared = fresh_params(case)
    out = []
    frames = list(case.get("frames") or ([{"dt": 1, "network": True, "keep": False}] if case.get("reuse") else []))
    main = {"dt": 0, "network": case.get("network", True), "keep": False, "style": case.get("style", "render"),
            "params": case.get("main_params", "fresh"), "mutate": case.get("mutate")}
    mutated = any(fr.get("mutate") for fr in frames + [main])
    for fr in frames + [main]:
        apply_mutation(sc2, fr.get("mutate"))
        if fr.get("params") == "same":
            shared.time_begin, shared.time_end = tb + fr["dt"], te + fr["dt"]
            q = copy.deepcopy(shared)
        else:
            q = fresh_params(case)
            q.time_begin, q.time_end = tb + fr["dt"], te + fr["dt"]
        obs = list(sc2.obstacles)
        out.append([fr.get("style", "render"), q, copy.deepcopy(obs) if mutated else obs, bool(fr["network"]), bool(fr["keep"]),
                    dump(q), descriptors(q, obs)])
    return sc2, out


def model_ops(ctx, tl):
    """Renderer operations of the timeline -> what the model says every show displays (None for a frame that does not show)."""
    ops, shows, video_started = [], [], False
    for style, q, obs, nw, keep, tree, desc in tl:
        d = {"op": "draw", "tree": tree, "obstacles": desc, "draw_network": nw}
        if style == "failed":
            ops.append({"op": "clear", "keep": False})  # whatever the failing draw left behind is cleared explicitly
            shows.append(False)
            continue
        if style == "video":
            if not video_started:  # create_video's init_frame: draw everything, render_static (no show of the buffers, no clear)
                ops.append({**d, "draw_network": True})
                video_started = True
            ops += [{"op": "clear", "keep": False}, d, {"op": "render_dynamic"}]
        else:
            ops += [d, {"op": "render", "keep": keep}]
        shows.append(True)
    res = iter(ctx.driver.ask("C19", "ops", {"ops": ops}))
    return [next(res) if sh else None for sh in shows]


def run_draw_case(ctx, case, model=True):
    import tempfile
    import matplotlib.collections as mcoll
    import matplotlib.text as mtext
    from commonroad.prediction.prediction import SetBasedPrediction
    from commonroad.scenario.obstacle import DynamicObstacle, EnvironmentObstacle, PhantomObstacle, StaticObstacle
    from commonroad.visualization.mp_renderer import MPRenderer
    ctx.case(case)
    tb, te, mode = case["tb"], case["te"], case["mode"]
    sc, pps = B.mk_scenario(case), B.mk_pps(case)
    ax = get_ax()
    try:
        sc2, tl = timeline(case, tb, te)
    except Exception as e:  # noqa
        return fail_exc(ctx, "params", e, case)
    style, p, obstacles, main_network = tl[-1][:4]      # the selected frame, on the twin objects
    prev = tl[:-1]
    entry = case.get("entry", "scenario.draw")
    rcfg = case.get("renderer", {})
    ctx.tag("draw:" + mode, "entry:" + entry, "style:" + style)
    for o in obstacles:
        tag_horizon(ctx, o, tb, mode == "plain" and te >= tb and not case.get("outside"))
        if isinstance(o, StaticObstacle):
            ctx.tag("obst:static")
        elif isinstance(o, EnvironmentObstacle):
            ctx.tag("obst:env")
        elif isinstance(o, PhantomObstacle):
            ctx.tag("obst:phantom")
        else:
            pr = o.prediction
            ctx.tag("obst:dyn-none" if pr is None else "obst:dyn-set" if isinstance(pr, SetBasedPrediction) else "obst:dyn-traj")
            lo_ = o.initial_state.time_step
            hi_ = pr.final_time_step if pr is not None and not case.get("outside") else lo_
            hi_ = int(getattr(hi_, "end", hi_))
            ctx.tag("window:before" if tb < lo_ else "window:after" if tb > hi_ else "window:inside")
        if not isinstance(o, (PhantomObstacle, EnvironmentObstacle)) and o.initial_state.is_uncertain_position:
            ctx.tag("obst:uncertain-init")
    if tb == te:
        ctx.tag("window:tb=te")
    # every coverage bucket is decided by the case and the model, before the implementation draws anything
    net = sc2.lanelet_network
    lids = [l.lanelet_id for l in net.lanelets]
    draw_ids = p.lanelet_network.draw_ids
    fill_on = p.lanelet_network.lanelet.fill_lanelet
    pp_sel = p.planning_problem_set.draw_ids
    if fill_on:
        want = sorted(lids if draw_ids is None else [i for i in lids if i in draw_ids])
        ctx.tag("lanelets:all" if draw_ids is None else "lanelets:none-selected" if not want else "lanelets:subset")
    if pp_sel is not None:
        ctx.tag("problems:filtered")
    if case.get("raster"):
        ctx.tag("raster")
    if case.get("savefig"):
        ctx.tag("render:filename")
    if case.get("queries"):
        ctx.tag("queries-before-draw")
    if case.get("style_values"):
        ctx.tag("params:style-values")
    if rcfg.get("plot_limits") is not None:
        ctx.tag("renderer:plot-limits")
    if rcfg.get("focus") is not None:
        ctx.tag("renderer:focus-obstacle")
    if rcfg.get("ctor_params"):
        ctx.tag("renderer:ctor-params")
    kept = 0  # lanelet-network drawings held by the renderer when the selected frame is drawn (independent count)
    for st_, _, _, nw_, keep_, *_ in prev:
        kept = 0 if st_ in ("video", "failed") else (kept + nw_ if keep_ else 0)
    networks = (0 if style == "video" else kept) + bool(main_network)
    if prev:
        ctx.tag("renderer-reused")
        if any(fr_[4] for fr_ in prev if fr_[0] == "render"):
            ctx.tag("frames:keep-static")
        if not main_network:
            ctx.tag("frames:obstacles-only")
        if any(fr_[0] == "failed" for fr_ in prev):
            ctx.tag("frames:failed-draw-then-clear")
        if any(fr.get("mutate") for fr in (case.get("frames") or [])) or case.get("mutate"):
            ctx.tag("frames:scenario-mutated")
        if case.get("mutate") and case["frames"][-1]["dt"] == 0 and case["frames"][-1].get("style") != "failed":
            ctx.tag("frames:mutated-same-step")
        if any(fr.get("params") == "same" for fr in (case.get("frames") or [])) and case.get("main_params") == "same":
            ctx.tag("frames:same-params-object")
    if p.lanelet_network.lanelet.draw_border_vertices:
        ctx.tag("border-vertices")
    prescribed = prescribed_shapes(ctx, obstacles, tb, te) if mode == "plain" and te >= tb and not case.get("outside") else None
    frame_dts = [fr_["dt"] for fr_ in (case.get("frames") or ([{"dt": 1}] if case.get("reuse") else []))]
    # the property sentence for every EARLIER frame that is shown, on the twin obstacles as they are at that frame
    pres = [prescribed_shapes(ctx, tl[i_][2], tb + dt_, te + dt_)
            if prescribed is not None and tl[i_][0] != "failed" else None for i_, dt_ in enumerate(frame_dts)] + [prescribed]
    a_ops, show_frame = axes_ops(tl)
    n_video = sum(1 for i_ in show_frame if tl[i_][0] == "video")
    if n_video >= 2:
        ctx.tag("axes:video-frames>=2")
        if prescribed is not None:
            ctx.tag("axes:video-frames>=2/plain")
        if any(tl[i_][0] == "render" for i_ in show_frame):
            ctx.tag("axes:render-then-video")
    if len(show_frame) >= 2 and prescribed is not None:
        ctx.tag("axes:earlier-frame-judged")
    if any(tl[i_][0] == "render" for i_ in show_frame):
        ctx.tag("axes:render-frame")
    tl_ = p.lanelet_network.traffic_light
    light_labels = bool(main_network and style == "render" and tl_.draw_traffic_lights
                        and not p.lanelet_network.traffic_sign.draw_traffic_signs and net.traffic_lights)
    if light_labels:
        ctx.tag("light-labels")
    res, mframes, maxes = None, None, None
    if model and not case.get("outside"):
        maxes = ctx.driver.ask("C19", "axes", {"ops": a_ops})
        if prev or style == "video":
            mframes = model_ops(ctx, tl)
            res = {"ok": mframes[-1]["patches"]}
        else:
            res = ctx.driver.ask("C19", "draw_tree", {"tree": tl[-1][5], "obstacles": tl[-1][6]})
        for its in (res or {}).get("ok", []):
            for it in its:
                ctx.tag({"icon": "icon", "hist": "history"}.get(it[0], "item:" + it[0]))
                if it[0] in ("label", "icon", "state") and it[1] == "center":
                    ctx.tag("anchor:center")
                if it[0] in ("icon", "state") and "mid" in json.dumps(it):
                    ctx.tag("reading:mid")
    # ------------------------------------------------------------------ the implementation: same history on the real objects
    try:
        shared = fresh_params(case)
        focus = sc.obstacles[rcfg["focus"] % len(sc.obstacles)] if rcfg.get("focus") is not None and sc.obstacles else None
        kw = {"ax": ax, "plot_limits": mk_plot_limits(rcfg.get("plot_limits")), "focus_obstacle": focus}
        if rcfg.get("figsize"):
            kw["figsize"] = tuple(rcfg["figsize"])
        if rcfg.get("ctor_params"):
            kw["draw_params"] = fresh_params(case)
        rnd = MPRenderer(**kw)
    except Exception as e:  # noqa
        return fail_exc(ctx, "MPRenderer", e, case)
    frames_spec = list(case.get("frames") or ([{"dt": 1, "network": True, "keep": False}] if case.get("reuse") else []))
    video_started = False

    def real_params(fr):
        if fr.get("params") == "same":
            shared.time_begin, shared.time_end = tb + fr["dt"], te + fr["dt"]
            return shared
        q = fresh_params(case)
        q.time_begin, q.time_end = tb + fr["dt"], te + fr["dt"]
        return q

    watch = AxesWatch()

    def video_init(q):
        rnd.ax.clear()  # create_video starts with self.ax.clear()
        rnd.draw_list([sc, pps], q)
        watch.note(rnd, patches=False)
        rnd.render_static()

    for i, fr in enumerate(frames_spec):
        # the same renderer has already drawn and rendered other time steps: render(keep_static_artists=…) frames, frames in
        # the manner of create_video (remove_dynamic, clear, draw, render_dynamic), draws that raised followed by clear()
        try:
            apply_mutation(sc, fr.get("mutate"))
            q = real_params(fr)
            st_ = fr.get("style", "render")
            if st_ == "failed":
                bad = B.mk_scenario({**case, "obstacles": case["obstacles"] + [
                    {"id": 9998, "role": "dynamic", "type": "CAR", "shape": ["rect", 2.0, 1.0, 0.0, 0.0, 0.0],
                     "init": {"t": tb + fr["dt"], "pos": [0.0, 0.0], "orient": 0.0, "vel": 1.0},
                     "pred": {"kind": "set", "init": tb + fr["dt"] + 1, "occs": []}}]})
                call(bad.draw, rnd, q)   # raises half-way (invalid input); the renderer is then cleared explicitly
                rnd.clear()
                continue
            if st_ == "video":
                if not video_started:
                    video_init(q)
                    video_started = True
                rnd.remove_dynamic()
                rnd.clear()
            got, glabs = draw_frame(rnd, sc, pps, q, fr["network"], fr.get("entry", "scenario.draw"))
            watch.obstacles(rnd)
            if fr["network"]:
                pps.draw(rnd, q)
            if mframes is not None:
                exp, labs = expected_of(mframes[i]["patches"], tl[i][2], tl[i][1])
                got = [ANY if j < len(exp) and exp[j] == ANY else x for j, x in enumerate(got)]
                ctx.compare(case, {"patches": got, "labels": glabs}, {"patches": exp, "labels": labs},
                            f"buffers of earlier frame {i} ({st_}) before it is shown vs CR.Draw.runOps")
            watch.note(rnd)
            if st_ == "video":
                rnd.render_dynamic()
            else:
                rnd.render(keep_static_artists=fr["keep"])
            check_axes(ctx, case, watch, ax, i, tl, show_frame, maxes, pres, (tb + fr["dt"], te + fr["dt"]))
        except Exception as e:  # noqa
            return fail_exc(ctx, "draw_render_previous_frame", e, case)
    try:
        apply_mutation(sc, case.get("mutate"))
        preal = real_params({"dt": 0, "params": case.get("main_params", "fresh")})
        if case.get("queries"):
            read_only_queries(sc, pps, preal, tb)
    except Exception as e:  # noqa
        return fail_exc(ctx, "before_draw", e, case)
    try:
        if style == "video":
            if not video_started:
                video_init(preal)
            rnd.remove_dynamic()
            rnd.clear()
        patches, labels_obs = draw_frame(rnd, sc, pps, preal, main_network, entry)
        watch.obstacles(rnd)
    except Exception as e:  # noqa
        if case.get("outside"):
            # an input outside the property's quantifier (named in the case): no verdict, but the model of the partial
            # reads (CR.Draw.drawScenarioC) must fail in the same way
            ctx.tag("outside-quantifier")
            if model:
                ctx.compare(case, {"err": err_class(e)}, model_draw(ctx, p, obstacles),
                            f"draw_scenario on an input outside the quantifier ({case['outside']}) vs CR.Draw.drawScenarioC")
            get_ax().cla()
            return
        return fail_exc(ctx, "draw_scenario", e, case)
    n_border = sum(isinstance(c, mcoll.EllipseCollection) for c in rnd.static_collections)
    fills = [poly(pa.vertices) for c in rnd.static_collections if isinstance(c, mcoll.PolyCollection) for pa in c.get_paths()]
    n_static = len(rnd.static_artists)
    try:
        if main_network:
            if entry in ("draw_scenario", "per-object"):
                rnd.draw_planning_problem_set(pps, preal)
            elif entry == "renderer-params":
                pps.draw(rnd)
            else:
                pps.draw(rnd, preal)
    except Exception as e:  # noqa
        return fail_exc(ctx, "draw_planning_problem_set", e, case)
    annos = [canon(list(a.xy)) for a in rnd.static_artists[n_static:] if isinstance(a, mtext.Annotation)]
    watch.note(rnd)
    try:
        if style == "video":
            rnd.render_dynamic()
        elif case.get("savefig"):
            with tempfile.TemporaryDirectory() as td:
                rnd.render(filename=os.path.join(td, "frame.png"))
        else:
            rnd.render()
    except Exception as e:  # noqa
        return fail_exc(ctx, "render", e, case)
    texts_obs = light_texts(ax)
    try:
        if not (te < tb and mode == "plain"):
            check_axes(ctx, case, watch, ax, len(tl) - 1, tl, show_frame, maxes if model else None, pres, (tb, te))
    except Exception as e:  # noqa
        return fail_exc(ctx, "observe_axes", e, case)
    if case.get("raster") and style == "render":
        try:
            ax.figure.canvas.draw()
        except Exception as e:  # noqa
            return fail_exc(ctx, "rasterize", e, case)
    if style == "video":
        ax.cla()
    # ------------------------------------------------------------------ correspondence with the selection model
    by_poly = {json.dumps(lanelet_poly(l)): l.lanelet_id for l in net.lanelets}
    drawn_ids = sorted(by_poly.get(json.dumps(f), -1) for f in fills)
    pp_ids = list(pps.planning_problem_dict.keys())
    if model:
        ctx.compare(case, read_flags(p), ctx.driver.ask("C19", "flags_of", {"tree": dump(p)}),
                    "flags and windows read by the drawing functions vs CR.Draw.flagsOf")
        expected, labels = expected_of((res or {}).get("ok", []), obstacles, p)
        m_networks = mframes[-1]["networks"] if mframes is not None else 1
        got = [ANY if i < len(expected) and expected[i] == ANY else x for i, x in enumerate(patches)]
        ctx.compare(case, {"ok": True, "patches": got, "labels": labels_obs},
                    {"ok": res is not None and "ok" in res, "patches": expected, "labels": labels},
                    "MPRenderer.obstacle_patches / dynamic_labels after draw_scenario vs CR.Draw.drawScenarioC ∘ flagsOf")
        ll = p.lanelet_network.lanelet
        m = ctx.driver.ask("C19", "net", {
            "lanelets": [{"id": l.lanelet_id, "left_border": l.adj_left is None or not l.adj_left_same_direction}
                         for l in net.lanelets],
            "draw_ids": draw_ids, "border_vertices": ll.draw_border_vertices, "left_bound": ll.draw_left_bound,
            "right_bound": ll.draw_right_bound})
        ctx.compare(case, {"ok": n_border}, {"ok": m["ok"]["border_collections"] * m_networks} if "ok" in m else m,
                    "border-vertex EllipseCollections vs CR.Draw.drawNetC")
        if light_labels:
            m = ctx.driver.ask("C19", "lights", {"show_label": tl_.show_label, "lights": [
                {"has_position": x.position is not None, "active": bool(x.active),
                 "state": str(x.get_state_at_time_step(tl_.time_begin).value) if x.active else ""} for x in net.traffic_lights]})
            ctx.compare(case, {"ok": texts_obs}, {"ok": sorted(m["ok"])} if "ok" in m else m,
                        "traffic-light label texts after render vs CR.Draw.lightLabelsC")
        if fill_on:
            m = ctx.driver.ask("C19", "lanelets", {"ids": lids, "draw_ids": draw_ids})
            ctx.compare(case, drawn_ids, sorted(m * m_networks),
                        "filled lanelet polygons held by the renderer vs CR.Draw.laneletsDrawn x networks of CR.Draw.showFrames")
        m = ctx.driver.ask("C19", "problems", {"ids": pp_ids, "draw_ids": pp_sel}) if main_network else []
        exp_xy = [canon([pps.planning_problem_dict[i].initial_state.position[0] + 1,
                         pps.planning_problem_dict[i].initial_state.position[1]]) for i in m]
        ctx.compare(case, annos, exp_xy, "planning-problem annotations vs CR.Draw.problemsDrawn")
    # ------------------------------------------------------------------ oracle: the property statement itself
    if fill_on and networks == 1:
        if drawn_ids != want:
            ctx.fail("C19/draw_lanelet_network/wrong-lanelets",
                     f"lanelets {lids}, draw_ids={draw_ids}: filled lanelets drawn {drawn_ids}, expected {want}", case)
    want_pp = [i for i in pp_ids if pp_sel is None or i in pp_sel] if main_network else []
    if len(annos) != len(want_pp):
        ctx.fail("C19/draw_planning_problem_set/wrong-problems",
                 f"planning problems {pp_ids}, draw_ids={pp_sel}: {len(annos)} drawn, expected {want_pp}", case)
    if mode != "plain":
        return
    if te < tb:
        ctx.excluded += 1
        return
    required, allowed = prescribed
    extra, missing = multiset_sub(patches, required)
    if missing:
        ctx.fail("C19/draw_scenario/occupancy-not-drawn",
                 f"window [{tb}, {te}): {len(missing)} occupancy shape(s) the obstacles report are not among the drawn patches, "
                 f"first {missing[0][0]}", case)
    extra2, _ = multiset_sub(extra, allowed)
    if extra2:
        ctx.fail("C19/draw_scenario/shape-without-occupancy",
                 f"window [{tb}, {te}): {len(extra2)} drawn patch(es) are no occupancy of any obstacle in the window, "
                 f"first {extra2[0][0]}", case)


# ================================================================================================ entry points

def run_case(ctx, case, model=True):
    if case.get("kind") == "params":
        run_params_case(ctx, case, model)
    else:
        run_draw_case(ctx, case, model)


def run(ctx):
    import glob
    import matplotlib.pyplot as plt
    ctx.hist["dimension-table-entries"] = D.check()  # InfraError (exit 2) if the code has grown past the table
    for pth in sorted(glob.glob(os.path.join(CORPUS_DIR, "C19", "*.json"))):
        run_case(ctx, json.load(open(pth)))
    for _ in range(ctx.n(260)):
        run_case(ctx, gen_params_case(ctx))
    for _ in range(ctx.n(330)):
        run_case(ctx, gen_draw_case(ctx))
    plt.close("all")


search = run


def replay(ctx, case):
    run_case(ctx, case)


def _still(case, key):
    from common import Ctx
    c = Ctx("C19", "quick", 0)
    try:
        run_case(c, case, model=False)
        return any(f.key == key for f in c.failures)
    except Exception:  # noqa
        return False
    finally:
        c.close()


def shrink(case, key):
    if not _still(case, key):
        return case
    case = json.loads(json.dumps(case))
    if case.get("kind") == "params":
        return case
    for fld in ("obstacles", "pps", "signs", "lights", "inters"):
        if len(case.get(fld, [])) > 1 or (case.get(fld) and _still({**case, fld: []}, key)):
            if _still({**case, fld: []}, key):
                case[fld] = []
            else:
                case[fld] = shrink_list(case[fld], lambda l: _still({**case, fld: l}, key))
    sets = case["params"]["sets"]
    if len(sets) > 1:
        keep = shrink_list(sets, lambda l: _still({**case, "params": {**case["params"], "sets": l}}, key))
        if _still({**case, "params": {**case["params"], "sets": []}}, key):
            keep = []
        case["params"]["sets"] = keep
    return case
