"""C04 — table of every constructor parameter, settable attribute and public operation of the anchored classes that can
influence what the property observes, with the way the generator of harness/c04.py varies it.

Markers:  varied: (construction-time variation)   history: (applied after construction / after a first query)
          query:  (an observation or alternative entry point that is compared)   keep: (exercised; must not change answers)
          fixed:  (cannot influence the observation; why)     outside: (outside the property's quantifier; named in ASSUMPTIONS)

check(ctx) compares the table with the real signatures on every run: a parameter / setter / method / state class / attribute
read by the placement code that the table does not know stops the run (exit 2)."""
import ast
import inspect
import textwrap

from common import InfraError

_OBSTACLE_CTOR = {
    "obstacle_id": "varied: 0, small, 2**31; shuffled / gapped ids in scenarios [dim/id-zero, dim/id-large]",
    "obstacle_type": "varied: every member of ObstacleType [dim/type-upper]",
    "obstacle_shape": "varied: rectangle / circle / polygon / group, centred and off-centre, rotated rectangles",
    "initial_state": "varied: InitialState with all fields or only position/orientation/time_step [dim/init-minimal]; float, int, "
                     "float32, numpy-scalar and large coordinates [dim/num-*]; uncertain position / orientation [uncertain/via-initial]",
    "initial_center_lanelet_ids": "varied: None / set() / {100} / {100, 101}, with and without those lanelets in the scenario [dim/lanelet-ids]",
    "initial_shape_lanelet_ids": "varied: as initial_center_lanelet_ids [dim/lanelet-ids]",
    "initial_signal_state": "varied: None / SignalState at the initial step / at another step [dim/signal]",
    "signal_series": "varied: None / [] / 3 signal states [dim/signal]",
}
_OBSTACLE_SETTERS = {
    "obstacle_id": "keep: assignment after construction only warns (hop/noop_setters)",
    "obstacle_role": "keep: assignment after construction only warns (hop/noop_setters)",
    "obstacle_type": "keep: assignment after construction only warns (hop/noop_setters)",
    "obstacle_shape": "keep: assignment after construction only warns; the occupancy must stay the placed obstacle_shape the "
                      "object reports (hop/noop_setters)",
    "initial_state": "history: new InitialState; the held one edited and handed back (hop/set_initial, hop/set_initial-inplace, hop/reassign)",
    "initial_center_lanelet_ids": "keep: hop/noop_setters",
    "initial_shape_lanelet_ids": "keep: hop/noop_setters",
    "initial_signal_state": "keep: hop/noop_setters",
    "signal_series": "keep: hop/noop_setters",
}
_OBSTACLE_METHODS = {
    "occupancy_at_time": "query: THE observation, every integer step around the horizon; numpy integer steps [dim/numpy-step]",
    "state_at_time": "query: THE observation",
    "translate_rotate": "history: hop/translate_rotate — afterwards the occupancy is the shape placed at the MOVED state",
    "signal_state_at_time_step": "keep: read-only query interleaved (hop/readonly)",
    "draw": "fixed: rendering is property C14-C16's subject; does not touch the obstacle",
}

DIMENSIONS = {
    "StaticObstacle": {"ctor": dict(_OBSTACLE_CTOR), "setters": dict(_OBSTACLE_SETTERS), "methods": dict(_OBSTACLE_METHODS)},
    "DynamicObstacle": {
        "ctor": dict(_OBSTACLE_CTOR, **{
            "prediction": "varied: None / TrajectoryPrediction / SetBasedPrediction",
            "initial_meta_information_state": "varied: None / MetaInformationState [dim/meta]",
            "meta_information_series": "varied: None / [] / 2 entries [dim/meta]",
            "external_dataset_id": "varied: None / 0 / 7 [dim/meta]",
            "history": "varied: None / [] / 2 earlier states [dim/history-arg]",
            "signal_history": "varied: None / [] / 2 entries [dim/history-arg]",
            "center_lanelet_ids_history": "varied: None / [] / 2 entries [dim/history-arg]",
            "shape_lanelet_ids_history": "varied: None / [] / 2 entries [dim/history-arg]",
            "kwargs": "varied: wheelbase=[...] as the XML reader passes it [dim/kwargs]; outside: wheelbase_lengths (trailer hook, see ASSUMPTIONS)",
        }),
        "setters": dict(_OBSTACLE_SETTERS, **{
            "prediction": "history: None / new trajectory / new set-based prediction / the held one again (hop/set_prediction, hop/reassign)",
            "initial_meta_information_state": "keep: hop/noop_setters",
            "meta_information_series": "keep: hop/noop_setters",
            "external_dataset_id": "keep: hop/noop_setters",
        }),
        "methods": dict(_OBSTACLE_METHODS, **{
            "update_initial_state": "history: with / without the optional arguments, max_history_length 1 / 2 / 6000 (hop/update_initial); "
                                    "failing half-way: non-InitialState argument, max_history_length 0 (hop/update_initial_fail)",
            "update_prediction": "history: positional and keyword form (hop/update_prediction)",
        }),
    },
    "PhantomObstacle": {
        "ctor": {"obstacle_id": _OBSTACLE_CTOR["obstacle_id"], "prediction": "varied: None / SetBasedPrediction with 0..6 occupancies"},
        "setters": {"obstacle_role": "keep: only warns (hop/noop_setters)",
                    "prediction": "history: None / new set-based prediction (hop/phantom_prediction)"},
        "notes": {"obstacle_id (plain attribute, no property)": "outside: re-assigning a phantom obstacle's id after add_objects is id "
                  "bookkeeping (C09/C10); the queries return the objects themselves"},
        "methods": {"occupancy_at_time": _OBSTACLE_METHODS["occupancy_at_time"], "state_at_time": "query: always None",
                    "translate_rotate": _OBSTACLE_METHODS["translate_rotate"], "draw": _OBSTACLE_METHODS["draw"]},
    },
    "EnvironmentObstacle": {
        "ctor": {"obstacle_id": _OBSTACLE_CTOR["obstacle_id"], "obstacle_type": _OBSTACLE_CTOR["obstacle_type"],
                 "obstacle_shape": _OBSTACLE_CTOR["obstacle_shape"]},
        "setters": {k: _OBSTACLE_SETTERS[k] for k in ("obstacle_id", "obstacle_role", "obstacle_type", "obstacle_shape")},
        "methods": {"occupancy_at_time": _OBSTACLE_METHODS["occupancy_at_time"],
                    "translate_rotate": "history: hop/translate_rotate — the occupancy is the moved shape the obstacle reports",
                    "draw": _OBSTACLE_METHODS["draw"]},
    },
    "Occupancy": {
        "ctor": {"time_step": "varied: int / Interval; touching, overlapping, nested and repeated intervals [dim/set-nested]",
                 "shape": "varied: every shape kind"},
        "setters": {"time_step": "history: a stored occupancy re-stamped in place (hop/occ_set edit_time)",
                    "shape": "history: a stored occupancy re-shaped in place (hop/occ_set edit_shape)"},
        "methods": {"translate_rotate": "history: through the obstacle's translate_rotate", "draw": _OBSTACLE_METHODS["draw"]},
    },
    "SetBasedPrediction": {
        "ctor": {"initial_time_step": "varied: first stored step / unrelated step [dim/set-t0-inconsistent]",
                 "occupancy_set": "varied: 0..6 occupancies, shuffled, the same Occupancy object twice [dim/set-empty, set/unsorted, "
                                  "dim/set-duplicate-object]"},
        "setters": {"occupancy_set": "history: new list / the held list again / the held list edited in place (hop/occ_set, hop/reassign)"},
        "methods": {"occupancy_at_time_step": "query: alternative entry point, must return the very object the obstacle returns "
                                              "[entry/prediction.occupancy_at_time_step]",
                    "translate_rotate": "history: through the obstacle's translate_rotate"},
        "other": {"initial_time_step": "keep: read (hop/readonly)", "final_time_step": "keep: read (hop/readonly)"},
    },
    "TrajectoryPrediction": {
        "ctor": {"trajectory": "varied: 1..8 states of every state class, starting after / at / before the initial step "
                               "[dim/traj-starts-at-init, dim/traj-starts-before-init]",
                 "shape": "varied: the obstacle's shape object / an equal copy / a different shape [dim/pred-shape-copy, dim/pred-shape-other]",
                 "center_lanelet_assignment": "varied: None / {} / {t: {100}} [dim/lanelet-assignment]",
                 "shape_lanelet_assignment": "varied: None / {} / {t: {100, 101}} [dim/lanelet-assignment]",
                 "kwargs": "varied: wheelbase=[...] [dim/kwargs]; outside: wheelbase_lengths (see ASSUMPTIONS)"},
        "setters": {"trajectory": "history: after a first query — shorter / longer / shifted / other state class / the held one again "
                                  "(hop/set_trajectory, hop/reassign)",
                    "shape": "history: after a first query — other shape / the held one again (hop/set_pred_shape, hop/reassign)",
                    "center_lanelet_assignment": "keep: hop/noop_setters",
                    "shape_lanelet_assignment": "keep: hop/noop_setters",
                    "wheelbase_lengths": "outside: trailer hook, see ASSUMPTIONS"},
        "methods": {"occupancy_at_time_step": "query: alternative entry point [entry/prediction.occupancy_at_time_step]",
                    "translate_rotate": "history: through the obstacle's translate_rotate"},
        "other": {"occupancy_set": "keep: the cached list read before a mutation (hop/readonly) — the cache must follow every setter",
                  "initial_time_step": "keep: read (hop/readonly)", "final_time_step": "keep: read (hop/readonly)"},
    },
    "Trajectory": {
        "ctor": {"initial_time_step": "varied: after / at / before the obstacle's initial step",
                 "state_list": "varied: 1..8 states; well-formed (state i has step t0+i); the gapped witness is replayed as excluded"},
        "setters": {"initial_time_step": "outside: in-place edit of a HELD trajectory (the prediction cannot see it): property C11"},
        "methods": {"state_at_time_step": "query: alternative entry point [entry/trajectory.state_at_time_step]",
                    "states_in_time_interval": "query: alternative entry point (one-step interval) and read-only (hop/readonly)",
                    "append_state": "outside: in-place edit of a HELD trajectory: property C11 (known findings there)",
                    "translate_rotate": "history: through the obstacle's translate_rotate; directly on a held trajectory: C11",
                    "check_state_list": "fixed: constructor validation",
                    "resample_continuous_time_state_list": "fixed: alternative constructor for continuous-time data, property C20's subject",
                    "draw": _OBSTACLE_METHODS["draw"]},
        "other": {"state_list": "query: identity of the returned state", "final_state": "keep: read (hop/readonly)"},
    },
    "Scenario": {
        "ctor": {"dt": "fixed: time steps are integers, dt never enters the queries",
                 "scenario_id": "fixed: meta data", "author": "fixed: meta data", "tags": "fixed: meta data",
                 "affiliation": "fixed: meta data", "source": "fixed: meta data", "location": "fixed: meta data"},
        "setters": {"dt": "fixed: see ctor"},
        "methods": {
            "add_objects": "history: single object and list form, duplicate ids (ValueError, list form stops half-way), ids taken by "
                           "lanelets, re-adding a removed obstacle [sop/add-list, sop/add-duplicate-id, sop/add_many-fails-halfway, sop/readd]",
            "remove_obstacle": "history: single / list form, absent id (warning), a look-alike object with the same id "
                               "[sop/remove, sop/remove-absent, sop/remove-lookalike]",
            "occupancies_at_time_step": "query: positional / keyword / default role; negative step [sop/query-default-args, sop/query-negative-step]",
            "obstacle_states_at_time_step": "query: every query step incl. negative",
            "obstacles_by_role_and_type": "query: every role x every type / None, positional and keyword",
            "obstacles_by_position_intervals": "query: every role tuple as tuple / list / set / with repeats / default; time_step "
                                               "positional / default None; interval ends on obstacle centres [sop/roles-list, sop/roles-set]",
            "obstacle_by_id": "query: members and non-members [sop/obstacle_by_id]",
            "translate_rotate": "history: sop/translate_rotate",
            "generate_object_id": "keep: read-only interleaved",
            "assign_obstacles_to_lanelets": "fixed: property C07's subject; the lanelet ids it writes are varied directly",
            "erase_lanelet_network": "fixed: no obstacle involved (C10)", "replace_lanelet_network": "fixed: no obstacle involved (C10)",
            "remove_hanging_lanelet_members": "fixed: no obstacle involved (C10)", "remove_lanelet": "fixed: no obstacle involved (C10)",
            "remove_traffic_sign": "fixed: no obstacle involved (C10)", "remove_traffic_light": "fixed: no obstacle involved (C10)",
            "remove_intersection": "fixed: no obstacle involved (C10)", "convert_to_2d": "fixed: no obstacle involved",
            "draw": _OBSTACLE_METHODS["draw"]},
        "other": {"obstacles": "query: order static, dynamic, phantom, environment by insertion", "dynamic_obstacles": "query",
                  "static_obstacles": "query", "environment_obstacle": "query", "phantom_obstacle": "query",
                  "lanelet_network": "varied: empty / two lanelets 100, 101 [sop/lanelets]"},
    },
    "Rectangle": {"ctor": {"length": "varied", "width": "varied", "center": "varied: origin / off-centre", "orientation": "varied: 0 / rotated"},
                  "setters": {k: "fixed: shapes are immutable after construction (setters warn); C02/C03" for k in
                              ("length", "width", "center", "orientation", "vertices")},
                  "methods": {"rotate_translate_local": "query: through every placed occupancy (correspondence with CR.Place.place)",
                              "translate_rotate": "history: through translate_rotate of set-based / environment obstacles",
                              "contains_point": "fixed: C02", "draw": _OBSTACLE_METHODS["draw"]},
                  "other": {"shapely_object": "fixed: read by _centered_extent only"}},
    "Circle": {"ctor": {"radius": "varied", "center": "varied: origin / off-centre"},
               "setters": {k: "fixed: immutable; C02/C03" for k in ("radius", "center")},
               "methods": {"rotate_translate_local": "query", "translate_rotate": "history", "contains_point": "fixed: C02",
                           "draw": _OBSTACLE_METHODS["draw"]},
               "other": {"shapely_object": "fixed"}},
    "Polygon": {"ctor": {"vertices": "varied: 3..7 vertices, star-shaped, reference point not at the centroid"},
                "setters": {"vertices": "fixed: immutable; C02/C03"},
                "methods": {"rotate_translate_local": "query", "translate_rotate": "history", "contains_point": "fixed: C02",
                            "draw": _OBSTACLE_METHODS["draw"]},
                "other": {"center": "query: offered centre in obstacles_by_position_intervals", "shapely_object": "fixed"}},
    "ShapeGroup": {"ctor": {"shapes": "varied: 1..3 member shapes (no `center`: listed unconditionally by the position filter)"},
                   "setters": {"shapes": "fixed: immutable"},
                   "methods": {"rotate_translate_local": "query", "translate_rotate": "history", "contains_point": "fixed: C02",
                               "draw": _OBSTACLE_METHODS["draw"]}},
}

# every State subclass of commonroad.scenario.state: how it is used
STATE_CLASSES = {
    "State": "fixed: abstract base",
    "InitialState": "varied: initial state of every static / dynamic obstacle; trajectory state [state/InitialState]",
    "PMState": "varied: trajectory state, heading atan2(vy, vx) in every quadrant; magnitude of (vx, vy) zero / ordinary / slow down "
               "to 1e-300 / subnormal / 1e20..1e200 / one slow component [state/PMState, dim/pm-speed-*]",
    "ExtendedPMState": "varied: trajectory state (has an orientation, which wins over its derived velocity_y) [state/ExtendedPMState]",
    "KSState": "varied: trajectory state; uncertain position / orientation [state/KSState]",
    "KSTState": "varied: trajectory state with hitch_angle [state/KSTState]",
    "STState": "varied: trajectory state [state/STState]",
    "STDState": "varied: trajectory state [state/STDState]",
    "MBState": "varied: trajectory state (orientation AND velocity_y: the orientation is the heading) [state/MBState]",
    "CustomState": "varied: with orientation, with extra attributes [dim/custom-extra], point-mass style without orientation [state/CustomPM]",
    "LongitudinalState": "outside: no position", "LateralState": "outside: no position", "InputState": "outside: no position",
    "PMInputState": "outside: no position", "LKSInputState": "outside: no position",
}
# attributes of a state the placement code may read; anything else is a filler the generator sets to a number or leaves None
STATE_ATTRS_READ = {"position", "orientation", "velocity", "velocity_y", "time_step", "hitch_angle", "is_uncertain_position",
                    "is_uncertain_orientation"}
SHAPE_MODULE_FUNCTIONS = {
    "occupancy_shape_from_state": "query: exact states through every obstacle; uncertain states directly and through obstacles",
    "_centered_extent": "query: through uncertain states with off-centre / rotated shapes [uncertain/random-shape]",
    "shape_group_occupancy_shape_from_state": "outside: trailer hook reached only with wheelbase_lengths, see ASSUMPTIONS",
}


def size():
    n = len(STATE_CLASSES) + len(STATE_ATTRS_READ) + len(SHAPE_MODULE_FUNCTIONS)
    for row in DIMENSIONS.values():
        n += sum(len(v) for v in row.values())
    return n


def _real(C):
    ctor = [("kwargs" if p.kind is inspect.Parameter.VAR_KEYWORD else n) for n, p in inspect.signature(C.__init__).parameters.items()
            if n != "self"]
    setters, methods, other = [], [], []
    for n in dir(C):
        if n.startswith("_"):
            continue
        a = inspect.getattr_static(C, n)
        if isinstance(a, property):
            (setters if a.fset is not None else other).append(n)
        elif isinstance(a, (staticmethod, classmethod)) or inspect.isfunction(a):
            methods.append(n)
        else:
            other.append(n)
    return {"ctor": ctor, "setters": setters, "methods": methods, "other": other}


def _state_reads(fn, var="state"):
    src = textwrap.dedent(inspect.getsource(fn))
    out = set()
    for node in ast.walk(ast.parse(src)):
        if isinstance(node, ast.Attribute) and isinstance(node.value, ast.Name) and node.value.id == var:
            out.add(node.attr)
        if isinstance(node, ast.Call) and isinstance(node.func, ast.Name) and node.func.id in ("getattr", "hasattr") and \
                len(node.args) >= 2 and isinstance(node.args[0], ast.Name) and node.args[0].id == var and \
                isinstance(node.args[1], ast.Constant):
            out.add(node.args[1].value)
    return out


def check(ctx):
    """Compare the table with the code of this tree. Unknown => InfraError (exit 2); vanished => a note in the evidence."""
    import commonroad.geometry.shape as G
    import commonroad.prediction.prediction as P
    import commonroad.scenario.obstacle as O
    import commonroad.scenario.scenario as SC
    import commonroad.scenario.state as S
    import commonroad.scenario.trajectory as T
    where = {"StaticObstacle": O, "DynamicObstacle": O, "PhantomObstacle": O, "EnvironmentObstacle": O, "Occupancy": P,
             "SetBasedPrediction": P, "TrajectoryPrediction": P, "Trajectory": T, "Scenario": SC, "Rectangle": G, "Circle": G,
             "Polygon": G, "ShapeGroup": G}
    unknown = []
    for cls, mod in where.items():
        real, row = _real(getattr(mod, cls)), DIMENSIONS[cls]
        for part in ("ctor", "setters", "methods", "other"):
            have = row.get(part, {})
            known = set(have) | (set(row.get("setters", {})) if part == "other" else set())
            for n in real[part]:
                if n not in known and not (part == "other" and n in row.get("methods", {})):
                    unknown.append(f"{cls}.{n} ({part})")
            for n in have:
                if n not in real[part] and not (part == "other" and n in real["setters"]):
                    ctx.tag(f"dimension-table/vanished:{cls}.{n}")
    # classes of the anchored modules
    for mod, known in ((O, {"ObstacleRole", "ObstacleType", "Obstacle"} | set(where)), (P, {"Prediction"} | set(where))):
        for n, c in inspect.getmembers(mod, inspect.isclass):
            if c.__module__ == mod.__name__ and n not in known:
                unknown.append(f"class {mod.__name__}.{n}")
    for n, c in inspect.getmembers(S, inspect.isclass):
        if c.__module__ == S.__name__ and issubclass(c, S.State) and n not in STATE_CLASSES:
            unknown.append(f"state class {n}")
    for n, f in inspect.getmembers(G, inspect.isfunction):
        if f.__module__ == G.__name__ and n not in SHAPE_MODULE_FUNCTIONS:
            unknown.append(f"function commonroad.geometry.shape.{n}")
    reads = _state_reads(G.occupancy_shape_from_state) | _state_reads(G.shape_group_occupancy_shape_from_state) | \
        _state_reads(P.TrajectoryPrediction._create_occupancy_set)
    for a in sorted(reads - STATE_ATTRS_READ):
        unknown.append(f"state attribute `{a}` read by the placement code")
    if unknown:
        raise InfraError("C04 dimension table (harness/c04_dims.py) does not know: " + "; ".join(unknown) +
                         " — decide how the generator varies it (or why it cannot matter) and add it to the table")
    ctx.tag("dimension-table/checked")
    return size()
