"""C01 — XML write -> read reproduces scenario and planning problems (2020a format, decimal precisions 1..12).
model: lean/CRModel/Xml.lean, Codec.lean, CRXml.lean; theorems: lean/CRProps/C01.lean.
generator: harness/gen_scenario.py; snapshot + diff: harness/snapshot.py."""
from __future__ import annotations

import copy
import glob
import json
import os
import re

from common import CORPUS_DIR, call
import gen_scenario as G
import snapshot as S

RULE = ("every spec is judged at 3 precisions: once on the plain path, twice with a generated plan (alternative entry points, writer overrides, reuse / failing first call, history of setters and in-place edits, read-only queries; gen_scenario.HistoryGen); the dimension table c01_dimensions.DIMENSIONS is checked against the real signatures first; trajectories have consecutive or gapped time steps (one in three); a case is one schema-expressible spec (scenario x planning-problem set, built through the public constructors) and one "
        "decimal precision 1..12; every spec is written and read back at 3 precisions (quick); enumerations of the XSD are visited "
        "round-robin; non-trivial = every case (each has >= 1 lanelet and >= 1 planning problem with truncated reals); "
        "distinct = distinct canonical JSON of (spec, precision)")
ASSUMPTIONS = [
    "lxml / ElementTree serialisation and parsing are the identity on element trees of plain ASCII text (sampled by the correspondence)",
    "str(numpy.float64) / float(str) are a correctly rounded round trip; the model receives str(float64(x)) as a parameter, and for "
    "reprs in exponent notation also format(x, '.<d>f') (float_to_str) and np.format_float_positional(x, trim='0') (decimal_to_str)",
    "schema-expressible is read narrowly where the property text leaves the domain open: initial states are InitialState objects, "
    "stop lines have explicit points, shape groups have >= 2 members, additional sign values are non-empty strings, a dynamic "
    "obstacle has a prediction, interval bounds are ordered, polygons are non-degenerate (extent >> 10^-d)",
    "3-D geometry is outside the property (2-D): specs with z on lanelet bounds / planning-problem start positions (8 %) are used "
    "for the model correspondence of <z> only and counted as excluded",
    "the benchmark id is a string at the model boundary (ScenarioID.from_benchmark_id(str(id)) is C13's subject); the date "
    "attribute is an environment input of the model (what today() returned)",
    "an initial state carrying attributes that InitialState does not have loses them on reading (C01_initial_extra_dropped; "
    "replayed by witness_initial_extra): outside the property — Obstacle.initial_state asserts the InitialState type and the XSD "
    "type initialStateExact of a planning problem admits no further element",
    "the exponent-notation tables (format(x,'.df'), format_float_positional) are parameters of the model under the contract "
    "FixOk, which the harness checks on every case with fractions.Fraction; CR.X.realVal is compared with Fraction on every repr",
    "SetBasedPrediction.initial_time_step has no element in the XML format (the reader derives it from the first occupancy): a "
    "prediction whose initial_time_step differs from its first occupancy's time is not schema-expressible; the oracle expects the "
    "derived value",
    "for |x| >= 2^53 (repr with positive exponent) the written text is the exact binary value of the double, which differs from the "
    "decimal value of its shortest repr by up to half an ulp (>= 1): the text-level contract FixOk (hypothesis of C01_floatToStr_close "
    "/ C01_norm_reals_close) does not hold for such reprs and those theorems do not speak about them; the float-level oracle does "
    "(float(written text) == x exactly); bucket fixok-not-applicable:huge",
    "reading with lanelet_assignment=True raises for a file in which an obstacle state has an uncertain position / orientation "
    "(known findings C01/read(lanelet_assignment=True)/raises/<site>/uncertain-state, the C03 finding reached through C01's read "
    "route); the same scenarios are judged on the plain open() route",
    "first_occurrence of a traffic sign, the centre line of a lanelet, TrafficLight.color and the state class name are not part of "
    "the XML format (derived on reading) and are not compared",
]
EXTRA_MODULES = ["CRProps.T01"]      # translator tie: Gen.SrcC01 (regenerated from the repo every run) vs the codec model
TRUSTED = ["harness/snapshot.py (structural snapshot through public accessors) and harness/gen_scenario.py (spec -> objects)"]
REQUIRED_BUCKETS = ["role:static", "role:dynamic", "role:environment", "role:phantom", "pred:trajectory", "pred:set",
                    "shape:rect", "shape:circ", "shape:poly", "shape:group", "state:interval", "state:region", "state:custom",
                    "init:no-acceleration", "sign:virtual", "signal:horn", "goal:lanelets", "goal:shape", "light:inactive",
                    "stopline", "intersection", "precision:1", "precision:12", "xsd-valid", "3d", "witness:initial-extra", "traj:gaps", "traj:consecutive", "value:int-at-decimal-site",
                    # the write / read plan: entry points, flags, reuse, failing first call
                    "plan:plain", "w-entry:xml", "w-method:scenario_only", "w-validity:True", "w-filename:path", "w-filename:default",
                    "w-overrides:yes", "w-reuse:twice", "w-reuse:fail-first", "w-reuse:other-writer-after", "w-reuse:existing-file",
                    "w-reuse:other-writer-between", "r-entry:xml", "r-entry:bytes", "r-entry:facade-format", "r-method:open-twice",
                    "r-method:open-assign", "r-method:network-only", "r-method:open-after-other",
                    "build:signs_via=add_objects", "build:obstacles_via=list", "build:lanelets_via=single", "build:numpy_scalars=True",
                    "build:ints_for_reals=True", "enum-full:history-op", "enum-full:query", "history:3", "queries:2",
                    "goalclass:KSState", "goalclass:PMState", "goalclass:CustomState",
                    # every member of these XSD enumerations was used at least once
                    "enum-full:lineMarking", "enum-full:laneletType", "enum-full:vehicleType", "enum-full:obstacleTypeStatic",
                    "enum-full:obstacleTypeDynamic", "enum-full:obstacleTypeEnvironment", "enum-full:trafficLightColor",
                    "enum-full:direction", "enum-full:tag", "enum-full:sign:ZAM", "enum-full:sign:DEU", "enum-full:sign:USA",
                    "enum-full:sign:ESP", "enum-full:custom-attr", "enum-full:weather", "enum-full:underground",
                    "enum-full:state-class", "enum-full:virtual"]
WORKERS = {"quick": 1, "thorough": 8}

# keys of the snapshot that the XML format does not carry (derived by the reader / not part of the property)
IGNORE = {"cls", "center", "first_occurrence", "color", "pred_seq", "succ_seq", "enum"}

INITIAL_DEFAULTS = ["position", "orientation", "velocity", "acceleration", "yaw_rate", "slip_angle"]

_SCHEMA = {}
_EXP = re.compile(r"^-?\d+(\.\d+)?e[-+]?\d+$")


def schema():
    from lxml import etree
    import commonroad
    p = os.path.join(os.path.dirname(os.path.abspath(commonroad.__file__)), "scenario_definition", "xml_definition_files",
                     "XML_commonRoad_XSD.xsd")
    if p not in _SCHEMA:
        _SCHEMA[p] = etree.XMLSchema(etree.parse(p))
    return _SCHEMA[p]


# ------------------------------------------------------------------------------------------------ expected snapshot

def _fill_initial(st):
    """the reader's documented default: unset attributes of an initial state read back as 0"""
    if st is None:
        return
    a = st["attrs"]
    for n in INITIAL_DEFAULTS:
        if n not in a:
            a[n] = {"pt": [0.0, 0.0]} if n == "position" else {"x": 0.0}


DEFAULT_LOCATION = {"geo_name_id": -999, "lat": 999.0, "lon": 999.0, "geo": None, "env": None}


def _goal_lanelet_positions(snap):
    """a goal position given by lanelets is the list of lanelet ids (the reader re-derives the polygons from the lanelets it read)"""
    for p in snap.get("pps", {}).values():
        if isinstance(p, dict) and "goals" in p:
            for idx, ids in p.get("goal_lanelets", {}).items():
                g = p["goals"][int(idx)] if int(idx) < len(p["goals"]) else None
                if g and "position" in g["attrs"]:
                    g["attrs"]["position"] = {"lanelets": sorted(ids)}


def expected(snap, info=None):
    """What the property promises for the read-back snapshot, given the snapshot of the original (and how it was written)."""
    e = copy.deepcopy(snap)
    for o in e["obstacles"].values():
        if isinstance(o, dict) and "initial_state" in o:
            _fill_initial(o["initial_state"])
    for p in e.get("pps", {}).values():
        if isinstance(p, dict):
            _fill_initial(p["initial_state"])
    _goal_lanelet_positions(e)
    for o in e["obstacles"].values():
        # the XML format has no place for the initial time step of an occupancy set: the reader takes the first occupancy's
        p = o.get("prediction") if isinstance(o, dict) else None
        if p and p.get("kind") == "set" and p["occupancies"]:
            t0 = p["occupancies"][0]["time"]
            p["initial_time_step"] = t0["t"] if "t" in t0 else t0["tiv"][0]
    info = info or {}
    eff = info.get("eff")
    if eff:     # the writer's own author / affiliation / source / tags / location win over the scenario's
        e["meta"]["author"], e["meta"]["affiliation"], e["meta"]["source"] = eff["author"], eff["affiliation"], eff["source"]
        e["meta"]["tags"] = sorted(set(eff["tags_list"]))
        e["meta"]["location"] = S.snap_location(eff["location_obj"])
    if e["meta"]["location"] is None:
        e["meta"]["location"] = dict(DEFAULT_LOCATION)      # the writer writes `Location()` for a scenario without location
    if info.get("scenario_only"):
        e["n_pps"], e["pps"] = 0, {}
    if info.get("network_only"):
        e = {k: v for k, v in e.items() if k in ("n_lanelets", "lanelets", "n_signs", "signs", "n_lights", "lights", "n_intersections",
                                                 "intersections")}
    return e


# ------------------------------------------------------------------------------------------------ one case

DEFAULT_PLAN = {"build": {}, "writer": {"entry": "facade", "method": "write_to_file", "check_validity": False, "filename": "str",
                                        "reuse": "other-writer-between", "overrides": None},
                "reader": {"entry": "facade", "method": "open"}, "history": [], "queries": []}


def _other_scenario():
    """a small second scenario (another country, other content) for reuse histories"""
    spec = json.load(open(os.path.join(CORPUS_DIR, "C01", "light_offset_one_single_stopline_ref.json")))["spec"]
    return G.build(spec)


def write_read(spec, path, d):
    """build -> history (setters, in-place edits, ...) -> read-only queries -> [snapshot of the original] -> write at precision d
    through the planned entry point / reuse pattern -> read through the planned entry point.
    Returns (snapshot of original, snapshot read back, objects, info) or raises."""
    import pathlib
    from commonroad.common.file_reader import CommonRoadFileReader
    from commonroad.common.file_writer import CommonRoadFileWriter, OverwriteExistingFile
    from commonroad.common.reader.file_reader_xml import XMLFileReader
    from commonroad.common.util import FileFormat
    from commonroad.common.writer.file_writer_xml import XMLFileWriter
    from commonroad.scenario.scenario import Tag
    plan = spec.get("plan") or DEFAULT_PLAN
    W, Rd = plan["writer"], plan["reader"]
    sc, pps = G.build(spec)
    hist_log = G.apply_history(sc, pps, plan["history"], spec["scenario_id"]["country"])
    query_log = G.run_queries(sc, pps, plan["queries"])
    before = S.snapshot(sc, pps)
    tmpdir = os.path.dirname(path)
    if os.path.exists(path):
        os.remove(path)
    # ---- writer
    kw = {}
    ov = W.get("overrides") or {}
    for k in ("author", "affiliation", "source"):
        if k in ov:
            kw[k] = ov[k]
    if "tags" in ov:
        kw["tags"] = {G.enum_by_value(Tag, t) for t in ov["tags"]}
    if "location" in ov:
        kw["location"] = G.build_location(ov["location"])
    Wcls = XMLFileWriter if W["entry"] == "xml" else CommonRoadFileWriter
    other_d = 13 - d if d != 13 - d else 3
    reuse = W["reuse"]
    if reuse == "other-writer-after":
        # "d being the writer's decimal precision": a second writer (other scenario, other precision) writes first
        sc_o, pps_o = _other_scenario()
        Wcls(sc_o, pps_o, decimal_precision=other_d).write_to_file(os.path.join(tmpdir, "other.xml"), OverwriteExistingFile.ALWAYS)
    w = Wcls(sc, pps, decimal_precision=d, **kw)
    if reuse == "other-writer-between":
        Wcls(sc, pps, decimal_precision=other_d)       # constructed between construction and use of w, never used
    target = path
    if W["filename"] == "path":
        target = pathlib.Path(path)
    write = (lambda fn: w.write_scenario_to_file(fn, OverwriteExistingFile.ALWAYS)) if W["method"] == "scenario_only" else \
        (lambda fn: w.write_to_file(fn, OverwriteExistingFile.ALWAYS, check_validity=W["check_validity"]))
    if reuse == "twice":
        write(os.path.join(tmpdir, "first.xml"))       # the same writer writes twice; the second file is observed
    elif reuse == "fail-first":
        r = call(write, os.path.join(tmpdir, "no-such-dir", "x.xml"))    # fails after the tree was built
        assert r[0] == "err", "writing into a missing directory did not fail"
    elif reuse == "existing-file":
        open(path, "w").write("<commonRoad/>")
    if W["filename"] == "default":
        cwd = os.getcwd()
        os.chdir(tmpdir)
        try:
            write(None)
            default = str(sc.scenario_id) + (".xml" if W["method"] != "scenario_only" else "")
            os.replace(os.path.join(tmpdir, default), path)
        finally:
            os.chdir(cwd)
    else:
        write(target)
    # ---- reader
    src = path
    if Rd["entry"] == "bytes":
        src = open(path, "rb").read()
    if Rd["entry"] == "xml":
        reader = XMLFileReader(src)
    elif Rd["entry"] in ("facade-format", "bytes"):
        reader = CommonRoadFileReader(src, FileFormat.XML)
    else:
        reader = CommonRoadFileReader(pathlib.Path(src) if W["filename"] == "path" else src)
    m = Rd["method"]
    if m == "open-after-other":
        # the reader classes keep class-level state (LaneletFactory._speed_limits): another file is read first
        sc_o, pps_o = _other_scenario()
        po = os.path.join(tmpdir, "other_r.xml")
        CommonRoadFileWriter(sc_o, pps_o, decimal_precision=4).write_to_file(po, OverwriteExistingFile.ALWAYS)
        CommonRoadFileReader(po).open()
    if m == "network-only":
        net = reader.open_lanelet_network()
        sc2, pps2 = _ScenarioView(net), None
    else:
        if m == "open-twice":
            reader.open()
        sc2, pps2 = reader.open(lanelet_assignment=(m == "open-assign"))
    eff_tags = kw["tags"] if "tags" in kw else sc.tags
    eff_loc = kw["location"] if "location" in kw else sc.location
    info = {"overrides": ov, "scenario_only": W["method"] == "scenario_only", "network_only": m == "network-only",
            "history": hist_log, "queries": query_log,
            "eff": {"author": kw.get("author", sc.author), "affiliation": kw.get("affiliation", sc.affiliation),
                    "source": kw.get("source", sc.source), "tags_list": [t.value for t in eff_tags], "location_obj": eff_loc}}
    return before, (S.snapshot(sc2, pps2) if m != "network-only" else S.snapshot_network(net)), (sc, pps, sc2, pps2), info


class _ScenarioView:
    def __init__(self, net):
        self.lanelet_network = net


def _class_of(path, kind):
    """Stable observation class of one difference: the path with ids / indices erased."""
    p = re.sub(r"/\d+", "/*", path)
    return f"{p.strip('/')}/{kind}"


def tags_of(ctx, spec, d):
    t = ctx.tag
    t(f"precision:{d}")
    loc = spec.get("location") or {}
    if any(isinstance(v, int) and not isinstance(v, bool) for v in (spec["dt"], loc.get("lat"), loc.get("lon"))):
        t("value:int-at-decimal-site")
    plan = spec.get("plan")
    if plan:
        W, Rd, B = plan["writer"], plan["reader"], plan["build"]
        t("w-entry:" + W["entry"]), t("w-method:" + W["method"]), t("w-reuse:" + W["reuse"]), t("w-filename:" + W["filename"])
        t("w-validity:" + str(W["check_validity"])), t("w-overrides:" + ("yes" if W["overrides"] else "no"))
        t("r-entry:" + Rd["entry"]), t("r-method:" + Rd["method"])
        for k, v in B.items():
            t(f"build:{k}={v}")
        t("history:%d" % min(len(plan["history"]), 3)), t("queries:%d" % min(len(plan["queries"]), 2))
    else:
        t("plan:plain")
    for o in spec["obstacles"]:
        t("role:" + o["role"])
        if o.get("prediction"):
            t("pred:" + o["prediction"]["kind"])
        ist = o.get("initial_state")
        if ist and "acceleration" not in ist["attrs"] and ("yaw_rate" in ist["attrs"] or "slip_angle" in ist["attrs"]):
            t("init:no-acceleration")
        for sg in [o.get("initial_signal_state")] + list(o.get("signal_series") or []):
            if sg and "horn" in sg["vals"]:
                t("signal:horn")
        if o.get("prediction") and o["prediction"]["kind"] == "trajectory":
            ts = [st["attrs"]["time_step"] for st in o["prediction"]["states"]]
            if any(b - a > 1 for a, b in zip(ts, ts[1:])):
                t("traj:gaps")
            elif len(ts) > 1:
                t("traj:consecutive")
            for st in o["prediction"]["states"]:
                t("stateclass:" + st["cls"])
                if st["cls"] == "CustomState":
                    t("state:custom")
                for v in st["attrs"].values():
                    if isinstance(v, dict) and ("iv" in v or "aiv" in v):
                        t("state:interval")
                    if isinstance(v, dict) and "shape" in v:
                        t("state:region")
    def shapes(x):
        if isinstance(x, dict):
            if x.get("k") in ("rect", "circ", "poly", "group"):
                t("shape:" + x["k"])
            for v in x.values():
                shapes(v)
        elif isinstance(x, list):
            for v in x:
                shapes(v)
    shapes(spec["obstacles"])
    shapes(spec["pps"])
    for p in spec["pps"]:
        if "acceleration" not in p["initial_state"]["attrs"]:
            t("init:no-acceleration")
        for g in p["goals"]:
            t("goalclass:" + g["cls"])
            pos = g["attrs"].get("position")
            if pos and "lanelets" in pos:
                t("goal:lanelets")
            elif pos:
                t("goal:shape")
    for s in spec["signs"]:
        t("sign:virtual" if s["virtual"] else "sign:real")
        for e in s["elements"]:
            t("signid")
    for l in spec["lights"]:
        t("light:active" if l["active"] else "light:inactive")
    if any(ln["stop_line"] for ln in spec["lanelets"]):
        t("stopline")
    if spec["intersections"]:
        t("intersection")


def _has_uncertain_state(spec):
    """does an obstacle of the scenario as written (after the planned history) have a state with an uncertain position (a shape)
    or orientation (an interval)?"""
    try:
        sc, pps = G.build(spec)
        G.apply_history(sc, pps, (spec.get("plan") or {}).get("history") or [], spec["scenario_id"]["country"])
        for o in sc.static_obstacles + sc.dynamic_obstacles:
            states = [o.initial_state]
            p = getattr(o, "prediction", None)
            if p is not None and hasattr(p, "trajectory"):
                states += list(p.trajectory.state_list)
            if any(st.is_uncertain_position or st.is_uncertain_orientation for st in states):
                return True
    except Exception:  # noqa
        pass
    return False


def judge(ctx, spec, d, path, model=True):
    case = {"spec": spec, "precision": d}
    ctx.case({"precision": d, "spec": spec})
    try:
        r = ("ok", write_read(spec, path, d))
    except Exception as e:  # noqa: classified below
        import traceback
        from common import err_class
        frames = [f.name for f in traceback.extract_tb(e.__traceback__)]
        msg = f"{type(e).__name__}: {str(e)[:200]}"
        site = next((f for f in ("find_obstacle_shape_lanelets", "find_obstacle_center_lanelets") if f in frames), None)
        if site is None and "create_from_xml_node" in frames and "rotate_translate_local" in frames:
            site = "initial_shape_lanelets"      # the lanelet assignment of the INITIAL state (static / dynamic obstacle factory)
        assign = ((spec.get("plan") or {}).get("reader") or {}).get("method") == "open-assign"
        if assign and site is not None and "open" in frames and _has_uncertain_state(spec):
            # the reader's lanelet assignment cannot place a state with an uncertain position / orientation: keyed by call site,
            # so that any other exception on the write -> read path stays a violation
            ctx.tag("read-assign-raises:" + site)
            ctx.fail(f"C01/read(lanelet_assignment=True)/raises/{site}/uncertain-state",
                     f"CommonRoadFileReader.open(lanelet_assignment=True) raised {msg} in {site} at precision {d}", case)
        else:
            ctx.fail(f"C01/write-read/raises-{err_class(e)}", f"write->read raised {msg} at precision {d}", case)
        return None
    before, back, objs, info = r[1]
    for k, res in info["history"]:
        ctx.tag("hist:" + k if res == "ok" else "hist-skipped:" + k)
    for k, res in info["queries"]:
        ctx.tag("query:" + k)
    if model:
        correspond(ctx, case, spec, d, path, *objs, info=info)
    # XSD validity of the written file measures the generator (schema-expressible by construction)
    from lxml import etree
    try:
        doc = etree.parse(path)
        for el in doc.iter():     # exponent notation in a decimal is the writer's business (C03), not the generator's
            if el.text and _EXP.match(el.text):
                el.text = format(float(el.text), ".20f")
        ok = schema().validate(doc)
        if not ok:
            ctx.tag("xsd-invalid:" + re.sub(r"'[^']*'", "'..'", schema().error_log[0].message)[:80])
    except Exception:  # noqa
        ok = False
    ctx.tag("xsd-valid" if ok else "xsd-invalid")
    if spec.get("three_d"):
        # the property speaks of 2-D geometry: a 3-D spec is only used for the correspondence (model of <z>)
        ctx.excluded += 1
        ctx.tag("3d")
        return before, back
    want = expected(before, info)
    _goal_lanelet_positions(back)
    ds = S.diff(want, back, S.tol_precision(d), ignore=IGNORE)
    seen = set()
    total = ctx.__dict__.setdefault("_c01_reported", {})
    for (p, kind, a, b) in ds:
        cls = _class_of(p, kind)
        if cls in seen:
            continue
        seen.add(cls)
        total[cls] = total.get(cls, 0) + 1
        if total[cls] > 3:       # the failure list is capped: one finding must not crowd out another
            continue
        ctx.fail(f"C01/roundtrip/{cls}", f"precision {d}: {p}: original {a!r} read back {b!r}", case,
                 detail={"path": p, "kind": kind, "original": a, "read_back": b})
    return before, back


# ------------------------------------------------------------------------------------------------ model side

class Reals:
    """str(np.float64(x)) of every real handed to the model (the model's reals are these strings)."""

    def __init__(self):
        self.seen = {}

    def __call__(self, x):
        import numpy as np
        v = np.float64(x)
        s = str(v)
        self.seen[s] = v
        return s

    def raw(self, x):
        """the repr at a site where the writer calls decimal_to_str(x) on the value AS GIVEN (no np.float64 wrapping): location,
        geo transformation, time step size, rectangle length / width — an int is written as an int ("90", not "90.0")"""
        import numpy as np
        s = str(x)
        self.seen[s] = np.float64(x)
        return s

    def fix(self, d):
        """float_to_str's exponent branch: format(f, ".<d>f")"""
        return [[s, format(v, ".{}f".format(d))] for s, v in self.seen.items() if "e" in s]

    def pos(self):
        """decimal_to_str's exponent branch: np.format_float_positional(f, trim="0")"""
        import numpy as np
        return [[s, np.format_float_positional(v, trim="0")] for s, v in self.seen.items() if "e" in s or "E" in s]


def m_pt(R, p):
    return {"x": R(p[0]), "y": R(p[1]), "z": R(p[2]) if len(p) > 2 else None}


def m_shape1(R, s):
    from commonroad.geometry.shape import Circle, Polygon, Rectangle
    if isinstance(s, Rectangle):
        return {"rect": {"l": R.raw(s.length), "w": R.raw(s.width), "o": R(s.orientation), "c": m_pt(R, s.center)}}
    if isinstance(s, Circle):
        return {"circ": {"r": R(s.radius), "c": m_pt(R, s.center)}}
    if isinstance(s, Polygon):
        return {"poly": {"vs": [m_pt(R, v) for v in s.vertices]}}
    raise TypeError(type(s))


def m_shape(R, s):
    from commonroad.geometry.shape import ShapeGroup
    if isinstance(s, ShapeGroup):
        return {"group": {"l": [m_shape1(R, x) for x in s.shapes]}}
    return {"one": {"s": m_shape1(R, s)}}


def m_time(t):
    from commonroad.common.util import Interval
    if isinstance(t, Interval):
        return {"interval": {"lo": int(t.start), "hi": int(t.end)}}
    return {"exact": {"t": int(t)}}


def m_val(R, v):
    from commonroad.common.util import Interval
    if isinstance(v, Interval):
        return {"interval": {"lo": R(v.start), "hi": R(v.end)}}
    return {"exact": {"v": R(v)}}


def m_state(R, st, goal_lanelets=None):
    from commonroad.geometry.shape import Shape
    fields = []
    for a in st.used_attributes:
        v = getattr(st, a)
        if a == "time_step":
            sv = {"time": {"t": m_time(v)}}
        elif a == "position":
            if goal_lanelets:
                pos = {"lanelets": {"ids": [int(i) for i in goal_lanelets]}}
            elif isinstance(v, Shape):
                pos = {"region": {"s": m_shape(R, v)}}
            else:
                pos = {"point": {"p": m_pt(R, v)}}
            sv = {"pos": {"p": pos}}
        else:
            sv = {"val": {"v": m_val(R, v)}}
        fields.append([a, sv])
    return {"fields": fields}


def m_signal(sg):
    if sg is None:
        return None
    g = lambda n: (bool(getattr(sg, n)) if hasattr(sg, n) else None)
    return {"time": int(sg.time_step), "horn": g("horn"), "indicatorLeft": g("indicator_left"), "indicatorRight": g("indicator_right"),
            "brakingLights": g("braking_lights"), "hazardWarningLights": g("hazard_warning_lights"),
            "flashingBlueLights": g("flashing_blue_lights")}


def m_occs(R, occs):
    return [{"shape": m_shape(R, o.shape), "time": m_time(o.time_step)} for o in occs]


def m_doc(R, sc, pps):
    from commonroad.prediction.prediction import SetBasedPrediction, TrajectoryPrediction
    from commonroad.scenario.obstacle import DynamicObstacle, EnvironmentObstacle, PhantomObstacle, StaticObstacle
    net = sc.lanelet_network
    ids = lambda s: [int(i) for i in (s or [])]
    doc = {"lanelets": [], "signs": [], "lights": [], "intersections": [], "statics": [], "dynamics": [], "phantoms": [], "envs": [],
           "problems": []}
    for ln in net.lanelets:
        sl = ln.stop_line
        doc["lanelets"].append({
            "id": int(ln.lanelet_id),
            "left": {"pts": [m_pt(R, p) for p in ln.left_vertices], "marking": ln.line_marking_left_vertices.value},
            "right": {"pts": [m_pt(R, p) for p in ln.right_vertices], "marking": ln.line_marking_right_vertices.value},
            "pred": ids(ln.predecessor), "succ": ids(ln.successor),
            "adjL": None if ln.adj_left is None else {"ref": int(ln.adj_left), "same": bool(ln.adj_left_same_direction)},
            "adjR": None if ln.adj_right is None else {"ref": int(ln.adj_right), "same": bool(ln.adj_right_same_direction)},
            "stop": None if sl is None else {
                "pts": None if sl.start is None and sl.end is None else [m_pt(R, sl.start), m_pt(R, sl.end)],
                "marking": sl.line_marking.value, "signRefs": ids(sl.traffic_sign_ref), "lightRefs": ids(sl.traffic_light_ref)},
            "types": [t.value for t in ln.lanelet_type], "oneWay": [t.value for t in ln.user_one_way],
            "bidir": [t.value for t in ln.user_bidirectional], "signs": ids(ln.traffic_signs), "lights": ids(ln.traffic_lights)})
    for s in net.traffic_signs:
        doc["signs"].append({"id": int(s.traffic_sign_id),
                             "elements": [{"id": str(e.traffic_sign_element_id.value), "values": [str(v) for v in e.additional_values]}
                                          for e in s.traffic_sign_elements],
                             "position": None if s.position is None else m_pt(R, s.position), "virtual": bool(s.virtual)})
    for t in net.traffic_lights:
        c = t.traffic_light_cycle
        doc["lights"].append({"id": int(t.traffic_light_id),
                              "cycle": None if c is None else {
                                  "elements": [{"duration": int(e.duration), "color": e.state.value} for e in c.cycle_elements],
                                  "offset": int(c.time_offset or 0)},
                              "position": None if t.position is None else m_pt(R, t.position), "direction": t.direction.value,
                              "active": bool(t.active)})
    for it in net.intersections:
        doc["intersections"].append({
            "id": int(it.intersection_id),
            "incomings": [{"id": int(i.incoming_id), "lanelets": ids(i.incoming_lanelets), "right": ids(i.successors_right),
                           "straight": ids(i.successors_straight), "left": ids(i.successors_left),
                           "leftOf": None if i.left_of is None else int(i.left_of)} for i in it.incomings],
            "crossings": ids(it.crossings)})
    for o in sc.obstacles:
        if isinstance(o, StaticObstacle):
            doc["statics"].append({"id": int(o.obstacle_id), "type": o.obstacle_type.value, "shape": m_shape(R, o.obstacle_shape),
                                   "init": m_state(R, o.initial_state)})
        elif isinstance(o, DynamicObstacle):
            p = o.prediction
            if isinstance(p, SetBasedPrediction):
                pred = {"occ": {"os": m_occs(R, p.occupancy_set)}}
            elif isinstance(p, TrajectoryPrediction):
                pred = {"traj": {"states": [m_state(R, s) for s in p.trajectory.state_list]}}
            else:
                pred = "none"
            doc["dynamics"].append({"id": int(o.obstacle_id), "type": o.obstacle_type.value, "shape": m_shape(R, o.obstacle_shape),
                                    "init": m_state(R, o.initial_state), "initSignal": m_signal(o.initial_signal_state),
                                    "pred": pred, "series": [m_signal(s) for s in (o.signal_series or [])]})
        elif isinstance(o, PhantomObstacle):
            p = o.prediction
            doc["phantoms"].append({"id": int(o.obstacle_id),
                                    "occ": m_occs(R, p.occupancy_set) if isinstance(p, SetBasedPrediction) else None})
        elif isinstance(o, EnvironmentObstacle):
            doc["envs"].append({"id": int(o.obstacle_id), "type": o.obstacle_type.value, "shape": m_shape(R, o.obstacle_shape)})
    for p in pps.planning_problem_dict.values():
        gl = p.goal.lanelets_of_goal_position or {}
        doc["problems"].append({"id": int(p.planning_problem_id), "init": m_state(R, p.initial_state),
                                "goals": [m_state(R, g, gl.get(i)) for i, g in enumerate(p.goal.state_list)]})
    return doc


_CFG = {}


def model_cfg(country, d, fix, pos=()):
    from commonroad.scenario.state import SpecificStateClasses
    from commonroad.scenario.traffic_sign import TrafficSignIDCountries
    if "classes" not in _CFG:
        _CFG["classes"] = [list(c().attributes) for c in SpecificStateClasses]
    en = TrafficSignIDCountries[country]
    return {"P": {"d": d, "fix": fix, "pos": [list(x) for x in pos]}, "classes": _CFG["classes"], "signVals": [m.value for m in en],
            "maxSpeed": en.MAX_SPEED.value if hasattr(en, "MAX_SPEED") else None}


def xml_json(el):
    return [el.tag, [[k, v] for k, v in el.attrib.items()], (el.text or "").strip(), [xml_json(c) for c in el]]


REAL_KEYS = {"x", "y", "z", "l", "w", "o", "r", "v", "lo", "hi", "dt", "lat", "lon", "rot", "scaling"}
SET_KEYS = {"types", "oneWay", "bidir", "signs", "lights", "signRefs", "lightRefs", "lanelets", "right", "straight", "left",
            "crossings", "pred", "succ"}


def canon_doc(j, key=None):
    """reals (decimal strings) -> exact value of the double they denote; set-valued lists sorted"""
    if isinstance(j, dict):
        return {k: canon_doc(v, k) for k, v in j.items()}
    if isinstance(j, list):
        out = [canon_doc(v, None) for v in j]
        if key in SET_KEYS and all(isinstance(v, (int, str)) for v in out):
            out = sorted(out, key=str)
        return out
    if isinstance(j, str) and key in REAL_KEYS:
        v = float(j)
        return "R:" + (v + 0.0).hex() if v != 0 else "R:0"
    return j


def m_location(R, loc):
    if loc is None:
        return None
    g, e = loc.geo_transformation, loc.environment
    return {"geoNameId": int(loc.geo_name_id), "lat": R.raw(loc.gps_latitude), "lon": R.raw(loc.gps_longitude),
            "geo": None if g is None else {
                "ref": g.geo_reference or "",
                "add": None if g.x_translation is None else {"x": R.raw(g.x_translation), "y": R.raw(g.y_translation), "rot": R.raw(g.z_rotation),
                                                              "scaling": R.raw(g.scaling)}},
            "env": None if e is None else {"hours": int(e.time.hours), "minutes": int(e.time.minutes), "timeOfDay": e.time_of_day.value,
                                            "weather": e.weather.value, "underground": e.underground.value}}


def m_file(R, sc, pps, tags, eff=None):
    eff = eff or {"author": sc.author, "affiliation": sc.affiliation, "source": sc.source, "location_obj": sc.location}
    return {"header": {"dt": R.raw(sc.dt), "author": eff["author"], "affiliation": eff["affiliation"], "source": eff["source"],
                       "benchmarkId": str(sc.scenario_id)},
            "location": m_location(R, eff["location_obj"]), "tags": tags, "body": m_doc(R, sc, pps)}


def file_cfg(d, fix, pos, today):
    from commonroad.scenario.state import SpecificStateClasses
    from commonroad.scenario.traffic_sign import SupportedTrafficSignCountry, TrafficSignIDCountries
    if "classes" not in _CFG:
        _CFG["classes"] = [list(c().attributes) for c in SpecificStateClasses]
    if "tables" not in _CFG:
        _CFG["tables"] = [[c, [[m.value for m in en], en.MAX_SPEED.value if hasattr(en, "MAX_SPEED") else None]]
                          for c, en in TrafficSignIDCountries.items()]
        _CFG["countries"] = [c.value for c in SupportedTrafficSignCountry]
    return {"P": {"d": d, "fix": fix, "pos": [list(x) for x in pos]}, "classes": _CFG["classes"], "countries": _CFG["countries"],
            "tables": _CFG["tables"], "today": today}


_PLAIN = re.compile(r"^-?[0-9]+(\.[0-9]*)?$")


def check_tables(ctx, case, d, P, reprs, more=()):
    """(i) the contract `FixOk` of the two exponent-notation tables, with exact rational arithmetic: format(x, '.<d>f') is a
    plain decimal within 10^-d of x, format_float_positional(x) is a plain decimal of the same value; every exponent-form repr
    of the case is covered.  (ii) CR.X.realVal (the valuation the theorems speak about) = the exact value Python assigns to
    the same text (fractions.Fraction), for every repr and every table entry of the case."""
    from fractions import Fraction
    from common import unrat
    bound = Fraction(1, 10 ** d)
    bad = []
    for k, v in P["fix"]:
        x = Fraction(float(k))            # the double itself
        if not _PLAIN.match(v) or not abs(Fraction(v) - x) < bound:
            bad.append(["fix", k, v])     # format(x, '.<d>f') is not within 10^-d of the float: never
        elif not abs(Fraction(v) - Fraction(k)) < bound:
            # |x| >= 2^53: format() prints the exact binary value, which differs from the decimal value of the shortest repr by up
            # to half an ulp (>= 1). The text-level contract FixOk does not hold for such a repr (the theorems with hypothesis
            # FixOk say nothing about this case); the float-level oracle judges it (float(text) == x exactly).
            if abs(x) >= 2 ** 53:
                ctx.tag("fixok-not-applicable:huge")
            else:
                bad.append(["fix-text", k, v])
    for k, v in P["pos"]:
        if not _PLAIN.match(v) or Fraction(v) != Fraction(k):
            bad.append(["pos", k, v])
    fixk, posk = {k for k, _ in P["fix"]}, {k for k, _ in P["pos"]}
    for s in reprs:
        if ("e" in s or "E" in s) and (s not in fixk or s not in posk):
            bad.append(["uncovered", s])
        elif "e" not in s and "E" not in s and not _PLAIN.match(s):
            bad.append(["not-a-repr", s])
    ctx.compare(case, bad, [], "FixOk / ReprForm / coverage of the reprs and tables of this case (hypotheses of C01_norm_reals_close)")
    texts = sorted(set(reprs) | set(more) | {v for _, v in P["fix"]} | {v for _, v in P["pos"]})
    texts = [t for t in texts if t not in ("inf", "-inf", "nan")]
    got = ctx.driver.ask("C01", "real_val", {"ss": texts})
    diff = [[t, g] for t, g in zip(texts, got) if unrat(g) != Fraction(t)]
    ctx.compare(case, diff, [], "CR.X.realVal vs fractions.Fraction on the reprs and table entries of this case")


def witness_initial_extra(ctx):
    """The model's witness C01_witness_initial_extra_dropped on the real code: a planning problem whose initial state is an
    STState (it has the mandatory fields, plus steering_angle) is written with <steeringAngle> and read back as an InitialState
    without it; and an obstacle does not accept such an initial state at all (the reason the loss is outside the property)."""
    import numpy as np
    from commonroad.common.file_reader import CommonRoadFileReader
    from commonroad.common.file_writer import CommonRoadFileWriter, OverwriteExistingFile
    from commonroad.common.util import Interval
    from commonroad.geometry.shape import Rectangle
    from commonroad.planning.goal import GoalRegion
    from commonroad.planning.planning_problem import PlanningProblem, PlanningProblemSet
    from commonroad.scenario.obstacle import DynamicObstacle, ObstacleType
    from commonroad.scenario.state import CustomState, STState
    spec = json.load(open(os.path.join(CORPUS_DIR, "C01", "initial_state_without_acceleration.json")))["spec"]
    sc, _ = G.build(spec)
    mk = lambda: STState(time_step=0, position=np.array([1.0, 1.75]), orientation=0.1, velocity=8.0, steering_angle=0.25,
                         yaw_rate=0.25, slip_angle=0.0)
    pps = PlanningProblemSet([PlanningProblem(100, mk(), GoalRegion([CustomState(time_step=Interval(10, 20))]))])
    path = os.path.join(ctx.tmpdir(), "witness.xml")
    CommonRoadFileWriter(sc, pps, decimal_precision=4).write_to_file(path, OverwriteExistingFile.ALWAYS)
    written = "<steeringAngle>" in open(path).read()
    _, pps2 = CommonRoadFileReader(path).open()
    back = pps2.planning_problem_dict[100].initial_state
    r = call(DynamicObstacle, 7, ObstacleType.CAR, Rectangle(4.5, 1.8), mk(), None)
    case = {"witness": "initial_extra"}
    ctx.tag("witness:initial-extra")
    ctx.compare(case, {"written": written, "read_back_has_it": back.has_value("steering_angle"), "class": type(back).__name__,
                       "obstacle_accepts_other_state_class": r[0] == "ok"},
                {"written": True, "read_back_has_it": False, "class": "InitialState", "obstacle_accepts_other_state_class": False},
                "real code vs C01_witness_initial_extra_dropped / C01_initial_extra_dropped (and the reason it is outside the property)")
    # the model reads the same file as the reader does (steeringAngle ignored)
    correspond(ctx, case, spec, 4, path, sc, pps, sc, pps2, compare_write=True)


def correspond(ctx, case, spec, d, path, sc, pps, sc2, pps2, compare_write=True, info=None):
    """whole file: model encode vs the written tree; model decode of the written tree vs what the reader returned;
    model round trip vs norm (the statement of C01_xml_roundtrip_whole_file, executed)"""
    from lxml import etree
    from commonroad.scenario.scenario import Tag
    R = Reals()
    # the writer iterates the scenario's tag set (`for tag in tags`): same object, same order
    from commonroad.planning.planning_problem import PlanningProblemSet
    info = info or {}
    eff = info.get("eff")
    if info.get("scenario_only"):
        pps = PlanningProblemSet()
    fil = m_file(R, sc, pps, eff["tags_list"] if eff else [t.value for t in sc.tags], eff)
    root = etree.parse(path).getroot()
    fcfg = file_cfg(d, R.fix(d), R.pos(), root.get("date"))
    tree = xml_json(root)
    enc = ctx.driver.ask("C01", "encode_file", {"fcfg": fcfg, "file": fil})
    ctx.compare(case, {"ok": tree}, enc, "XMLFileWriter <commonRoad> tree vs CR.X.encodeFile")
    dec = ctx.driver.ask("C01", "decode_file", {"fcfg": fcfg, "xml": tree})
    R2 = Reals()
    if not info.get("network_only"):
        back = m_file(R2, sc2, pps2, [t.value for t in Tag if t in sc2.tags])
        ctx.compare(case, {"ok": canon_doc(back)}, {"ok": canon_doc(dec["ok"])} if "ok" in dec else dec,
                    "XMLFileReader result vs CR.X.decodeFile of the written tree")
    rt = ctx.driver.ask("C01", "roundtrip_file", {"fcfg": fcfg, "file": fil})
    nm = ctx.driver.ask("C01", "norm_file", {"fcfg": fcfg, "file": fil})
    ctx.compare(case, rt, nm, "CR.X.decodeFile (encodeFile x) vs CR.X.normFile x (the statement of C01_xml_roundtrip_whole_file, executed)")
    check_tables(ctx, case, d, fcfg["P"], list(R.seen), list(R2.seen))
    import datetime
    today = datetime.datetime.today()
    if root.get("date") not in (today.strftime("%Y-%m-%d"), (today - datetime.timedelta(days=1)).strftime("%Y-%m-%d")):
        ctx.compare(case, root.get("date"), today.strftime("%Y-%m-%d"), "date attribute vs today's date")


# ------------------------------------------------------------------------------------------------ run

def precisions_for(ctx, k):
    r = ctx.rng
    ps = {1, 12} if k % 7 == 0 else set()
    while len(ps) < 3:
        ps.add(r.randint(1, 12))
    return sorted(ps)


def run(ctx):
    import c01_dimensions
    n_dim = c01_dimensions.check(G.HISTORY_OPS, G.QUERIES)      # InfraError (exit 2) if the library grew past the table
    ctx.hist["dimension-table-entries"] = n_dim
    tmp = ctx.tmpdir()
    path = os.path.join(tmp, "c01.xml")
    for p in sorted(glob.glob(os.path.join(CORPUS_DIR, "C01", "*.json"))):
        case = json.load(open(p))
        tags_of(ctx, case["spec"], case["precision"])
        judge(ctx, case["spec"], case["precision"], path)
    witness_initial_extra(ctx)
    gen = G.Gen(ctx.rng, three_d=0.08)
    hgen = G.HistoryGen(gen)
    for k in range(ctx.n(400)):
        spec = gen.gen_spec()
        for j, d in enumerate(precisions_for(ctx, k)):
            # first precision: the plain path (constructor-built objects, facade writer and reader); the other two: a planned
            # history / entry points / reuse pattern each
            case_spec = dict(spec, precision=d)
            if j > 0:
                case_spec["plan"] = hgen.plan(spec)
            tags_of(ctx, case_spec, d)
            judge(ctx, case_spec, d, path)
    for name in gen.fully_visited():
        ctx.tag("enum-full:" + name)


search = run


def replay(ctx, case):
    from common import load_findings
    path = os.path.join(ctx.tmpdir(), "c01.xml")
    judge(ctx, case["spec"], case["precision"], path, model=False)
    known = load_findings().get("C01", {})
    ctx.failures = [f for f in ctx.failures if f.key not in known]     # a recorded finding is not what a replay is about


def _fails_with(spec, d, key):
    from common import Ctx
    ctx = Ctx("C01", "quick", 0)
    try:
        judge(ctx, spec, d, os.path.join(ctx.tmpdir(), "s.xml"), model=False)
        return any(f.key == key for f in ctx.failures)
    except Exception:  # noqa
        return False
    finally:
        ctx.close()


def _drop_ref(spec, kind, i):
    for ln in spec["lanelets"]:
        ln[kind] = [x for x in ln[kind] if x != i]
        sl = ln["stop_line"]
        k2 = "sign_refs" if kind == "signs" else "light_refs"
        if sl and sl[k2] is not None:
            sl[k2] = [x for x in sl[k2] if x != i] or None


def shrink(case, key):
    """greedy: drop obstacles, intersections, lights, signs, extra planning problems / goals, trajectory tails, stop lines"""
    spec, d = copy.deepcopy(case["spec"]), case["precision"]
    if not _fails_with(spec, d, key):
        return case

    def attempt(mutate):
        nonlocal spec
        cand = copy.deepcopy(spec)
        try:
            mutate(cand)
        except Exception:  # noqa
            return False
        if _fails_with(cand, d, key):
            spec = cand
            return True
        return False

    for name in ("obstacles", "intersections"):
        i = 0
        while i < len(spec[name]):
            if not attempt(lambda c, i=i: c[name].pop(i)):
                i += 1
    for name, kind in (("lights", "lights"), ("signs", "signs")):
        i = 0
        while i < len(spec[name]):
            def m(c, i=i):
                x = c[name].pop(i)
                _drop_ref(c, kind, x["id"])
            if not attempt(m):
                i += 1
    i = 1
    while i < len(spec["pps"]):
        if not attempt(lambda c, i=i: c["pps"].pop(i)):
            i += 1
    attempt(lambda c: c["pps"].pop(0) if len(c["pps"]) > 1 else (_ for _ in ()).throw(ValueError()))
    for k in range(len(spec["lanelets"])):
        attempt(lambda c, k=k: c["lanelets"][k].update(stop_line=None))
        attempt(lambda c, k=k: c["lanelets"][k].update(adj_left=None, adj_right=None, pred=[], succ=[]))
    for k, o in enumerate(spec["obstacles"]):
        p = o.get("prediction")
        if p and p["kind"] == "trajectory":
            attempt(lambda c, k=k: c["obstacles"][k]["prediction"].update(states=c["obstacles"][k]["prediction"]["states"][:1]))
        elif p:
            attempt(lambda c, k=k: c["obstacles"][k]["prediction"].update(occupancies=c["obstacles"][k]["prediction"]["occupancies"][:1]))
        if o.get("signal_series"):
            attempt(lambda c, k=k: c["obstacles"][k].update(signal_series=None))
    return {"spec": spec, "precision": d}
