"""C01 — XML write -> read reproduces scenario and planning problems (2020a format, decimal precisions 1..12).
model: lean/CRModel/Xml.lean, Codec.lean, CRXml.lean; theorems: lean/CRProps/C01.lean.
generator: harness/gen_scenario.py; snapshot + diff: harness/snapshot.py."""
from __future__ import annotations

import copy
import glob
import json
import os
import re

from common import CORPUS_DIR, call
import gen_scenario as G
import snapshot as S

RULE = ("a case is one schema-expressible spec (scenario x planning-problem set, built through the public constructors) and one "
        "decimal precision 1..12; every spec is written and read back at 3 precisions (quick); enumerations of the XSD are visited "
        "round-robin; non-trivial = every case (each has >= 1 lanelet and >= 1 planning problem with truncated reals); "
        "distinct = distinct canonical JSON of (spec, precision)")
ASSUMPTIONS = [
    "lxml / ElementTree serialisation and parsing are the identity on element trees of plain ASCII text (sampled by the correspondence)",
    "str(numpy.float64) / float(str) are a correctly rounded round trip; the model receives str(float64(x)) as a parameter",
    "schema-expressible is read narrowly where the property text leaves the domain open: initial states are InitialState objects, "
    "stop lines have explicit points, shape groups have >= 2 members, additional sign values are non-empty strings, a dynamic "
    "obstacle has a prediction, interval bounds are ordered, polygons are non-degenerate (extent >> 10^-d)",
    "first_occurrence of a traffic sign, the centre line of a lanelet, TrafficLight.color and the state class name are not part of "
    "the XML format (derived on reading) and are not compared",
]
TRUSTED = ["harness/snapshot.py (structural snapshot through public accessors) and harness/gen_scenario.py (spec -> objects)"]
REQUIRED_BUCKETS = ["role:static", "role:dynamic", "role:environment", "role:phantom", "pred:trajectory", "pred:set",
                    "shape:rect", "shape:circ", "shape:poly", "shape:group", "state:interval", "state:region", "state:custom",
                    "init:no-acceleration", "sign:virtual", "signal:horn", "goal:lanelets", "goal:shape", "light:inactive",
                    "stopline", "intersection", "precision:1", "precision:12", "xsd-valid"]
WORKERS = {"quick": 1, "thorough": 8}

# keys of the snapshot that the XML format does not carry (derived by the reader / not part of the property)
IGNORE = {"cls", "center", "first_occurrence", "color", "pred_seq", "succ_seq", "enum"}

INITIAL_DEFAULTS = ["position", "orientation", "velocity", "acceleration", "yaw_rate", "slip_angle"]

_SCHEMA = {}
_EXP = re.compile(r"^-?\d+(\.\d+)?e[-+]?\d+$")


def schema():
    from lxml import etree
    import commonroad
    p = os.path.join(os.path.dirname(os.path.abspath(commonroad.__file__)), "scenario_definition", "xml_definition_files",
                     "XML_commonRoad_XSD.xsd")
    if p not in _SCHEMA:
        _SCHEMA[p] = etree.XMLSchema(etree.parse(p))
    return _SCHEMA[p]


# ------------------------------------------------------------------------------------------------ expected snapshot

def _fill_initial(st):
    """the reader's documented default: unset attributes of an initial state read back as 0"""
    if st is None:
        return
    a = st["attrs"]
    for n in INITIAL_DEFAULTS:
        if n not in a:
            a[n] = {"pt": [0.0, 0.0]} if n == "position" else {"x": 0.0}


def expected(snap):
    """What the property promises for the read-back snapshot, given the snapshot of the original."""
    e = copy.deepcopy(snap)
    for o in e["obstacles"].values():
        if isinstance(o, dict) and "initial_state" in o:
            _fill_initial(o["initial_state"])
    for p in e.get("pps", {}).values():
        if isinstance(p, dict):
            _fill_initial(p["initial_state"])
    return e


# ------------------------------------------------------------------------------------------------ one case

def write_read(spec, path, d):
    """build -> write at precision d -> read. Returns (snapshot of original, snapshot read back) or raises."""
    from commonroad.common.file_reader import CommonRoadFileReader
    from commonroad.common.file_writer import CommonRoadFileWriter, OverwriteExistingFile
    sc, pps = G.build(spec)
    before = S.snapshot(sc, pps)
    if os.path.exists(path):
        os.remove(path)
    CommonRoadFileWriter(sc, pps, decimal_precision=d).write_to_file(path, OverwriteExistingFile.ALWAYS)
    after_write = S.snapshot(sc, pps)
    sc2, pps2 = CommonRoadFileReader(path).open()
    return before, after_write, S.snapshot(sc2, pps2)


def _class_of(path, kind):
    """Stable observation class of one difference: the path with ids / indices erased."""
    p = re.sub(r"/\d+", "/*", path)
    return f"{p.strip('/')}/{kind}"


def tags_of(ctx, spec, d):
    t = ctx.tag
    t(f"precision:{d}")
    for o in spec["obstacles"]:
        t("role:" + o["role"])
        if o.get("prediction"):
            t("pred:" + o["prediction"]["kind"])
        ist = o.get("initial_state")
        if ist and "acceleration" not in ist["attrs"] and ("yaw_rate" in ist["attrs"] or "slip_angle" in ist["attrs"]):
            t("init:no-acceleration")
        for sg in [o.get("initial_signal_state")] + list(o.get("signal_series") or []):
            if sg and "horn" in sg["vals"]:
                t("signal:horn")
        if o.get("prediction") and o["prediction"]["kind"] == "trajectory":
            for st in o["prediction"]["states"]:
                t("stateclass:" + st["cls"])
                if st["cls"] == "CustomState":
                    t("state:custom")
                for v in st["attrs"].values():
                    if isinstance(v, dict) and ("iv" in v or "aiv" in v):
                        t("state:interval")
                    if isinstance(v, dict) and "shape" in v:
                        t("state:region")
    def shapes(x):
        if isinstance(x, dict):
            if x.get("k") in ("rect", "circ", "poly", "group"):
                t("shape:" + x["k"])
            for v in x.values():
                shapes(v)
        elif isinstance(x, list):
            for v in x:
                shapes(v)
    shapes(spec["obstacles"])
    shapes(spec["pps"])
    for p in spec["pps"]:
        if "acceleration" not in p["initial_state"]["attrs"]:
            t("init:no-acceleration")
        for g in p["goals"]:
            pos = g["attrs"].get("position")
            if pos and "lanelets" in pos:
                t("goal:lanelets")
            elif pos:
                t("goal:shape")
    for s in spec["signs"]:
        t("sign:virtual" if s["virtual"] else "sign:real")
        for e in s["elements"]:
            t("signid")
    for l in spec["lights"]:
        t("light:active" if l["active"] else "light:inactive")
    if any(ln["stop_line"] for ln in spec["lanelets"]):
        t("stopline")
    if spec["intersections"]:
        t("intersection")


def judge(ctx, spec, d, path, model=True):
    case = {"spec": spec, "precision": d}
    ctx.case({"precision": d, "spec": spec})
    r = call(write_read, spec, path, d)
    if r[0] == "err":
        ctx.fail(f"C01/write-read/raises-{r[1]}", f"write->read raised {r[2]} at precision {d}", case)
        return None
    before, after_write, back = r[1]
    # XSD validity of the written file measures the generator (schema-expressible by construction)
    from lxml import etree
    try:
        doc = etree.parse(path)
        for el in doc.iter():     # exponent notation in a decimal is the writer's business (C03), not the generator's
            if el.text and _EXP.match(el.text):
                el.text = format(float(el.text), ".20f")
        ok = schema().validate(doc)
        if not ok:
            ctx.tag("xsd-invalid:" + re.sub(r"'[^']*'", "'..'", schema().error_log[0].message)[:80])
    except Exception:  # noqa
        ok = False
    ctx.tag("xsd-valid" if ok else "xsd-invalid")
    want = expected(before)
    ds = S.diff(want, back, S.tol_precision(d), ignore=IGNORE)
    seen = set()
    for (p, kind, a, b) in ds:
        cls = _class_of(p, kind)
        if cls in seen:
            continue
        seen.add(cls)
        ctx.fail(f"C01/roundtrip/{cls}", f"precision {d}: {p}: original {a!r} read back {b!r}", case,
                 detail={"path": p, "kind": kind, "original": a, "read_back": b})
    return before, back


# ------------------------------------------------------------------------------------------------ run

def precisions_for(ctx, k):
    r = ctx.rng
    ps = {1, 12} if k % 7 == 0 else set()
    while len(ps) < 3:
        ps.add(r.randint(1, 12))
    return sorted(ps)


def run(ctx):
    tmp = ctx.tmpdir()
    path = os.path.join(tmp, "c01.xml")
    for p in sorted(glob.glob(os.path.join(CORPUS_DIR, "C01", "*.json"))):
        case = json.load(open(p))
        tags_of(ctx, case["spec"], case["precision"])
        judge(ctx, case["spec"], case["precision"], path)
    gen = G.Gen(ctx.rng)
    for k in range(ctx.n(130)):
        spec = gen.gen_spec()
        for d in precisions_for(ctx, k):
            spec["precision"] = d
            tags_of(ctx, spec, d)
            judge(ctx, spec, d, path)


search = run


def replay(ctx, case):
    path = os.path.join(ctx.tmpdir(), "c01.xml")
    judge(ctx, case["spec"], case["precision"], path)


def shrink(case, key):
    return case
