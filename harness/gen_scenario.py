"""Reusable generator of CommonRoad scenarios x planning-problem sets (used by C01; meant for C02, C03, C15, C18 too).

A case is a JSON-able *spec* (pure data, replayable); `build(spec)` turns it into `(Scenario, PlanningProblemSet)` through
the public constructors of the working tree under test.  With `strict_xsd=True` (default) the spec only uses what the 2020a XML
schema can express:

* ids >= 1, unique over lanelets / signs / lights / intersections / incomings / obstacles / planning problems;
* every member of every enumeration the XSD lists (line markings, lanelet types, road users, obstacle types per role, traffic
  light colours and directions, traffic sign ids of the scenario's country that the XSD lists, tags, time of day / weather /
  underground) is visited round-robin (`Gen.every`), so a run of a few hundred scenarios covers all of them;
* lanelets with >= 2 vertices per bound, >= 1 lanelet type, references only to existing ids, stop lines with explicit points;
* traffic signs referenced by a lanelet, explicit sign / light positions, non-empty cycles;
* obstacle roles static / dynamic / environment / phantom; shapes rectangle / circle / polygon / group (groups have >= 2 members);
* initial states: `InitialState`, time 0, position + orientation always, the other four attributes present / absent;
  trajectory states of every state class the schema can express (InitialState, ExtendedPMState, KSState, STState, MBState,
  CustomState over schema element names, and partially populated ones), time >= 1, exact / interval values, point / region positions;
* occupancy sets with exact / interval times; signal states with every subset of the six signals, booleans both ways;
* planning problems: exact initial state (yaw rate + slip angle present, acceleration optional), >= 1 goal state with interval
  time and optional region / lanelet position, orientation interval, velocity interval.

Real numbers are drawn from several classes (dyadic grid, many-digit decimals, short decimals, tiny values whose repr uses
exponent notation, large values, integers given as floats).  `strict_xsd=False` additionally uses state classes and values the
Python API accepts but the XML schema cannot express (PMState, KSTState, STDState, input states ...), for the other formats.

All randomness comes from the `random.Random` passed in.
"""
from __future__ import annotations

import math
import os

TWO_PI = 2 * math.pi

# python attribute name -> XML element name, for every element of the XSD `state` type
STATE_XSD_ATTRS = [
    "velocity", "acceleration", "yaw_rate", "slip_angle", "steering_angle", "roll_angle", "roll_rate", "pitch_angle",
    "pitch_rate", "velocity_y", "position_z", "velocity_z", "roll_angle_front", "roll_rate_front", "velocity_y_front",
    "position_z_front", "velocity_z_front", "roll_angle_rear", "roll_rate_rear", "velocity_y_rear", "position_z_rear",
    "velocity_z_rear", "left_front_wheel_angular_speed", "right_front_wheel_angular_speed", "left_rear_wheel_angular_speed",
    "right_rear_wheel_angular_speed", "delta_y_f", "delta_y_r", "curvature", "curvature_rate", "jerk", "jounce"]

STATE_CLASSES_XSD = ["InitialState", "ExtendedPMState", "KSState", "STState", "MBState", "CustomState"]
STATE_CLASSES_API_ONLY = ["PMState", "KSTState", "STDState"]

SIGNALS = ["horn", "indicator_left", "indicator_right", "braking_lights", "hazard_warning_lights", "flashing_blue_lights"]

_XSD_CACHE = {}


def xsd_enums(repo=None):
    """{simpleType / element name: [enumeration values]} parsed from the 2020a XSD of the tree under test."""
    if repo is None:
        import commonroad
        repo = os.path.dirname(os.path.dirname(os.path.abspath(commonroad.__file__)))
    if repo in _XSD_CACHE:
        return _XSD_CACHE[repo]
    from lxml import etree
    path = os.path.join(repo, "commonroad", "scenario_definition", "xml_definition_files", "XML_commonRoad_XSD.xsd")
    t = etree.parse(path)
    xs = "{http://www.w3.org/2001/XMLSchema}"
    out = {}
    for st in t.iter(xs + "restriction"):
        vals = [e.get("value") for e in st.findall(xs + "enumeration")]
        if vals:
            p = st.getparent()
            out[p.get("name") or p.getparent().get("name")] = vals
    # the 28 tags are elements of complexType "tag"
    for ct in t.iter(xs + "complexType"):
        if ct.get("name") == "tag":
            out["tag"] = [e.get("name") for e in ct.iter(xs + "element")]
    _XSD_CACHE[repo] = out
    return out


def state_class_attrs():
    """{class name: [attribute names in dataclass order, without time_step]} from the tree under test."""
    import dataclasses
    from commonroad.scenario import state as S
    out = {}
    for name in STATE_CLASSES_XSD + STATE_CLASSES_API_ONLY:
        if name == "CustomState":
            continue
        cls = getattr(S, name)
        out[name] = [f.name for f in dataclasses.fields(cls) if f.name != "time_step"]
    return out


class Gen:
    def __init__(self, rng, strict_xsd=True, max_lanelets=6, max_obstacles=5, max_states=8, three_d=0.0):
        self.r = rng
        self.strict = strict_xsd
        self.three_d = three_d   # share of specs whose lanelet bounds and planning-problem start positions carry a z coordinate
        self.max_lanelets, self.max_obstacles, self.max_states = max_lanelets, max_obstacles, max_states
        self.X = xsd_enums()
        self.rr = {}
        self.calls = {}
        self.cls_attrs = state_class_attrs()
        self._next_id = 0

    # ------------------------------------------------------------------ choice helpers
    def every(self, name, members):
        """Round-robin over `members` (random start): every member is produced once per len(members) calls."""
        members = list(members)
        if name not in self.rr:
            self.rr[name] = self.r.randrange(len(members))
            self.calls[name] = [0, len(members)]
        k = self.rr[name]
        self.rr[name] = k + 1
        self.calls[name][0] += 1
        return members[k % len(members)]

    def fully_visited(self):
        """names of the round-robin choices every member of which has been produced at least once"""
        return sorted(n for n, (c, m) in self.calls.items() if c >= m)

    def flip(self, p=0.5):
        return self.r.random() < p

    def new_id(self):
        # ids >= 1; the very first id of a scenario is 1 in one scenario out of three (boundary)
        if self._next_id == 0:
            self._next_id = 1 if self.flip(0.34) else self.r.randint(1, 5000)
        else:
            self._next_id += self.r.choice([1, 1, 1, 2, 7, 100])
        return self._next_id

    # ------------------------------------------------------------------ numbers
    def real(self, lo=-100.0, hi=100.0):
        r = self.r
        k = r.random()
        if k < 0.22:
            return r.randint(int(lo * 16), int(hi * 16)) / 16.0
        if k < 0.52:
            return r.uniform(lo, hi)
        if k < 0.64:
            return round(r.uniform(lo, hi), r.randint(0, 6))
        if k < 0.70:
            return min(hi, max(lo, r.choice([0.0, -0.0, 1.0, -1.0, 0.5, -0.25, 0.1, -0.1])))
        if k < 0.78:
            v = r.choice([-1, 1]) * r.uniform(1, 9.99) * 10.0 ** -r.randint(5, 13)   # repr uses exponent notation
            return min(hi, max(lo, v))
        if k < 0.84:
            v = r.uniform(lo, hi) * 10.0 ** r.randint(2, 4)
            return v if not self.strict else v   # large magnitudes are expressible
        if k < 0.92:
            return float(r.randint(math.ceil(lo), math.floor(hi)))
        # 15-17 significant digits just below / above a decimal grid point (truncation vs rounding differ)
        base = r.randint(int(lo * 100), int(hi * 100)) / 100.0
        return min(hi, max(lo, base + r.choice([-1, 1]) * r.choice([1e-9, 4.9e-7, 5e-5, 9.99999e-3])))

    def maybe_int(self, x, p=0.12):
        """value class: a Python int where a float is usual (the writer's decimal_to_str prints it without a fraction)"""
        return int(round(x)) if self.flip(p) and abs(x) >= 1 else x

    def huge(self):
        """magnitude >= 1e16 (repr in exponent notation with a positive exponent) or a 17-significant-digit value"""
        r = self.r
        return r.choice([-1, 1]) * r.choice([r.uniform(1, 9.99) * 10.0 ** r.randint(16, 19), 123456789.12345678, 9007199254740993.0])

    def bounded(self, lo, hi):
        """A real guaranteed inside [lo, hi] (angles)."""
        v = self.real(lo, hi)
        return min(hi, max(lo, v))

    def pos_len(self):
        # lengths / radii stay >= 0.2 so that no precision 1..12 can truncate them to zero
        r = self.r
        return r.choice([r.uniform(0.2, 30.0), r.randint(4, 400) / 16.0, round(r.uniform(0.2, 9), r.randint(1, 5)),
                         float(r.randint(1, 20)), 1.8, 4.5])

    def angle(self):
        return self.bounded(-TWO_PI, TWO_PI) if self.flip(0.8) else self.r.choice([0.0, math.pi, -math.pi / 2, 1e-06, -3e-05])

    def point(self, around=None, spread=50.0):
        if around is None:
            return [self.real(-spread, spread), self.real(-spread, spread)]
        return [around[0] + self.real(-spread, spread), around[1] + self.real(-spread, spread)]

    def interval(self, lo=-50.0, hi=50.0):
        a, b = self.real(lo, hi), self.real(lo, hi)
        if a > b:
            a, b = b, a
        return {"iv": [a, b]}

    def angle_interval(self):
        a = self.bounded(-TWO_PI, TWO_PI - 0.01)
        b = min(TWO_PI, a + self.r.uniform(0.0, min(TWO_PI - 0.001, TWO_PI - a)))
        if self.flip(0.1):
            b = a
        return {"aiv": [a, b]}

    def value(self, attr, p_interval=0.3):
        """exact or interval value of a state attribute"""
        if attr == "orientation" or attr.endswith("_angle") and attr in ("slip_angle", "steering_angle"):
            if attr == "orientation":
                return self.angle_interval() if self.flip(p_interval) else self.angle()
        return self.interval() if self.flip(p_interval) else self.real(-60, 60)

    # ------------------------------------------------------------------ shapes
    def rect(self, centred=False):
        s = {"k": "rect", "l": self.maybe_int(self.pos_len()), "w": self.maybe_int(self.pos_len())}
        if centred:
            s["c"], s["o"] = [0.0, 0.0], 0.0
        else:
            s["c"], s["o"] = self.point(), self.angle()
        return s

    def circ(self, centred=False):
        return {"k": "circ", "r": self.pos_len(), "c": [0.0, 0.0] if centred else self.point()}

    def poly(self):
        # star-shaped, safely non-degenerate: radius >= 2, >= 3 vertices, angular gaps >= 0.35 rad
        n = self.r.randint(3, 7)
        c = self.point()
        base = sorted(self.r.uniform(0, TWO_PI) for _ in range(n))
        angs = []
        for i in range(n):
            angs.append(i * TWO_PI / n + self.r.uniform(-0.3, 0.3) * (TWO_PI / n))
        ccw = self.flip()
        vs = []
        for a in (angs if ccw else angs[::-1]):
            rad = self.r.uniform(2.0, 9.0)
            vs.append([c[0] + rad * math.cos(a), c[1] + rad * math.sin(a)])
        if self.flip(0.3):
            vs = [[round(x, 3), round(y, 3)] for x, y in vs]
        del base
        return {"k": "poly", "v": vs}

    def single_shape(self, centred=False, kinds=("rect", "circ", "poly")):
        k = self.every("shape-kind", kinds) if self.flip(0.5) else self.r.choice(kinds)
        return {"rect": lambda: self.rect(centred), "circ": lambda: self.circ(centred), "poly": self.poly}[k]()

    def shape(self, centred=False, p_group=0.2, same_kind=False):
        if self.flip(p_group):
            n = self.r.randint(2, 3)
            if same_kind:
                k = self.r.choice(["rect", "circ", "poly"])
                return {"k": "group", "s": [self.single_shape(False, (k,)) for _ in range(n)]}
            return {"k": "group", "s": [self.single_shape(False) for _ in range(n)]}
        return self.single_shape(centred)

    # ------------------------------------------------------------------ states
    def position(self, p_region=0.25):
        # region positions of obstacle states are single shapes (occupancy_shape_from_state rejects groups)
        if self.flip(p_region):
            return {"shape": self.single_shape()}
        return {"pt": self.point()}

    def initial_state(self, exact_only=False, planning=False, certain=False):
        """InitialState: position + orientation + time always; the other four attributes present / absent.
        certain: point position and exact orientation (required when the obstacle shape is a group)."""
        a = {"time_step": 0}
        a["position"] = {"pt": self.point()} if (exact_only or certain) else self.position(0.2)
        a["orientation"] = self.angle() if (exact_only or certain or self.flip(0.75)) else self.angle_interval()
        opt = ["velocity", "acceleration", "yaw_rate", "slip_angle"]
        mode = self.every("init-opt-mode", ["all", "none", "no-acc", "random", "random", "only-late"])
        if planning:
            present = set(opt) if self.flip(0.5) else {"velocity", "yaw_rate", "slip_angle"}
        elif mode == "all":
            present = set(opt)
        elif mode == "none":
            present = set()
        elif mode == "no-acc":
            present = {"velocity", "yaw_rate", "slip_angle"}
        elif mode == "only-late":
            present = set(self.r.sample(["yaw_rate", "slip_angle"], self.r.randint(1, 2)))
        else:
            present = {o for o in opt if self.flip()}
        for o in opt:
            if o in present:
                v = self.real(-40, 40) if (exact_only or self.flip(0.8)) else self.interval()
                if self.flip(0.15):
                    v = self.r.choice([0.25, 0.0, -0.5]) if not isinstance(v, dict) else v
                a[o] = v
        return {"cls": "InitialState", "attrs": a}

    def state_template(self):
        """(class name, ordered attribute names without time_step) for the states of one trajectory."""
        classes = list(STATE_CLASSES_XSD) + ([] if self.strict else STATE_CLASSES_API_ONLY)
        cls = self.every("state-class", classes)
        if cls == "CustomState":
            extra = self.r.sample(STATE_XSD_ATTRS, self.r.randint(0, 4))
            # every element name of the XSD state type is visited round-robin (camelCase mapping of each name)
            extra = [self.every("custom-attr", STATE_XSD_ATTRS) for _ in range(self.r.randint(1, 3))] + extra[:3]
            seen, names = set(), []
            for n in ["position", "orientation"] + extra:
                if n not in seen:
                    seen.add(n)
                    names.append(n)
            if self.flip(0.5):
                self.r.shuffle(names)
            return cls, names
        names = list(self.cls_attrs[cls])
        if self.flip(0.2):   # partially populated state of a specific class (position / orientation stay)
            keep = [n for n in names if n in ("position", "orientation") or self.flip(0.6)]
            names = keep
        return cls, names

    def trajectory_states(self, certain=False):
        cls, names = self.state_template()
        n = self.r.choice([1, 1, 2, 3, self.r.randint(1, self.max_states)])
        t0 = self.r.choice([1, 1, 1, 2, 5, self.r.randint(1, 40)])
        p_iv = self.r.choice([0.0, 0.0, 0.3, 1.0])
        p_reg = self.r.choice([0.0, 0.0, 0.3, 1.0])
        p_oiv = 0.0 if certain else p_iv
        if certain:
            p_reg = 0.0
        out = []
        c = self.point()
        # time steps: consecutive, or (one trajectory in three) with gaps — `Trajectory` only requires that the first state is
        # at the initial time step and that time steps increase; every <state> carries its own <time>
        gaps = n > 1 and self.every("traj-steps", ["consecutive", "gaps", "consecutive"]) == "gaps"
        t = t0
        for i in range(n):
            a = {"time_step": t}
            t += self.r.choice([2, 3, 1, 7]) if gaps else 1
            for nm in names:
                if nm == "position":
                    a[nm] = {"shape": self.single_shape()} if self.flip(p_reg) else {"pt": self.point(c, 5.0)}
                elif nm == "orientation":
                    a[nm] = self.angle_interval() if self.flip(p_oiv) else self.angle()
                elif self.flip(0.03):
                    a[nm] = self.huge()
                else:
                    a[nm] = self.interval() if self.flip(p_iv) else self.real(-60, 60)
            out.append({"cls": cls, "attrs": a})
        return out

    def time_value(self, lo=1):
        if self.flip(0.3):
            a = self.r.randint(max(0, lo - 1), 30)
            return {"iv": [a, a + self.r.choice([0, 1, 1, 5, 20]) if a > 0 else a + self.r.choice([1, 2, 9])]}
        return self.r.choice([lo, lo, self.r.randint(lo, 60)])

    def occupancies(self):
        n = self.r.choice([1, 1, 2, 3, self.r.randint(1, self.max_states)])
        out = []
        t = self.r.choice([1, 1, 2, self.r.randint(1, 30)])
        interval_times = self.flip(0.3)
        for i in range(n):
            if interval_times:
                tv = {"iv": [t, t + self.r.choice([0, 1, 3])]}
                if t == 0:
                    tv = {"iv": [0, self.r.randint(1, 3)]}
            else:
                tv = t
            out.append({"time": tv, "shape": self.shape(p_group=0.25)})
            t += self.r.choice([1, 1, 1, 2])
        return out

    def signal_state(self, t):
        mode = self.every("signal-mode", ["all", "none", "random", "random", "one"])
        if mode == "all":
            names = list(SIGNALS)
        elif mode == "none":
            names = []
        elif mode == "one":
            names = [self.every("signal-one", SIGNALS)]
        else:
            names = [s for s in SIGNALS if self.flip()]
        return {"time_step": t, "vals": {nm: self.flip() for nm in names}}

    # ------------------------------------------------------------------ network
    def lanelet_geometry(self, k):
        n = self.r.choice([2, 2, 3, 4, self.r.randint(2, 7)])
        x0, y0 = self.real(-200, 200), self.real(-200, 200)
        tiny = k == 0 and self.flip(0.3)   # a lanelet starting at the origin with tiny coordinates (exponent notation in repr)
        if tiny:
            x0 = y0 = 0.0
        w = self.r.uniform(2.0, 5.0)
        left, right = [], []
        x = x0
        for i in range(n):
            left.append([x + self.r.uniform(-0.3, 0.3), y0 + w + self.r.uniform(-0.4, 0.4)])
            right.append([x + self.r.uniform(-0.3, 0.3), y0 + self.r.uniform(-0.4, 0.4)])
            x += self.r.uniform(2.0, 20.0)
        style = self.r.choice(["raw", "raw", "grid", "short", "tiny-offset"])
        if style == "grid":
            f = lambda v: round(v * 16) / 16.0
        elif style == "short":
            d = self.r.randint(0, 5)
            f = lambda v: round(v, d)
        elif style == "tiny-offset":
            f = lambda v: round(v, 2) + self.r.choice([1e-9, -1e-9, 4e-6, 0.0])
        else:
            f = lambda v: v
        left = [[f(a), f(b)] for a, b in left]
        right = [[f(a), f(b)] for a, b in right]
        if tiny:   # still a simple polygon: only the first x / y of each bound are replaced by values of magnitude < 1e-5
            left[0] = [self.r.uniform(-9, 9) * 1e-6, left[0][1]]
            right[0] = [self.r.uniform(-9, 9) * 1e-7, self.r.uniform(-9, 9) * 1e-6]
        return left, right

    def with_repeat(self, l):
        """now and then a repeated element (a list, not a set, in the library)"""
        return l + [l[0]] if l and self.flip(0.08) else l

    def subset(self, ids, p=0.35, maxn=3):
        ids = [i for i in ids if self.flip(p)]
        self.r.shuffle(ids)
        return ids[:maxn]

    def gen_spec(self, precision=None):
        r = self.r
        self._next_id = 0
        X = self.X
        from commonroad.scenario.traffic_sign import TrafficSignIDCountries
        countries = [c for c in TrafficSignIDCountries
                     if [m for m in TrafficSignIDCountries[c] if m.value in X["trafficSignID"]]]
        country = self.every("country", ["ZAM", "DEU", "ZAM", "DEU", "ZAM", "DEU"] + countries)
        sign_members = [m.name for m in TrafficSignIDCountries[country] if m.value in X["trafficSignID"]]

        spec = {"precision": precision if precision is not None else r.randint(1, 12)}
        spec["dt"] = r.choice([0.1, 0.04, 0.2, 1.0, 0.05, 1])
        spec["scenario_id"] = {"cooperative": self.flip(0.15), "country": country,
                               "map_name": r.choice(["Tst", "Muc", "Lohmar", "A9"]), "map_id": r.randint(1, 99),
                               "configuration_id": r.randint(1, 9), "obstacle_behavior": r.choice(["T", "S", "I"]),
                               "prediction_id": r.randint(1, 3)}
        spec["author"], spec["affiliation"], spec["source"] = "A. Author", r.choice(["TUM", "X Y Univ."]), r.choice(["handcrafted", "NGSIM"])
        ntags = r.randint(0, 4)
        spec["tags"] = sorted({self.every("tag", X["tag"]) for _ in range(ntags)})
        spec["location"] = self.location()

        # ---- lanelets
        nl = r.choice([1, 2, 3, r.randint(1, self.max_lanelets)])
        lids = [self.new_id() for _ in range(nl)]
        big = len(sign_members) > 100     # DEU / ZAM: 234 listed ids each, visited round-robin -> more signs per scenario
        nsigns = (r.choice([1, 2, 3, 3]) if big else r.choice([0, 1, 1, 2, 3])) if sign_members else 0
        nlights = r.choice([0, 1, 1, 2])
        sids = [self.new_id() for _ in range(nsigns)]
        tids = [self.new_id() for _ in range(nlights)]
        lanelets = []
        for k, lid in enumerate(lids):
            left, right = self.lanelet_geometry(k)
            others = [i for i in lids if i != lid]
            ln = {"id": lid, "left": left, "right": right,
                  "lm_left": self.every("lineMarking", X["lineMarking"]),
                  "lm_right": self.every("lineMarking", X["lineMarking"]) if self.flip() else r.choice(X["lineMarking"]),
                  "pred": self.with_repeat(self.subset(others)), "succ": self.with_repeat(self.subset(others)),
                  "adj_left": None, "adj_right": None, "stop_line": None,
                  "types": sorted({self.every("laneletType", X["laneletType"]) for _ in range(r.choice([1, 1, 2, 3]))}),
                  "one_way": sorted({self.every("vehicleType", X["vehicleType"]) for _ in range(r.choice([0, 1, 2, 4]))}),
                  "bidir": sorted({self.every("vehicleType-bi", X["vehicleType"]) for _ in range(r.choice([0, 0, 1, 3]))}),
                  "signs": self.subset(sids, 0.4), "lights": self.subset(tids, 0.5)}
            if others and self.flip(0.5):
                ln["adj_left"] = {"id": r.choice(others), "same": self.flip()}
            if others and self.flip(0.5):
                ln["adj_right"] = {"id": r.choice(others), "same": self.flip()}
            if self.flip(0.4):
                sl = {"start": self.point(left[-1], 1.0), "end": self.point(right[-1], 1.0),
                      "line_marking": self.every("lineMarking-stop", X["lineMarking"]),
                      "sign_refs": None, "light_refs": None}
                if sids and self.flip(0.5):
                    sl["sign_refs"] = sorted(set(self.subset(sids, 0.7) or [r.choice(sids)]))
                if tids and self.flip(0.5):
                    sl["light_refs"] = sorted(set(self.subset(tids, 0.7) or [r.choice(tids)]))
                ln["stop_line"] = sl
            lanelets.append(ln)
        # every sign must be referenced by a lanelet (the reader rejects the file otherwise)
        for s in sids:
            if not any(s in ln["signs"] for ln in lanelets):
                r.choice(lanelets)["signs"].append(s)
        spec["lanelets"] = lanelets

        # ---- signs
        signs = []
        for s in sids:
            els = []
            for _ in range(r.choice([2, 3, 4]) if big else r.choice([1, 1, 2, 3])):
                nm = self.every("sign:" + country, sign_members)
                vals = [r.choice(["50", "13.5", "120", "3.5 t", "08:00-16:00", "x"]) for _ in range(r.choice([0, 0, 1, 2]))]
                els.append({"id": nm, "values": vals})
            signs.append({"id": s, "elements": els, "position": self.point(spread=200.0), "virtual": self.every("virtual", [True, False])})
        spec["signs"] = signs

        # ---- lights
        lights = []
        for t in tids:
            cyc = [[self.every("trafficLightColor", X["trafficLightColor"]), r.choice([1, 2, 5, 30, r.randint(1, 200)])]
                   for _ in range(r.choice([1, 2, 3, 4]))]
            lights.append({"id": t, "cycle": cyc, "offset": r.choice([0, 0, 1, 7, r.randint(1, 100)]),
                           "position": self.point(spread=200.0), "direction": self.every("direction", X["direction"]),
                           "active": self.every("active", [True, False, True])})
        spec["lights"] = lights

        # ---- intersections
        inters = []
        for _ in range(r.choice([0, 0, 1, 2])):
            iid = self.new_id()
            incs = []
            for _ in range(r.choice([1, 2, 3])):
                incs.append({"id": self.new_id(), "lanelets": sorted(set(self.subset(lids, 0.5) or [r.choice(lids)])),
                             "right": sorted(set(self.subset(lids, 0.3))), "straight": sorted(set(self.subset(lids, 0.3))),
                             "left": sorted(set(self.subset(lids, 0.3))), "left_of": None})
            for inc in incs:
                oth = [i["id"] for i in incs if i["id"] != inc["id"]]
                if oth and self.flip(0.5):
                    inc["left_of"] = r.choice(oth)
            cr = None
            if self.flip(0.4):
                cr = sorted(set(self.subset(lids, 0.5) or [r.choice(lids)]))
            inters.append({"id": iid, "incomings": incs, "crossings": cr})
        spec["intersections"] = inters

        # ---- obstacles
        obstacles = []
        for _ in range(r.choice([0, 1, 2, 3, r.randint(0, self.max_obstacles)])):
            role = self.every("role", ["static", "dynamic", "dynamic", "environment", "phantom", "dynamic"])
            o = {"role": role, "id": self.new_id()}
            if role == "static":
                o["type"] = self.every("obstacleTypeStatic", X["obstacleTypeStatic"])
                o["shape"] = self.shape()
                o["initial_state"] = self.initial_state(certain=o["shape"]["k"] == "group")
            elif role == "environment":
                o["type"] = self.every("obstacleTypeEnvironment", X["obstacleTypeEnvironment"])
                o["shape"] = self.shape()
            elif role == "phantom":
                o["prediction"] = {"kind": "set", "occupancies": self.occupancies()}
            else:
                o["type"] = self.every("obstacleTypeDynamic", X["obstacleTypeDynamic"])
                o["shape"] = self.shape(centred=self.flip(0.6), p_group=0.15)
                grp = o["shape"]["k"] == "group"
                o["initial_state"] = self.initial_state(certain=grp)
                o["initial_signal_state"] = self.signal_state(0) if self.flip(0.5) else None
                if self.every("prediction-kind", ["trajectory", "set", "trajectory"]) == "trajectory":
                    o["prediction"] = {"kind": "trajectory", "states": self.trajectory_states(certain=grp)}
                else:
                    o["prediction"] = {"kind": "set", "occupancies": self.occupancies()}
                o["signal_series"] = None
                if self.flip(0.4):
                    t = 1
                    ser = []
                    for _ in range(r.randint(1, 4)):
                        ser.append(self.signal_state(t))
                        t += r.choice([1, 1, 3])
                    o["signal_series"] = ser
            obstacles.append(o)
        spec["obstacles"] = obstacles

        # ---- planning problems
        pps = []
        for _ in range(r.choice([1, 1, 2, 3])):
            goals, goal_lanelets = [], {}
            for gi in range(r.choice([1, 1, 2, 3])):
                a0 = r.choice([0, 1, 5, r.randint(0, 50)])
                a = {"time_step": {"iv": [a0, a0 + r.choice([1, 1, 10, 100]) if a0 == 0 else a0 + r.choice([0, 1, 10, 100])]}}
                mode = self.every("goal-pos", ["none", "shape", "lanelets", "shape", "lanelets"])
                if mode == "shape":
                    a["position"] = {"shape": self.shape(p_group=0.3, same_kind=True)}
                elif mode == "lanelets":
                    ls = sorted(set(self.subset(lids, 0.5, 3) or [r.choice(lids)]))
                    if self.flip(0.3):
                        r.shuffle(ls)
                    a["position"] = {"lanelets": ls}
                    goal_lanelets[str(gi)] = ls
                if self.flip(0.5):
                    a["orientation"] = self.angle_interval()
                if self.flip(0.5):
                    a["velocity"] = self.interval(0, 60)
                if self.flip(0.5):    # attribute order of a CustomState is the keyword order
                    items = list(a.items())
                    r.shuffle(items)
                    a = dict(items)
                # the class of a goal state is free (the writer looks at the populated attributes): classes that have the fields
                fits = ["CustomState"]
                if set(a) <= {"time_step", "position", "orientation", "velocity"}:
                    fits += ["KSState", "InitialState", "ExtendedPMState", "STState"]
                if set(a) <= {"time_step", "position", "velocity"}:
                    fits += ["PMState"]
                goals.append({"cls": self.every("goal-class", fits) if len(fits) > 1 else "CustomState", "attrs": a})
            pps.append({"id": self.new_id(), "initial_state": self.initial_state(exact_only=True, planning=True),
                        "goals": goals, "goal_lanelets": goal_lanelets or None})
        spec["pps"] = pps
        if self.three_d and self.flip(self.three_d):
            # 3-D geometry (outside the 2-D domain of C01's oracle; used for the model correspondence of <z>)
            spec["three_d"] = True
            for ln in spec["lanelets"]:
                ln["left"] = [p + [self.real(-5, 5)] for p in ln["left"]]
                ln["right"] = [p + [self.real(-5, 5)] for p in ln["right"]]
            for p in pps:
                p["initial_state"]["attrs"]["position"]["pt"].append(self.real(-5, 5))
        return spec

    def location(self):
        r = self.r
        X = self.X
        mode = self.every("location", ["default", "plain", "geo", "env", "both"])
        if mode == "default":
            return {"geo_name_id": -999, "lat": 999.0, "lon": 999.0, "geo": None, "env": None}
        loc = {"geo_name_id": r.choice([-999, 2867714, r.randint(1, 10 ** 7)]), "lat": self.maybe_int(self.real(-90, 90), 0.2),
               "lon": self.maybe_int(self.real(-180, 180), 0.2),
               "geo": None, "env": None}
        if mode in ("geo", "both"):
            loc["geo"] = {"ref": r.choice(["+proj=utm +zone=32 +ellps=WGS84", "EPSG:4326"]), "x": self.maybe_int(self.real(), 0.2), "y": self.real(),
                          "rot": self.bounded(-3.0, 3.0), "scaling": self.pos_len()}
        if mode in ("env", "both"):
            loc["env"] = {"h": r.randint(0, 23), "m": r.randint(0, 59),
                          "time_of_day": self.every("timeOfDay", [v for v in X["timeOfDay"] if v != "day"]),
                          "weather": self.every("weather", [v for v in X["weather"] if v != "sunny"]),
                          "underground": self.every("underground", X["underground"])}
        return loc


# ====================================================================================================== build

def _np(v):
    import numpy as np
    return np.array(v, dtype=float)


def build_shape(s):
    from commonroad.geometry.shape import Circle, Polygon, Rectangle, ShapeGroup
    k = s["k"]
    if k == "rect":
        return Rectangle(s["l"], s["w"], _np(s["c"]), s["o"])
    if k == "circ":
        return Circle(s["r"], _np(s["c"]))
    if k == "poly":
        return Polygon(_np(s["v"]))
    return ShapeGroup([build_shape(x) for x in s["s"]])


_BUILD_OPTS = {"numpy_scalars": False, "ints_for_reals": False}


def _num(x):
    """value classes of one real: numpy float64 scalar / python int where the value is integral / python float"""
    import numpy as np
    if isinstance(x, bool) or not isinstance(x, (int, float)):
        return x
    if _BUILD_OPTS["ints_for_reals"] and float(x).is_integer() and abs(x) < 2 ** 53:
        return int(x)
    if _BUILD_OPTS["numpy_scalars"] and isinstance(x, float):
        return np.float64(x)
    return x


def build_value(v, integer=False):
    from commonroad.common.util import AngleInterval, Interval
    if not isinstance(v, dict):
        return _num(v)
    if isinstance(v, dict):
        if "iv" in v:
            return Interval(v["iv"][0], v["iv"][1])
        if "aiv" in v:
            return AngleInterval(v["aiv"][0], v["aiv"][1])
        if "pt" in v:
            return _np(v["pt"])
        if "shape" in v:
            return build_shape(v["shape"])
        raise ValueError(v)
    return v


def build_state(st, lanelet_polygons=None):
    from commonroad.geometry.shape import ShapeGroup
    from commonroad.scenario import state as S
    import numpy as np
    attrs = {}
    for k, v in st["attrs"].items():
        if isinstance(v, dict) and "lanelets" in v:
            attrs[k] = ShapeGroup([lanelet_polygons[i] for i in v["lanelets"]])
        elif k == "time_step" and not isinstance(v, dict):
            attrs[k] = np.int64(v) if (_BUILD_OPTS["numpy_scalars"] and v != 0) else v
        else:
            attrs[k] = build_value(v)
    cls = getattr(S, st["cls"])
    return cls(**attrs)


def build_signal(sg):
    from commonroad.scenario.state import SignalState
    return SignalState(time_step=sg["time_step"], **sg["vals"])


def build_prediction(p, shape):
    from commonroad.prediction.prediction import Occupancy, SetBasedPrediction, TrajectoryPrediction
    from commonroad.scenario.trajectory import Trajectory
    if p is None:
        return None
    if p["kind"] == "trajectory":
        states = [build_state(s) for s in p["states"]]
        return TrajectoryPrediction(Trajectory(int(states[0].time_step), states), shape)
    occs = [Occupancy(build_value(o["time"]), build_shape(o["shape"])) for o in p["occupancies"]]
    t0 = p["occupancies"][0]["time"]
    t0 = t0["iv"][0] if isinstance(t0, dict) else t0
    return SetBasedPrediction(t0, occs)


def _not_xml_kwargs(o, lids):
    """optional DynamicObstacle arguments that the XML format does not carry: set (deterministically from the id) so that they
    cannot disturb what is written"""
    k = o["id"] % 4
    kw = {}
    if k in (1, 3):
        kw["initial_center_lanelet_ids"] = set(lids[:1])
        kw["initial_shape_lanelet_ids"] = set(lids[:2])
    if k in (2, 3):
        kw["external_dataset_id"] = o["id"] + 7
    return kw


def enum_by_value(enum, value):
    for m in enum:
        if m.value == value:
            return m
    raise KeyError(value)


def build(spec):
    """spec -> (Scenario, PlanningProblemSet) through the public constructors.  spec["plan"]["build"] (optional) selects
    alternative entry points: signs referenced through add_objects(sign, lanelet_ids) instead of the Lanelet constructor,
    obstacles added one by one or as a list, lanelets added one by one, numpy scalars / ints for real values."""
    bp = (spec.get("plan") or {}).get("build") or {}
    _BUILD_OPTS["numpy_scalars"] = bool(bp.get("numpy_scalars"))
    _BUILD_OPTS["ints_for_reals"] = bool(bp.get("ints_for_reals"))
    try:
        return _build(spec, bp)
    finally:
        _BUILD_OPTS["numpy_scalars"] = _BUILD_OPTS["ints_for_reals"] = False


def _build(spec, bp):
    from commonroad.common.common_lanelet import LaneletType, LineMarking, RoadUser, StopLine
    from commonroad.common.util import Time
    from commonroad.planning.goal import GoalRegion
    from commonroad.planning.planning_problem import PlanningProblem, PlanningProblemSet
    from commonroad.scenario.intersection import Intersection, IntersectionIncomingElement
    from commonroad.scenario.lanelet import Lanelet, LaneletNetwork
    from commonroad.scenario.obstacle import DynamicObstacle, EnvironmentObstacle, ObstacleType, PhantomObstacle, StaticObstacle
    from commonroad.scenario.scenario import (Environment, GeoTransformation, Location, Scenario, ScenarioID, Tag, TimeOfDay,
                                              Underground, Weather)
    from commonroad.scenario.traffic_light import (TrafficLight, TrafficLightCycle, TrafficLightCycleElement,
                                                   TrafficLightDirection, TrafficLightState)
    from commonroad.scenario.traffic_sign import TrafficSign, TrafficSignElement, TrafficSignIDCountries

    sid = spec["scenario_id"]
    scenario_id = ScenarioID(cooperative=sid["cooperative"], country_id=sid["country"], map_name=sid["map_name"],
                             map_id=sid["map_id"], configuration_id=sid["configuration_id"],
                             obstacle_behavior=sid["obstacle_behavior"], prediction_id=sid["prediction_id"])
    loc = build_location(spec["location"]) if spec["location"] is not None else None
    sc = Scenario(spec["dt"], scenario_id, author=spec["author"], tags={enum_by_value(Tag, t) for t in spec["tags"]},
                  affiliation=spec["affiliation"], source=spec["source"], location=loc)

    lanelets = []
    for ln in spec["lanelets"]:
        left, right = _np(ln["left"]), _np(ln["right"])
        sl = None
        if ln["stop_line"] is not None:
            s = ln["stop_line"]
            sl = StopLine(_np(s["start"]), _np(s["end"]), enum_by_value(LineMarking, s["line_marking"]),
                          None if s["sign_refs"] is None else set(s["sign_refs"]),
                          None if s["light_refs"] is None else set(s["light_refs"]))
        lanelets.append(Lanelet(
            left_vertices=left, center_vertices=0.5 * (left + right), right_vertices=right, lanelet_id=ln["id"],
            predecessor=list(ln["pred"]), successor=list(ln["succ"]),
            adjacent_left=ln["adj_left"]["id"] if ln["adj_left"] else None,
            adjacent_left_same_direction=ln["adj_left"]["same"] if ln["adj_left"] else None,
            adjacent_right=ln["adj_right"]["id"] if ln["adj_right"] else None,
            adjacent_right_same_direction=ln["adj_right"]["same"] if ln["adj_right"] else None,
            line_marking_left_vertices=enum_by_value(LineMarking, ln["lm_left"]),
            line_marking_right_vertices=enum_by_value(LineMarking, ln["lm_right"]),
            stop_line=sl, lanelet_type={enum_by_value(LaneletType, t) for t in ln["types"]},
            user_one_way={enum_by_value(RoadUser, t) for t in ln["one_way"]},
            user_bidirectional={enum_by_value(RoadUser, t) for t in ln["bidir"]},
            traffic_signs=set() if bp.get("signs_via") == "add_objects" else set(ln["signs"]), traffic_lights=set(ln["lights"])))
    if bp.get("lanelets_via") == "single":
        net = LaneletNetwork()
        for ln in lanelets:
            net.add_lanelet(ln)
    else:
        net = LaneletNetwork.create_from_lanelet_list(lanelets, cleanup_ids=False)
    enum_c = TrafficSignIDCountries[sid["country"]]
    for s in spec["signs"]:
        els = [TrafficSignElement(enum_c[e["id"]], list(e["values"])) for e in s["elements"]]
        first = {ln["id"] for ln in spec["lanelets"] if s["id"] in ln["signs"]}
        net.add_traffic_sign(TrafficSign(s["id"], els, first, _np(s["position"]), s["virtual"]),
                             first if bp.get("signs_via") == "add_objects" else set())
    for t in spec["lights"]:
        cyc = TrafficLightCycle([TrafficLightCycleElement(enum_by_value(TrafficLightState, c), d) for c, d in t["cycle"]],
                                time_offset=t["offset"])
        net.add_traffic_light(TrafficLight(t["id"], _np(t["position"]), cyc, active=t["active"],
                                           direction=enum_by_value(TrafficLightDirection, t["direction"])), set())
    for it in spec["intersections"]:
        incs = [IntersectionIncomingElement(i["id"], set(i["lanelets"]), set(i["right"]), set(i["straight"]), set(i["left"]),
                                            i["left_of"]) for i in it["incomings"]]
        net.add_intersection(Intersection(it["id"], incs, None if it["crossings"] is None else set(it["crossings"])))
    sc.add_objects(net)

    built_obstacles = []
    for o in spec["obstacles"]:
        role = o["role"]
        if role == "static":
            ob = StaticObstacle(o["id"], enum_by_value(ObstacleType, o["type"]), build_shape(o["shape"]),
                                build_state(o["initial_state"]))
        elif role == "environment":
            ob = EnvironmentObstacle(o["id"], enum_by_value(ObstacleType, o["type"]), build_shape(o["shape"]))
        elif role == "phantom":
            ob = PhantomObstacle(o["id"], build_prediction(o["prediction"], None))
        else:
            shape = build_shape(o["shape"])
            ob = DynamicObstacle(o["id"], enum_by_value(ObstacleType, o["type"]), shape, build_state(o["initial_state"]),
                                 build_prediction(o["prediction"], shape),
                                 initial_signal_state=build_signal(o["initial_signal_state"]) if o.get("initial_signal_state") else None,
                                 signal_series=[build_signal(s) for s in o["signal_series"]] if o.get("signal_series") else None,
                                 **_not_xml_kwargs(o, [l["id"] for l in spec["lanelets"]]))
        built_obstacles.append(ob)
    if bp.get("obstacles_via") == "list":
        sc.add_objects(built_obstacles)
    else:
        for ob in built_obstacles:
            sc.add_objects(ob)

    polys = {ln.lanelet_id: ln.polygon for ln in sc.lanelet_network.lanelets}
    pps = []
    for p in spec["pps"]:
        goals = [build_state(g, polys) for g in p["goals"]]
        gl = None if p["goal_lanelets"] is None else {int(k): list(v) for k, v in p["goal_lanelets"].items()}
        pps.append(PlanningProblem(p["id"], build_state(p["initial_state"]), GoalRegion(goals, gl)))
    return sc, PlanningProblemSet(pps)


# ====================================================================================================== histories
# Operations applied to the built objects AFTER construction and BEFORE the observation (write): public setters, in-place
# edits, the same object handed back to its setter, ids re-assigned, remove + add, translate_rotate; and read-only queries.
# An op is JSON data (replayable); `apply_history` interprets it on the real objects.  An op that the library rejects
# (AssertionError etc.) is skipped and reported in the returned log — the observation is whatever state results.

HISTORY_OPS = [
    "reassign_same", "set_initial_state", "set_prediction", "append_state", "update_initial_then_prediction", "state_attr_edit",
    "lanelet_markings", "lanelet_adj", "lanelet_refs", "lanelet_types_users", "lanelet_stop_line", "lanelet_add_remove_ref",
    "lanelet_vertices", "sign_edit", "sign_elements", "light_flags", "light_cycle", "cycle_edit", "incoming_edit", "crossings_edit",
    "scenario_meta", "location_edit", "obstacle_type_shape", "obstacle_id", "signal_edit", "occupancy_edit", "shape_edit",
    "goal_edit", "pp_initial", "pp_id", "remove_add_obstacle", "translate_rotate", "interval_edit", "custom_state_add"]

QUERIES = ["polygons", "occupancies", "find_by_position", "str_repr", "hash_eq", "goal_reached", "obstacle_states", "lanelet_distance",
           "state_attributes", "deepcopy", "light_states", "assign_obstacles"]


def _all_certain(spec):
    """no interval / region valued attribute in any obstacle state and no group-free requirement broken (lanelet assignment and
    translate_rotate need exact states)"""
    def certain(st):
        return all(not (isinstance(v, dict) and ("iv" in v or "aiv" in v or "shape" in v)) for k, v in st["attrs"].items() if k != "time_step")
    for o in spec["obstacles"]:
        if "initial_state" in o and not certain(o["initial_state"]):
            return False
        p = o.get("prediction")
        if p and p["kind"] == "trajectory" and not all(certain(s) for s in p["states"]):
            return False
    return True


class HistoryGen:
    """Generates a plan (alternative entry points, reuse, failing first call), a history and queries for one spec."""

    def __init__(self, gen):
        self.g = gen
        self.r = gen.r

    def plan(self, spec):
        g, r = self.g, self.r
        certain = _all_certain(spec)
        plan = {
            "build": {"signs_via": g.every("signs-via", ["ctor", "add_objects", "ctor"]),
                      "obstacles_via": g.every("obstacles-via", ["single", "list", "single"]),
                      "lanelets_via": g.every("lanelets-via", ["network", "network", "single"]),
                      "numpy_scalars": g.flip(0.25), "ints_for_reals": g.flip(0.15)},
            "writer": {"entry": g.every("writer-entry", ["facade", "facade", "xml"]),
                       "method": g.every("writer-method", ["write_to_file", "write_to_file", "write_to_file", "scenario_only"]),
                       "check_validity": g.every("check-validity", [False, False, True]),
                       "filename": g.every("filename", ["str", "str", "path", "default"]),
                       "reuse": g.every("writer-reuse", ["none", "none", "twice", "fail-first", "other-writer-after", "existing-file",
                                                         "other-writer-between"]),
                       "overrides": None},
            "reader": {"entry": g.every("reader-entry", ["facade", "facade", "facade-format", "xml", "bytes"]),
                       "method": g.every("reader-method", ["open", "open", "open-twice", "open-assign", "network-only", "open-after-other"])},
            "history": [], "queries": []}
        if g.every("overrides", ["none", "none", "some", "all"]) != "none":
            ov = {}
            for k, v in (("author", "O. Verride"), ("affiliation", "Other Inst."), ("source", "override-src")):
                if g.flip(0.7):
                    ov[k] = v
            if g.flip(0.7):
                ov["tags"] = sorted({g.every("tag", g.X["tag"]) for _ in range(r.randint(0, 3))})
            if g.flip(0.6):
                ov["location"] = g.location()
            plan["writer"]["overrides"] = ov or {"author": "O. Verride"}
        if plan["reader"]["method"] == "open-assign" and not certain:
            plan["reader"]["method"] = "open"
        n = r.choice([0, 0, 1, 2, 3, 5])
        for _ in range(n):
            op = self.op(spec, g.every("history-op", HISTORY_OPS), certain)
            if op is not None:
                plan["history"].append(op)
        for _ in range(r.choice([0, 0, 1, 2, 4])):
            plan["queries"].append(g.every("query", QUERIES))
        return plan

    # -------------------------------------------------------------------------------------------- one operation
    def op(self, spec, kind, certain):
        g, r = self.g, self.r
        obs = spec["obstacles"]
        dyn = [o for o in obs if o["role"] == "dynamic"]
        traj = [o for o in dyn if o["prediction"]["kind"] == "trajectory"]
        setb = [o for o in obs if o.get("prediction") and o["prediction"]["kind"] == "set"]
        withinit = [o for o in obs if "initial_state" in o]
        withshape = [o for o in obs if "shape" in o]
        lanelets, lids = spec["lanelets"], [l["id"] for l in spec["lanelets"]]
        X = g.X
        pick = lambda l: r.choice(l) if l else None
        if kind == "reassign_same":
            cands = []
            for o in obs:
                for a in ("initial_state", "prediction", "signal_series", "obstacle_shape", "obstacle_type", "initial_signal_state"):
                    if (a == "obstacle_shape" and "shape" in o) or (a == "obstacle_type" and "type" in o) or (a in o and o[a] is not None) \
                            or (a == "prediction" and o.get("prediction")):
                        if o["role"] in ("static", "environment") and a in ("prediction", "signal_series", "initial_signal_state"):
                            continue
                        if o["role"] == "environment" and a == "initial_state":
                            continue
                        if o["role"] == "phantom" and a != "prediction":
                            continue
                        cands.append({"target": "obstacle", "id": o["id"], "attr": a})
            for ln in lanelets:
                for a in ("predecessor", "successor", "lanelet_type", "user_one_way", "user_bidirectional", "traffic_signs", "traffic_lights",
                          "left_vertices", "right_vertices", "line_marking_left_vertices", "adj_left", "stop_line"):
                    if a == "stop_line" and not ln["stop_line"]:
                        continue
                    if a == "adj_left" and not ln["adj_left"]:
                        continue
                    cands.append({"target": "lanelet", "id": ln["id"], "attr": a})
            for s in spec["signs"]:
                for a in ("traffic_sign_elements", "position", "virtual", "first_occurrence"):
                    cands.append({"target": "sign", "id": s["id"], "attr": a})
            for t in spec["lights"]:
                for a in ("traffic_light_cycle", "position", "active", "direction", "color"):
                    cands.append({"target": "light", "id": t["id"], "attr": a})
                cands.append({"target": "cycle", "id": t["id"], "attr": r.choice(["cycle_elements", "time_offset"])})
            for p in spec["pps"]:
                for a in ("initial_state", "goal"):
                    cands.append({"target": "pp", "id": p["id"], "attr": a})
                cands.append({"target": "goal", "id": p["id"], "attr": r.choice(["state_list", "lanelets_of_goal_position"])})
            for it in spec["intersections"]:
                cands.append({"target": "intersection", "id": it["id"], "attr": r.choice(["incomings", "crossings"])})
            c = pick(cands)
            return c and dict(op=kind, **c)
        if kind == "set_initial_state" and withinit:
            o = pick(withinit)
            return {"op": kind, "id": o["id"], "state": g.initial_state(certain=True)}
        if kind == "set_prediction" and dyn:
            o = pick(dyn)
            grp = o["shape"]["k"] == "group"
            if g.flip():
                p = {"kind": "trajectory", "states": g.trajectory_states(certain=True if grp else g.flip())}
            else:
                p = {"kind": "set", "occupancies": g.occupancies()}
            return {"op": kind, "id": o["id"], "prediction": p}
        if kind == "append_state" and traj:
            o = pick(traj)
            return {"op": kind, "id": o["id"], "gap": r.choice([1, 1, 2, 5]), "n": r.choice([1, 2])}
        if kind == "update_initial_then_prediction" and dyn:
            o = pick(dyn)
            return {"op": kind, "id": o["id"], "state": g.initial_state(certain=True),
                    "signal": g.signal_state(0) if g.flip() else None,
                    "prediction": {"kind": "set", "occupancies": g.occupancies()}}
        if kind == "state_attr_edit" and traj:
            o = pick(traj)
            names = [k for k, v in o["prediction"]["states"][0]["attrs"].items() if k not in ("time_step", "position", "orientation")]
            if not names:
                return None
            return {"op": kind, "id": o["id"], "attr": r.choice(names), "values": [g.real(-60, 60) for _ in o["prediction"]["states"]],
                    "extra": 4}
        if kind == "lanelet_markings":
            return {"op": kind, "id": pick(lids), "left": g.every("lineMarking", X["lineMarking"]), "right": r.choice(X["lineMarking"])}
        if kind == "lanelet_adj" and len(lids) > 1:
            lid = pick(lids)
            oth = [i for i in lids if i != lid]
            return {"op": kind, "id": lid, "side": r.choice(["left", "right"]), "ref": r.choice(oth), "same": g.flip()}
        if kind == "lanelet_refs":
            lid = pick(lids)
            oth = [i for i in lids if i != lid]
            l = g.subset(oth, 0.6)
            if l and g.flip(0.3):
                l = l + [l[0]]          # a repeated reference
            return {"op": kind, "id": lid, "which": r.choice(["predecessor", "successor"]), "refs": l}
        if kind == "lanelet_types_users":
            return {"op": kind, "id": pick(lids), "types": sorted({g.every("laneletType", X["laneletType"]) for _ in range(r.randint(1, 3))}),
                    "one_way": sorted({r.choice(X["vehicleType"]) for _ in range(r.randint(0, 3))}),
                    "bidir": sorted({r.choice(X["vehicleType"]) for _ in range(r.randint(0, 2))})}
        if kind == "lanelet_stop_line":
            ln = pick(lanelets)
            sids, tids = [s["id"] for s in spec["signs"]], [t["id"] for t in spec["lights"]]
            sl = {"start": g.point(ln["left"][-1][:2], 1.0), "end": g.point(ln["right"][-1][:2], 1.0),
                  "line_marking": g.every("lineMarking-stop", X["lineMarking"]),
                  "sign_refs": sorted(set(g.subset(sids, 0.7))) or None, "light_refs": sorted(set(g.subset(tids, 0.7))) or None}
            return {"op": kind, "id": ln["id"], "stop_line": sl if (g.flip(0.8) or not ln["stop_line"]) else None,
                    "in_place": bool(ln["stop_line"]) and g.flip()}
        if kind == "lanelet_add_remove_ref":
            lid = pick(lids)
            oth = [i for i in lids if i != lid]
            tids = [t["id"] for t in spec["lights"]]
            return {"op": kind, "id": lid, "add_pred": pick(oth), "add_succ": pick(oth), "remove_first_pred": g.flip(),
                    "add_light": pick(tids), "add_sign": pick([s["id"] for s in spec["signs"]])}
        if kind == "lanelet_vertices":
            ln = pick(lanelets)
            if len(ln["left"][0]) > 2:
                return None
            d = [g.real(-0.2, 0.2) for _ in ln["left"]]
            return {"op": kind, "id": ln["id"], "left": [[p[0], p[1] + e] for p, e in zip(ln["left"], d)],
                    "right": [[p[0], p[1] - abs(e)] for p, e in zip(ln["right"], d)]}
        if kind == "sign_edit" and spec["signs"]:
            s = pick(spec["signs"])
            return {"op": kind, "id": s["id"], "virtual": g.flip(), "position": g.point(spread=200.0)}
        if kind == "sign_elements" and spec["signs"]:
            from commonroad.scenario.traffic_sign import TrafficSignIDCountries
            c = spec["scenario_id"]["country"]
            members = [m.name for m in TrafficSignIDCountries[c] if m.value in X["trafficSignID"]]
            s = pick(spec["signs"])
            els = [{"id": g.every("sign:" + c, members), "values": [r.choice(["30", "7.5", "a b"]) for _ in range(r.choice([0, 1, 2]))]}
                   for _ in range(r.choice([1, 2]))]
            return {"op": kind, "id": s["id"], "elements": els, "in_place": g.flip()}
        if kind == "light_flags" and spec["lights"]:
            t = pick(spec["lights"])
            return {"op": kind, "id": t["id"], "active": g.flip(), "direction": g.every("direction", X["direction"]),
                    "position": g.point(spread=200.0)}
        if kind == "light_cycle" and spec["lights"]:
            t = pick(spec["lights"])
            cyc = [[g.every("trafficLightColor", X["trafficLightColor"]), r.randint(1, 60)] for _ in range(r.choice([1, 2, 3]))]
            return {"op": kind, "id": t["id"], "cycle": cyc, "offset": r.choice([0, 1, 9]), "cycle_active": g.flip()}
        if kind == "cycle_edit" and spec["lights"]:
            t = pick(spec["lights"])
            return {"op": kind, "id": t["id"], "offset": r.choice([0, 0, 1, 4, 50]), "durations": [r.randint(1, 99) for _ in t["cycle"]],
                    "append": [g.every("trafficLightColor", X["trafficLightColor"]), r.randint(1, 9)] if g.flip() else None}
        if kind == "incoming_edit" and spec["intersections"]:
            it = pick(spec["intersections"])
            inc = pick(it["incomings"])
            oth = [i["id"] for i in it["incomings"] if i["id"] != inc["id"]]
            return {"op": kind, "id": it["id"], "incoming": inc["id"], "lanelets": sorted(set(g.subset(lids, 0.5) or [r.choice(lids)])),
                    "left": sorted(set(g.subset(lids, 0.4))), "left_of": pick(oth + [None])}
        if kind == "crossings_edit" and spec["intersections"]:
            it = pick(spec["intersections"])
            return {"op": kind, "id": it["id"], "crossings": sorted(set(g.subset(lids, 0.5))) or None}
        if kind == "scenario_meta":
            return {"op": kind, "author": r.choice(["B. Nother", None]), "affiliation": r.choice(["Lab 2", None]),
                    "source": r.choice(["recorded", None]),
                    "tags": sorted({g.every("tag", X["tag"]) for _ in range(r.randint(0, 3))}) if g.flip() else None,
                    "dt": r.choice([None, 0.5, 0.02]), "location": g.location() if g.flip() else None}
        if kind == "location_edit" and spec["location"]:
            return {"op": kind, "lat": g.real(-90, 90), "lon": g.real(-180, 180), "geo_name_id": r.randint(1, 10 ** 6),
                    "env_minutes": r.randint(0, 59) if spec["location"]["env"] else None,
                    "geo_x": g.real() if spec["location"]["geo"] else None}
        if kind == "obstacle_type_shape" and withshape:
            o = pick(withshape)
            types = {"static": X["obstacleTypeStatic"], "dynamic": X["obstacleTypeDynamic"], "environment": X["obstacleTypeEnvironment"]}[o["role"]]
            certain_states = o["role"] != "dynamic" or (_all_certain({"obstacles": [o]}))
            shape = g.shape(centred=g.flip(), p_group=0.2 if certain_states else 0.0) if g.flip(0.6) else None
            return {"op": kind, "id": o["id"], "type": r.choice(types), "shape": shape}
        if kind == "obstacle_id" and obs:
            o = pick(obs)
            return {"op": kind, "id": o["id"], "new": g.new_id()}
        if kind == "signal_edit" and dyn:
            o = pick(dyn)
            ser, t = [], 1
            for _ in range(r.randint(0, 3)):
                ser.append(g.signal_state(t))
                t += r.choice([1, 2])
            return {"op": kind, "id": o["id"], "initial": g.signal_state(0) if g.flip(0.7) else None, "series": ser or None}
        if kind == "occupancy_edit" and setb:
            o = pick(setb)
            return {"op": kind, "id": o["id"], "shape": g.shape(p_group=0.2), "bump": r.choice([0, 1, 3]),
                    "replace_all": g.occupancies() if g.flip(0.4) else None}
        if kind == "shape_edit" and withshape:
            o = pick(withshape)
            return {"op": kind, "id": o["id"], "length": g.pos_len(), "width": g.pos_len(), "radius": g.pos_len(),
                    "center": g.point() if (o["role"] != "dynamic" or g.flip()) else [0.0, 0.0], "orientation": g.angle()}
        if kind == "goal_edit":
            p = pick(spec["pps"])
            a0 = r.randint(0, 30)
            st = {"cls": "CustomState", "attrs": {"time_step": {"iv": [a0, a0 + r.choice([1, 5, 40])]}, "velocity": g.interval(0, 40)}}
            return {"op": kind, "id": p["id"], "append": st, "drop_lanelets": g.flip(0.3)}
        if kind == "pp_initial":
            p = pick(spec["pps"])
            return {"op": kind, "id": p["id"], "state": g.initial_state(exact_only=True, planning=True)}
        if kind == "pp_id":
            p = pick(spec["pps"])
            return {"op": kind, "id": p["id"], "new": g.new_id()}
        if kind == "remove_add_obstacle" and obs:
            return {"op": kind, "id": pick(obs)["id"]}
        if kind == "translate_rotate" and certain and not any(len(l["left"][0]) > 2 for l in lanelets):
            return {"op": kind, "t": [g.real(-30, 30), g.real(-30, 30)], "angle": g.bounded(-3.0, 3.0)}
        if kind == "interval_edit" and traj:
            o = pick(traj)
            return {"op": kind, "id": o["id"], "shift": r.choice([0.125, -2.5, 1e-6])}
        if kind == "custom_state_add" and traj:
            o = pick(traj)
            if o["prediction"]["states"][0]["cls"] != "CustomState":
                return None
            have = set(o["prediction"]["states"][0]["attrs"])
            free = [a for a in STATE_XSD_ATTRS if a not in have]
            return {"op": kind, "id": o["id"], "attr": r.choice(free), "values": [g.real(-9, 9) for _ in o["prediction"]["states"]]}
        return None


def _find(sc, pps, target, i):
    net = sc.lanelet_network
    if target == "obstacle":
        for o in sc.obstacles:
            if o.obstacle_id == i:
                return o
    if target == "lanelet":
        return net.find_lanelet_by_id(i)
    if target == "sign":
        return net.find_traffic_sign_by_id(i)
    if target in ("light", "cycle"):
        t = net.find_traffic_light_by_id(i)
        return t.traffic_light_cycle if target == "cycle" else t
    if target in ("pp", "goal"):
        for p in pps.planning_problem_dict.values():
            if p.planning_problem_id == i:
                return p.goal if target == "goal" else p
    if target == "intersection":
        return net.find_intersection_by_id(i)
    return None


def apply_history(sc, pps, ops, country="ZAM"):
    """Apply the history ops in order through the public setters / mutators. Returns a log [(op, 'ok' | 'skipped: ...')]."""
    import numpy as np
    from commonroad.common.common_lanelet import LaneletType, LineMarking, RoadUser, StopLine
    from commonroad.common.util import Interval, Time
    from commonroad.geometry.shape import Circle, Rectangle, ShapeGroup
    from commonroad.prediction.prediction import Occupancy, SetBasedPrediction, TrajectoryPrediction
    from commonroad.scenario.obstacle import DynamicObstacle, ObstacleType
    from commonroad.scenario.scenario import Tag
    from commonroad.scenario.traffic_light import TrafficLightCycle, TrafficLightCycleElement, TrafficLightDirection, TrafficLightState
    from commonroad.scenario.traffic_sign import TrafficSignElement, TrafficSignIDCountries
    log = []
    net = sc.lanelet_network
    for op in ops:
        k = op["op"]
        try:
            if k == "reassign_same":
                obj = _find(sc, pps, op["target"], op["id"])
                setattr(obj, op["attr"], getattr(obj, op["attr"]))
            elif k == "set_initial_state":
                _find(sc, pps, "obstacle", op["id"]).initial_state = build_state(op["state"])
            elif k == "set_prediction":
                o = _find(sc, pps, "obstacle", op["id"])
                o.prediction = build_prediction(op["prediction"], o.obstacle_shape)
            elif k == "append_state":
                o = _find(sc, pps, "obstacle", op["id"])
                tr = o.prediction.trajectory
                import copy
                for _ in range(op["n"]):
                    st = copy.deepcopy(tr.final_state)
                    st.time_step = int(st.time_step) + op["gap"]
                    tr.append_state(st)
            elif k == "update_initial_then_prediction":
                o = _find(sc, pps, "obstacle", op["id"])
                o.update_initial_state(build_state(op["state"]), build_signal(op["signal"]) if op["signal"] else None)
                o.update_prediction(build_prediction(op["prediction"], o.obstacle_shape))
            elif k == "state_attr_edit":
                o = _find(sc, pps, "obstacle", op["id"])
                for st, v in zip(o.prediction.trajectory.state_list, op["values"] + [op["values"][-1]] * op["extra"]):
                    setattr(st, op["attr"], v)
            elif k == "lanelet_markings":
                ln = net.find_lanelet_by_id(op["id"])
                ln.line_marking_left_vertices = enum_by_value(LineMarking, op["left"])
                ln.line_marking_right_vertices = enum_by_value(LineMarking, op["right"])
            elif k == "lanelet_adj":
                ln = net.find_lanelet_by_id(op["id"])
                if op["side"] == "left":
                    ln.adj_left = op["ref"]
                    ln.adj_left_same_direction = op["same"] if op["ref"] is not None else None
                else:
                    ln.adj_right = op["ref"]
                    ln.adj_right_same_direction = op["same"] if op["ref"] is not None else None
            elif k == "lanelet_refs":
                setattr(net.find_lanelet_by_id(op["id"]), op["which"], list(op["refs"]))
            elif k == "lanelet_types_users":
                ln = net.find_lanelet_by_id(op["id"])
                ln.lanelet_type = {enum_by_value(LaneletType, t) for t in op["types"]}
                ln.user_one_way = {enum_by_value(RoadUser, t) for t in op["one_way"]}
                ln.user_bidirectional = {enum_by_value(RoadUser, t) for t in op["bidir"]}
            elif k == "lanelet_stop_line":
                ln = net.find_lanelet_by_id(op["id"])
                s = op["stop_line"]
                if s is None:
                    ln.stop_line = None
                elif op["in_place"] and ln.stop_line is not None:
                    sl = ln.stop_line
                    sl.start, sl.end = _np(s["start"]), _np(s["end"])
                    sl.line_marking = enum_by_value(LineMarking, s["line_marking"])
                    sl.traffic_sign_ref = None if s["sign_refs"] is None else set(s["sign_refs"])
                    sl.traffic_light_ref = None if s["light_refs"] is None else set(s["light_refs"])
                else:
                    ln.stop_line = StopLine(_np(s["start"]), _np(s["end"]), enum_by_value(LineMarking, s["line_marking"]),
                                            None if s["sign_refs"] is None else set(s["sign_refs"]),
                                            None if s["light_refs"] is None else set(s["light_refs"]))
            elif k == "lanelet_add_remove_ref":
                ln = net.find_lanelet_by_id(op["id"])
                if op["remove_first_pred"] and ln.predecessor:
                    ln.remove_predecessor(ln.predecessor[0])
                if op["add_pred"] is not None:
                    ln.add_predecessor(op["add_pred"])
                if op["add_succ"] is not None:
                    ln.add_successor(op["add_succ"])
                if op["add_light"] is not None:
                    ln.add_traffic_light_to_lanelet(op["add_light"])
                if op["add_sign"] is not None:
                    ln.add_traffic_sign_to_lanelet(op["add_sign"])
            elif k == "lanelet_vertices":
                ln = net.find_lanelet_by_id(op["id"])
                ln.left_vertices, ln.right_vertices = _np(op["left"]), _np(op["right"])
                ln.center_vertices = 0.5 * (ln.left_vertices + ln.right_vertices)
            elif k == "sign_edit":
                s = net.find_traffic_sign_by_id(op["id"])
                s.virtual, s.position = op["virtual"], _np(op["position"])
            elif k == "sign_elements":
                s = net.find_traffic_sign_by_id(op["id"])
                els = [TrafficSignElement(TrafficSignIDCountries[country][e["id"]], list(e["values"])) for e in op["elements"]]
                if op["in_place"]:
                    s.traffic_sign_elements.clear()
                    s.traffic_sign_elements.extend(els)
                else:
                    s.traffic_sign_elements = els
            elif k == "light_flags":
                t = net.find_traffic_light_by_id(op["id"])
                t.active, t.position = op["active"], _np(op["position"])
                t.direction = enum_by_value(TrafficLightDirection, op["direction"])
            elif k == "light_cycle":
                t = net.find_traffic_light_by_id(op["id"])
                t.traffic_light_cycle = TrafficLightCycle(
                    [TrafficLightCycleElement(enum_by_value(TrafficLightState, c), d) for c, d in op["cycle"]], op["offset"], op["cycle_active"])
            elif k == "cycle_edit":
                c = net.find_traffic_light_by_id(op["id"]).traffic_light_cycle
                c.time_offset = op["offset"]
                for e, d in zip(c.cycle_elements, op["durations"]):
                    e.duration = d
                if op["append"]:
                    c.cycle_elements = list(c.cycle_elements) + [TrafficLightCycleElement(enum_by_value(TrafficLightState, op["append"][0]), op["append"][1])]
            elif k == "incoming_edit":
                it = net.find_intersection_by_id(op["id"])
                inc = [i for i in it.incomings if i.incoming_id == op["incoming"]][0]
                inc.incoming_lanelets, inc.successors_left, inc.left_of = set(op["lanelets"]), set(op["left"]), op["left_of"]
            elif k == "crossings_edit":
                net.find_intersection_by_id(op["id"]).crossings = None if op["crossings"] is None else set(op["crossings"])
            elif k == "scenario_meta":
                for a in ("author", "affiliation", "source"):
                    if op[a] is not None:
                        setattr(sc, a, op[a])
                if op["tags"] is not None:
                    sc.tags = {enum_by_value(Tag, t) for t in op["tags"]}
                if op["dt"] is not None:
                    sc.dt = op["dt"]
                if op["location"] is not None:
                    sc.location = build_location(op["location"])
            elif k == "location_edit":
                loc = sc.location
                loc.gps_latitude, loc.gps_longitude, loc.geo_name_id = op["lat"], op["lon"], op["geo_name_id"]
                if op["env_minutes"] is not None and loc.environment is not None:
                    loc.environment.time = Time(loc.environment.time.hours, op["env_minutes"])
                if op["geo_x"] is not None and loc.geo_transformation is not None:
                    loc.geo_transformation.x_translation = op["geo_x"]
            elif k == "obstacle_type_shape":
                o = _find(sc, pps, "obstacle", op["id"])
                o.obstacle_type = enum_by_value(ObstacleType, op["type"])
                if op["shape"] is not None:
                    o.obstacle_shape = build_shape(op["shape"])
                    if isinstance(o, DynamicObstacle) and isinstance(o.prediction, TrajectoryPrediction):
                        o.prediction.shape = o.obstacle_shape
            elif k == "obstacle_id":
                _find(sc, pps, "obstacle", op["id"]).obstacle_id = op["new"]
            elif k == "signal_edit":
                o = _find(sc, pps, "obstacle", op["id"])
                o.initial_signal_state = build_signal(op["initial"]) if op["initial"] else None
                o.signal_series = [build_signal(s) for s in op["series"]] if op["series"] else None
            elif k == "occupancy_edit":
                p = _find(sc, pps, "obstacle", op["id"]).prediction
                if op["replace_all"] is not None:
                    p.occupancy_set = [Occupancy(build_value(x["time"]), build_shape(x["shape"])) for x in op["replace_all"]]
                else:
                    oc = p.occupancy_set[-1]
                    oc.shape = build_shape(op["shape"])
                    if not isinstance(oc.time_step, Interval):
                        oc.time_step = int(oc.time_step) + op["bump"]
            elif k == "shape_edit":
                o = _find(sc, pps, "obstacle", op["id"])
                sh = o.obstacle_shape
                sh = sh.shapes[0] if isinstance(sh, ShapeGroup) else sh
                if isinstance(sh, Rectangle):
                    sh.length, sh.width, sh.center, sh.orientation = op["length"], op["width"], _np(op["center"]), op["orientation"]
                elif isinstance(sh, Circle):
                    sh.radius, sh.center = op["radius"], _np(op["center"])
            elif k == "goal_edit":
                g = _find(sc, pps, "goal", op["id"])
                g.state_list = list(g.state_list) + [build_state(op["append"])]
                if op["drop_lanelets"] and g.lanelets_of_goal_position:
                    g.lanelets_of_goal_position = None
            elif k == "pp_initial":
                _find(sc, pps, "pp", op["id"]).initial_state = build_state(op["state"])
            elif k == "pp_id":
                _find(sc, pps, "pp", op["id"]).planning_problem_id = op["new"]
            elif k == "remove_add_obstacle":
                o = _find(sc, pps, "obstacle", op["id"])
                sc.remove_obstacle(o)
                sc.add_objects(o)
            elif k == "translate_rotate":
                sc.translate_rotate(_np(op["t"]), op["angle"])
                pps.translate_rotate(_np(op["t"]), op["angle"])
            elif k == "interval_edit":
                o = _find(sc, pps, "obstacle", op["id"])
                for st in o.prediction.trajectory.state_list:
                    for a in st.used_attributes:
                        v = getattr(st, a)
                        if isinstance(v, Interval) and a not in ("time_step", "orientation"):
                            v.end = v.end + abs(op["shift"])
                            v.start = v.start + op["shift"] if op["shift"] < 0 else v.start
            elif k == "custom_state_add":
                o = _find(sc, pps, "obstacle", op["id"])
                for st, v in zip(o.prediction.trajectory.state_list, op["values"] + [op["values"][-1]] * 8):
                    st.add_attribute(op["attr"])
                    st.set_value(op["attr"], v)
            else:
                raise KeyError(k)
            log.append((k, "ok"))
        except Exception as e:  # noqa: the library refused the edit (or left a partial one): the resulting state is the input
            log.append((k, f"skipped: {type(e).__name__}"))
    return log


def build_location(L):
    from commonroad.common.util import Time
    from commonroad.scenario.scenario import Environment, GeoTransformation, Location, TimeOfDay, Underground, Weather
    geo = env = None
    if L["geo"] is not None:
        geo = GeoTransformation(L["geo"]["ref"], L["geo"]["x"], L["geo"]["y"], L["geo"]["rot"], L["geo"]["scaling"])
    if L["env"] is not None:
        env = Environment(Time(L["env"]["h"], L["env"]["m"]), enum_by_value(TimeOfDay, L["env"]["time_of_day"]),
                          enum_by_value(Weather, L["env"]["weather"]), enum_by_value(Underground, L["env"]["underground"]))
    return Location(L["geo_name_id"], L["lat"], L["lon"], geo, env)


def run_queries(sc, pps, queries):
    """Read-only queries before the observation (caches filled, lazily computed attributes materialised)."""
    import copy
    import numpy as np
    log = []
    net = sc.lanelet_network
    for q in queries:
        try:
            if q == "polygons":
                [ln.polygon.shapely_object.area for ln in net.lanelets]
            elif q == "occupancies":
                for t in (0, 1, 2, 5):
                    sc.occupancies_at_time_step(t)
                    for o in sc.obstacles:
                        o.occupancy_at_time(t)
            elif q == "find_by_position":
                net.find_lanelet_by_position([np.array([0.0, 0.0]), np.array([5.0, 1.0])])
            elif q == "str_repr":
                [(str(x), repr(x)) for x in list(net.lanelets) + list(net.traffic_signs) + list(net.traffic_lights) + list(sc.obstacles)]
            elif q == "hash_eq":
                for x in list(net.traffic_signs) + list(net.traffic_lights) + list(net.lanelets):
                    x == x
                    try:
                        hash(x)
                    except TypeError:
                        pass
            elif q == "goal_reached":
                for p in pps.planning_problem_dict.values():
                    p.goal.is_reached(p.initial_state)
            elif q == "obstacle_states":
                for t in (0, 1, 3):
                    sc.obstacle_states_at_time_step(t)
                    for o in sc.dynamic_obstacles:
                        o.state_at_time(t)
                        o.signal_state_at_time_step(t)
            elif q == "lanelet_distance":
                [(ln.distance, ln.inner_distance) for ln in net.lanelets]
            elif q == "state_attributes":
                for o in sc.dynamic_obstacles + sc.static_obstacles:
                    o.initial_state.attributes, o.initial_state.used_attributes
            elif q == "deepcopy":
                copy.deepcopy(sc) == sc
            elif q == "light_states":
                for t in net.traffic_lights:
                    for k in (0, 1, 7):
                        t.get_state_at_time_step(k)
            elif q == "assign_obstacles":
                sc.assign_obstacles_to_lanelets()
            log.append((q, "ok"))
        except Exception as e:  # noqa
            log.append((q, f"raised: {type(e).__name__}"))
    return log
