"""Reusable generator of CommonRoad scenarios x planning-problem sets (used by C01; meant for C02, C03, C15, C18 too).

A case is a JSON-able *spec* (pure data, replayable); `build(spec)` turns it into `(Scenario, PlanningProblemSet)` through
the public constructors of the working tree under test.  With `strict_xsd=True` (default) the spec only uses what the 2020a XML
schema can express:

* ids >= 1, unique over lanelets / signs / lights / intersections / incomings / obstacles / planning problems;
* every member of every enumeration the XSD lists (line markings, lanelet types, road users, obstacle types per role, traffic
  light colours and directions, traffic sign ids of the scenario's country that the XSD lists, tags, time of day / weather /
  underground) is visited round-robin (`Gen.every`), so a run of a few hundred scenarios covers all of them;
* lanelets with >= 2 vertices per bound, >= 1 lanelet type, references only to existing ids, stop lines with explicit points;
* traffic signs referenced by a lanelet, explicit sign / light positions, non-empty cycles;
* obstacle roles static / dynamic / environment / phantom; shapes rectangle / circle / polygon / group (groups have >= 2 members);
* initial states: `InitialState`, time 0, position + orientation always, the other four attributes present / absent;
  trajectory states of every state class the schema can express (InitialState, ExtendedPMState, KSState, STState, MBState,
  CustomState over schema element names, and partially populated ones), time >= 1, exact / interval values, point / region positions;
* occupancy sets with exact / interval times; signal states with every subset of the six signals, booleans both ways;
* planning problems: exact initial state (yaw rate + slip angle present, acceleration optional), >= 1 goal state with interval
  time and optional region / lanelet position, orientation interval, velocity interval.

Real numbers are drawn from several classes (dyadic grid, many-digit decimals, short decimals, tiny values whose repr uses
exponent notation, large values, integers given as floats).  `strict_xsd=False` additionally uses state classes and values the
Python API accepts but the XML schema cannot express (PMState, KSTState, STDState, input states ...), for the other formats.

All randomness comes from the `random.Random` passed in.
"""
from __future__ import annotations

import math
import os

TWO_PI = 2 * math.pi

# python attribute name -> XML element name, for every element of the XSD `state` type
STATE_XSD_ATTRS = [
    "velocity", "acceleration", "yaw_rate", "slip_angle", "steering_angle", "roll_angle", "roll_rate", "pitch_angle",
    "pitch_rate", "velocity_y", "position_z", "velocity_z", "roll_angle_front", "roll_rate_front", "velocity_y_front",
    "position_z_front", "velocity_z_front", "roll_angle_rear", "roll_rate_rear", "velocity_y_rear", "position_z_rear",
    "velocity_z_rear", "left_front_wheel_angular_speed", "right_front_wheel_angular_speed", "left_rear_wheel_angular_speed",
    "right_rear_wheel_angular_speed", "delta_y_f", "delta_y_r", "curvature", "curvature_rate", "jerk", "jounce"]

STATE_CLASSES_XSD = ["InitialState", "ExtendedPMState", "KSState", "STState", "MBState", "CustomState"]
STATE_CLASSES_API_ONLY = ["PMState", "KSTState", "STDState"]

SIGNALS = ["horn", "indicator_left", "indicator_right", "braking_lights", "hazard_warning_lights", "flashing_blue_lights"]

_XSD_CACHE = {}


def xsd_enums(repo=None):
    """{simpleType / element name: [enumeration values]} parsed from the 2020a XSD of the tree under test."""
    if repo is None:
        import commonroad
        repo = os.path.dirname(os.path.dirname(os.path.abspath(commonroad.__file__)))
    if repo in _XSD_CACHE:
        return _XSD_CACHE[repo]
    from lxml import etree
    path = os.path.join(repo, "commonroad", "scenario_definition", "xml_definition_files", "XML_commonRoad_XSD.xsd")
    t = etree.parse(path)
    xs = "{http://www.w3.org/2001/XMLSchema}"
    out = {}
    for st in t.iter(xs + "restriction"):
        vals = [e.get("value") for e in st.findall(xs + "enumeration")]
        if vals:
            p = st.getparent()
            out[p.get("name") or p.getparent().get("name")] = vals
    # the 28 tags are elements of complexType "tag"
    for ct in t.iter(xs + "complexType"):
        if ct.get("name") == "tag":
            out["tag"] = [e.get("name") for e in ct.iter(xs + "element")]
    _XSD_CACHE[repo] = out
    return out


def state_class_attrs():
    """{class name: [attribute names in dataclass order, without time_step]} from the tree under test."""
    import dataclasses
    from commonroad.scenario import state as S
    out = {}
    for name in STATE_CLASSES_XSD + STATE_CLASSES_API_ONLY:
        if name == "CustomState":
            continue
        cls = getattr(S, name)
        out[name] = [f.name for f in dataclasses.fields(cls) if f.name != "time_step"]
    return out


class Gen:
    def __init__(self, rng, strict_xsd=True, max_lanelets=6, max_obstacles=5, max_states=8, three_d=0.0):
        self.r = rng
        self.strict = strict_xsd
        self.three_d = three_d   # share of specs whose lanelet bounds and planning-problem start positions carry a z coordinate
        self.max_lanelets, self.max_obstacles, self.max_states = max_lanelets, max_obstacles, max_states
        self.X = xsd_enums()
        self.rr = {}
        self.calls = {}
        self.cls_attrs = state_class_attrs()
        self._next_id = 0

    # ------------------------------------------------------------------ choice helpers
    def every(self, name, members):
        """Round-robin over `members` (random start): every member is produced once per len(members) calls."""
        members = list(members)
        if name not in self.rr:
            self.rr[name] = self.r.randrange(len(members))
            self.calls[name] = [0, len(members)]
        k = self.rr[name]
        self.rr[name] = k + 1
        self.calls[name][0] += 1
        return members[k % len(members)]

    def fully_visited(self):
        """names of the round-robin choices every member of which has been produced at least once"""
        return sorted(n for n, (c, m) in self.calls.items() if c >= m)

    def flip(self, p=0.5):
        return self.r.random() < p

    def new_id(self):
        # ids >= 1; the very first id of a scenario is 1 in one scenario out of three (boundary)
        if self._next_id == 0:
            self._next_id = 1 if self.flip(0.34) else self.r.randint(1, 5000)
        else:
            self._next_id += self.r.choice([1, 1, 1, 2, 7, 100])
        return self._next_id

    # ------------------------------------------------------------------ numbers
    def real(self, lo=-100.0, hi=100.0):
        r = self.r
        k = r.random()
        if k < 0.22:
            return r.randint(int(lo * 16), int(hi * 16)) / 16.0
        if k < 0.52:
            return r.uniform(lo, hi)
        if k < 0.64:
            return round(r.uniform(lo, hi), r.randint(0, 6))
        if k < 0.70:
            return min(hi, max(lo, r.choice([0.0, 1.0, -1.0, 0.5, -0.25, 0.1, -0.1])))
        if k < 0.78:
            v = r.choice([-1, 1]) * r.uniform(1, 9.99) * 10.0 ** -r.randint(5, 13)   # repr uses exponent notation
            return min(hi, max(lo, v))
        if k < 0.84:
            v = r.uniform(lo, hi) * 10.0 ** r.randint(2, 4)
            return v if not self.strict else v   # large magnitudes are expressible
        if k < 0.92:
            return float(r.randint(math.ceil(lo), math.floor(hi)))
        # 15-17 significant digits just below / above a decimal grid point (truncation vs rounding differ)
        base = r.randint(int(lo * 100), int(hi * 100)) / 100.0
        return min(hi, max(lo, base + r.choice([-1, 1]) * r.choice([1e-9, 4.9e-7, 5e-5, 9.99999e-3])))

    def bounded(self, lo, hi):
        """A real guaranteed inside [lo, hi] (angles)."""
        v = self.real(lo, hi)
        return min(hi, max(lo, v))

    def pos_len(self):
        # lengths / radii stay >= 0.2 so that no precision 1..12 can truncate them to zero
        r = self.r
        return r.choice([r.uniform(0.2, 30.0), r.randint(4, 400) / 16.0, round(r.uniform(0.2, 9), r.randint(1, 5)),
                         float(r.randint(1, 20)), 1.8, 4.5])

    def angle(self):
        return self.bounded(-TWO_PI, TWO_PI) if self.flip(0.8) else self.r.choice([0.0, math.pi, -math.pi / 2, 1e-06, -3e-05])

    def point(self, around=None, spread=50.0):
        if around is None:
            return [self.real(-spread, spread), self.real(-spread, spread)]
        return [around[0] + self.real(-spread, spread), around[1] + self.real(-spread, spread)]

    def interval(self, lo=-50.0, hi=50.0):
        a, b = self.real(lo, hi), self.real(lo, hi)
        if a > b:
            a, b = b, a
        return {"iv": [a, b]}

    def angle_interval(self):
        a = self.bounded(-TWO_PI, TWO_PI - 0.01)
        b = min(TWO_PI, a + self.r.uniform(0.0, min(TWO_PI - 0.001, TWO_PI - a)))
        if self.flip(0.1):
            b = a
        return {"aiv": [a, b]}

    def value(self, attr, p_interval=0.3):
        """exact or interval value of a state attribute"""
        if attr == "orientation" or attr.endswith("_angle") and attr in ("slip_angle", "steering_angle"):
            if attr == "orientation":
                return self.angle_interval() if self.flip(p_interval) else self.angle()
        return self.interval() if self.flip(p_interval) else self.real(-60, 60)

    # ------------------------------------------------------------------ shapes
    def rect(self, centred=False):
        s = {"k": "rect", "l": self.pos_len(), "w": self.pos_len()}
        if centred:
            s["c"], s["o"] = [0.0, 0.0], 0.0
        else:
            s["c"], s["o"] = self.point(), self.angle()
        return s

    def circ(self, centred=False):
        return {"k": "circ", "r": self.pos_len(), "c": [0.0, 0.0] if centred else self.point()}

    def poly(self):
        # star-shaped, safely non-degenerate: radius >= 2, >= 3 vertices, angular gaps >= 0.35 rad
        n = self.r.randint(3, 7)
        c = self.point()
        base = sorted(self.r.uniform(0, TWO_PI) for _ in range(n))
        angs = []
        for i in range(n):
            angs.append(i * TWO_PI / n + self.r.uniform(-0.3, 0.3) * (TWO_PI / n))
        ccw = self.flip()
        vs = []
        for a in (angs if ccw else angs[::-1]):
            rad = self.r.uniform(2.0, 9.0)
            vs.append([c[0] + rad * math.cos(a), c[1] + rad * math.sin(a)])
        if self.flip(0.3):
            vs = [[round(x, 3), round(y, 3)] for x, y in vs]
        del base
        return {"k": "poly", "v": vs}

    def single_shape(self, centred=False, kinds=("rect", "circ", "poly")):
        k = self.every("shape-kind", kinds) if self.flip(0.5) else self.r.choice(kinds)
        return {"rect": lambda: self.rect(centred), "circ": lambda: self.circ(centred), "poly": self.poly}[k]()

    def shape(self, centred=False, p_group=0.2, same_kind=False):
        if self.flip(p_group):
            n = self.r.randint(2, 3)
            if same_kind:
                k = self.r.choice(["rect", "circ", "poly"])
                return {"k": "group", "s": [self.single_shape(False, (k,)) for _ in range(n)]}
            return {"k": "group", "s": [self.single_shape(False) for _ in range(n)]}
        return self.single_shape(centred)

    # ------------------------------------------------------------------ states
    def position(self, p_region=0.25):
        # region positions of obstacle states are single shapes (occupancy_shape_from_state rejects groups)
        if self.flip(p_region):
            return {"shape": self.single_shape()}
        return {"pt": self.point()}

    def initial_state(self, exact_only=False, planning=False, certain=False):
        """InitialState: position + orientation + time always; the other four attributes present / absent.
        certain: point position and exact orientation (required when the obstacle shape is a group)."""
        a = {"time_step": 0}
        a["position"] = {"pt": self.point()} if (exact_only or certain) else self.position(0.2)
        a["orientation"] = self.angle() if (exact_only or certain or self.flip(0.75)) else self.angle_interval()
        opt = ["velocity", "acceleration", "yaw_rate", "slip_angle"]
        mode = self.every("init-opt-mode", ["all", "none", "no-acc", "random", "random", "only-late"])
        if planning:
            present = set(opt) if self.flip(0.5) else {"velocity", "yaw_rate", "slip_angle"}
        elif mode == "all":
            present = set(opt)
        elif mode == "none":
            present = set()
        elif mode == "no-acc":
            present = {"velocity", "yaw_rate", "slip_angle"}
        elif mode == "only-late":
            present = set(self.r.sample(["yaw_rate", "slip_angle"], self.r.randint(1, 2)))
        else:
            present = {o for o in opt if self.flip()}
        for o in opt:
            if o in present:
                v = self.real(-40, 40) if (exact_only or self.flip(0.8)) else self.interval()
                if self.flip(0.15):
                    v = self.r.choice([0.25, 0.0, -0.5]) if not isinstance(v, dict) else v
                a[o] = v
        return {"cls": "InitialState", "attrs": a}

    def state_template(self):
        """(class name, ordered attribute names without time_step) for the states of one trajectory."""
        classes = list(STATE_CLASSES_XSD) + ([] if self.strict else STATE_CLASSES_API_ONLY)
        cls = self.every("state-class", classes)
        if cls == "CustomState":
            extra = self.r.sample(STATE_XSD_ATTRS, self.r.randint(0, 4))
            # every element name of the XSD state type is visited round-robin (camelCase mapping of each name)
            extra = [self.every("custom-attr", STATE_XSD_ATTRS) for _ in range(self.r.randint(1, 3))] + extra[:3]
            seen, names = set(), []
            for n in ["position", "orientation"] + extra:
                if n not in seen:
                    seen.add(n)
                    names.append(n)
            if self.flip(0.5):
                self.r.shuffle(names)
            return cls, names
        names = list(self.cls_attrs[cls])
        if self.flip(0.2):   # partially populated state of a specific class (position / orientation stay)
            keep = [n for n in names if n in ("position", "orientation") or self.flip(0.6)]
            names = keep
        return cls, names

    def trajectory_states(self, certain=False):
        cls, names = self.state_template()
        n = self.r.choice([1, 1, 2, 3, self.r.randint(1, self.max_states)])
        t0 = self.r.choice([1, 1, 1, 2, 5, self.r.randint(1, 40)])
        p_iv = self.r.choice([0.0, 0.0, 0.3, 1.0])
        p_reg = self.r.choice([0.0, 0.0, 0.3, 1.0])
        p_oiv = 0.0 if certain else p_iv
        if certain:
            p_reg = 0.0
        out = []
        c = self.point()
        # time steps: consecutive, or (one trajectory in three) with gaps — `Trajectory` only requires that the first state is
        # at the initial time step and that time steps increase; every <state> carries its own <time>
        gaps = n > 1 and self.every("traj-steps", ["consecutive", "gaps", "consecutive"]) == "gaps"
        t = t0
        for i in range(n):
            a = {"time_step": t}
            t += self.r.choice([2, 3, 1, 7]) if gaps else 1
            for nm in names:
                if nm == "position":
                    a[nm] = {"shape": self.single_shape()} if self.flip(p_reg) else {"pt": self.point(c, 5.0)}
                elif nm == "orientation":
                    a[nm] = self.angle_interval() if self.flip(p_oiv) else self.angle()
                else:
                    a[nm] = self.interval() if self.flip(p_iv) else self.real(-60, 60)
            out.append({"cls": cls, "attrs": a})
        return out

    def time_value(self, lo=1):
        if self.flip(0.3):
            a = self.r.randint(max(0, lo - 1), 30)
            return {"iv": [a, a + self.r.choice([0, 1, 1, 5, 20]) if a > 0 else a + self.r.choice([1, 2, 9])]}
        return self.r.choice([lo, lo, self.r.randint(lo, 60)])

    def occupancies(self):
        n = self.r.choice([1, 1, 2, 3, self.r.randint(1, self.max_states)])
        out = []
        t = self.r.choice([1, 1, 2, self.r.randint(1, 30)])
        interval_times = self.flip(0.3)
        for i in range(n):
            if interval_times:
                tv = {"iv": [t, t + self.r.choice([0, 1, 3])]}
                if t == 0:
                    tv = {"iv": [0, self.r.randint(1, 3)]}
            else:
                tv = t
            out.append({"time": tv, "shape": self.shape(p_group=0.25)})
            t += self.r.choice([1, 1, 1, 2])
        return out

    def signal_state(self, t):
        mode = self.every("signal-mode", ["all", "none", "random", "random", "one"])
        if mode == "all":
            names = list(SIGNALS)
        elif mode == "none":
            names = []
        elif mode == "one":
            names = [self.every("signal-one", SIGNALS)]
        else:
            names = [s for s in SIGNALS if self.flip()]
        return {"time_step": t, "vals": {nm: self.flip() for nm in names}}

    # ------------------------------------------------------------------ network
    def lanelet_geometry(self, k):
        n = self.r.choice([2, 2, 3, 4, self.r.randint(2, 7)])
        x0, y0 = self.real(-200, 200), self.real(-200, 200)
        tiny = k == 0 and self.flip(0.3)   # a lanelet starting at the origin with tiny coordinates (exponent notation in repr)
        if tiny:
            x0 = y0 = 0.0
        w = self.r.uniform(2.0, 5.0)
        left, right = [], []
        x = x0
        for i in range(n):
            left.append([x + self.r.uniform(-0.3, 0.3), y0 + w + self.r.uniform(-0.4, 0.4)])
            right.append([x + self.r.uniform(-0.3, 0.3), y0 + self.r.uniform(-0.4, 0.4)])
            x += self.r.uniform(2.0, 20.0)
        style = self.r.choice(["raw", "raw", "grid", "short", "tiny-offset"])
        if style == "grid":
            f = lambda v: round(v * 16) / 16.0
        elif style == "short":
            d = self.r.randint(0, 5)
            f = lambda v: round(v, d)
        elif style == "tiny-offset":
            f = lambda v: round(v, 2) + self.r.choice([1e-9, -1e-9, 4e-6, 0.0])
        else:
            f = lambda v: v
        left = [[f(a), f(b)] for a, b in left]
        right = [[f(a), f(b)] for a, b in right]
        if tiny:   # still a simple polygon: only the first x / y of each bound are replaced by values of magnitude < 1e-5
            left[0] = [self.r.uniform(-9, 9) * 1e-6, left[0][1]]
            right[0] = [self.r.uniform(-9, 9) * 1e-7, self.r.uniform(-9, 9) * 1e-6]
        return left, right

    def subset(self, ids, p=0.35, maxn=3):
        ids = [i for i in ids if self.flip(p)]
        self.r.shuffle(ids)
        return ids[:maxn]

    def gen_spec(self, precision=None):
        r = self.r
        self._next_id = 0
        X = self.X
        from commonroad.scenario.traffic_sign import TrafficSignIDCountries
        countries = [c for c in TrafficSignIDCountries
                     if [m for m in TrafficSignIDCountries[c] if m.value in X["trafficSignID"]]]
        country = self.every("country", ["ZAM", "DEU", "ZAM", "DEU", "ZAM", "DEU"] + countries)
        sign_members = [m.name for m in TrafficSignIDCountries[country] if m.value in X["trafficSignID"]]

        spec = {"precision": precision if precision is not None else r.randint(1, 12)}
        spec["dt"] = r.choice([0.1, 0.04, 0.2, 1.0, 0.05])
        spec["scenario_id"] = {"cooperative": self.flip(0.15), "country": country,
                               "map_name": r.choice(["Tst", "Muc", "Lohmar", "A9"]), "map_id": r.randint(1, 99),
                               "configuration_id": r.randint(1, 9), "obstacle_behavior": r.choice(["T", "S", "I"]),
                               "prediction_id": r.randint(1, 3)}
        spec["author"], spec["affiliation"], spec["source"] = "A. Author", r.choice(["TUM", "X Y Univ."]), r.choice(["handcrafted", "NGSIM"])
        ntags = r.randint(0, 4)
        spec["tags"] = sorted({self.every("tag", X["tag"]) for _ in range(ntags)})
        spec["location"] = self.location()

        # ---- lanelets
        nl = r.choice([1, 2, 3, r.randint(1, self.max_lanelets)])
        lids = [self.new_id() for _ in range(nl)]
        big = len(sign_members) > 100     # DEU / ZAM: 234 listed ids each, visited round-robin -> more signs per scenario
        nsigns = (r.choice([1, 2, 3, 3]) if big else r.choice([0, 1, 1, 2, 3])) if sign_members else 0
        nlights = r.choice([0, 1, 1, 2])
        sids = [self.new_id() for _ in range(nsigns)]
        tids = [self.new_id() for _ in range(nlights)]
        lanelets = []
        for k, lid in enumerate(lids):
            left, right = self.lanelet_geometry(k)
            others = [i for i in lids if i != lid]
            ln = {"id": lid, "left": left, "right": right,
                  "lm_left": self.every("lineMarking", X["lineMarking"]),
                  "lm_right": self.every("lineMarking", X["lineMarking"]) if self.flip() else r.choice(X["lineMarking"]),
                  "pred": self.subset(others), "succ": self.subset(others),
                  "adj_left": None, "adj_right": None, "stop_line": None,
                  "types": sorted({self.every("laneletType", X["laneletType"]) for _ in range(r.choice([1, 1, 2, 3]))}),
                  "one_way": sorted({self.every("vehicleType", X["vehicleType"]) for _ in range(r.choice([0, 1, 2, 4]))}),
                  "bidir": sorted({self.every("vehicleType-bi", X["vehicleType"]) for _ in range(r.choice([0, 0, 1, 3]))}),
                  "signs": self.subset(sids, 0.4), "lights": self.subset(tids, 0.5)}
            if others and self.flip(0.5):
                ln["adj_left"] = {"id": r.choice(others), "same": self.flip()}
            if others and self.flip(0.5):
                ln["adj_right"] = {"id": r.choice(others), "same": self.flip()}
            if self.flip(0.4):
                sl = {"start": self.point(left[-1], 1.0), "end": self.point(right[-1], 1.0),
                      "line_marking": self.every("lineMarking-stop", X["lineMarking"]),
                      "sign_refs": None, "light_refs": None}
                if sids and self.flip(0.5):
                    sl["sign_refs"] = sorted(set(self.subset(sids, 0.7) or [r.choice(sids)]))
                if tids and self.flip(0.5):
                    sl["light_refs"] = sorted(set(self.subset(tids, 0.7) or [r.choice(tids)]))
                ln["stop_line"] = sl
            lanelets.append(ln)
        # every sign must be referenced by a lanelet (the reader rejects the file otherwise)
        for s in sids:
            if not any(s in ln["signs"] for ln in lanelets):
                r.choice(lanelets)["signs"].append(s)
        spec["lanelets"] = lanelets

        # ---- signs
        signs = []
        for s in sids:
            els = []
            for _ in range(r.choice([2, 3, 4]) if big else r.choice([1, 1, 2, 3])):
                nm = self.every("sign:" + country, sign_members)
                vals = [r.choice(["50", "13.5", "120", "3.5 t", "08:00-16:00", "x"]) for _ in range(r.choice([0, 0, 1, 2]))]
                els.append({"id": nm, "values": vals})
            signs.append({"id": s, "elements": els, "position": self.point(spread=200.0), "virtual": self.every("virtual", [True, False])})
        spec["signs"] = signs

        # ---- lights
        lights = []
        for t in tids:
            cyc = [[self.every("trafficLightColor", X["trafficLightColor"]), r.choice([1, 2, 5, 30, r.randint(1, 200)])]
                   for _ in range(r.choice([1, 2, 3, 4]))]
            lights.append({"id": t, "cycle": cyc, "offset": r.choice([0, 0, 1, 7, r.randint(1, 100)]),
                           "position": self.point(spread=200.0), "direction": self.every("direction", X["direction"]),
                           "active": self.every("active", [True, False, True])})
        spec["lights"] = lights

        # ---- intersections
        inters = []
        for _ in range(r.choice([0, 0, 1, 2])):
            iid = self.new_id()
            incs = []
            for _ in range(r.choice([1, 2, 3])):
                incs.append({"id": self.new_id(), "lanelets": sorted(set(self.subset(lids, 0.5) or [r.choice(lids)])),
                             "right": sorted(set(self.subset(lids, 0.3))), "straight": sorted(set(self.subset(lids, 0.3))),
                             "left": sorted(set(self.subset(lids, 0.3))), "left_of": None})
            for inc in incs:
                oth = [i["id"] for i in incs if i["id"] != inc["id"]]
                if oth and self.flip(0.5):
                    inc["left_of"] = r.choice(oth)
            cr = None
            if self.flip(0.4):
                cr = sorted(set(self.subset(lids, 0.5) or [r.choice(lids)]))
            inters.append({"id": iid, "incomings": incs, "crossings": cr})
        spec["intersections"] = inters

        # ---- obstacles
        obstacles = []
        for _ in range(r.choice([0, 1, 2, 3, r.randint(0, self.max_obstacles)])):
            role = self.every("role", ["static", "dynamic", "dynamic", "environment", "phantom", "dynamic"])
            o = {"role": role, "id": self.new_id()}
            if role == "static":
                o["type"] = self.every("obstacleTypeStatic", X["obstacleTypeStatic"])
                o["shape"] = self.shape()
                o["initial_state"] = self.initial_state(certain=o["shape"]["k"] == "group")
            elif role == "environment":
                o["type"] = self.every("obstacleTypeEnvironment", X["obstacleTypeEnvironment"])
                o["shape"] = self.shape()
            elif role == "phantom":
                o["prediction"] = {"kind": "set", "occupancies": self.occupancies()}
            else:
                o["type"] = self.every("obstacleTypeDynamic", X["obstacleTypeDynamic"])
                o["shape"] = self.shape(centred=self.flip(0.6), p_group=0.15)
                grp = o["shape"]["k"] == "group"
                o["initial_state"] = self.initial_state(certain=grp)
                o["initial_signal_state"] = self.signal_state(0) if self.flip(0.5) else None
                if self.every("prediction-kind", ["trajectory", "set", "trajectory"]) == "trajectory":
                    o["prediction"] = {"kind": "trajectory", "states": self.trajectory_states(certain=grp)}
                else:
                    o["prediction"] = {"kind": "set", "occupancies": self.occupancies()}
                o["signal_series"] = None
                if self.flip(0.4):
                    t = 1
                    ser = []
                    for _ in range(r.randint(1, 4)):
                        ser.append(self.signal_state(t))
                        t += r.choice([1, 1, 3])
                    o["signal_series"] = ser
            obstacles.append(o)
        spec["obstacles"] = obstacles

        # ---- planning problems
        pps = []
        for _ in range(r.choice([1, 1, 2, 3])):
            goals, goal_lanelets = [], {}
            for gi in range(r.choice([1, 1, 2, 3])):
                a0 = r.choice([0, 1, 5, r.randint(0, 50)])
                a = {"time_step": {"iv": [a0, a0 + r.choice([1, 1, 10, 100]) if a0 == 0 else a0 + r.choice([0, 1, 10, 100])]}}
                mode = self.every("goal-pos", ["none", "shape", "lanelets", "shape", "lanelets"])
                if mode == "shape":
                    a["position"] = {"shape": self.shape(p_group=0.3, same_kind=True)}
                elif mode == "lanelets":
                    ls = sorted(set(self.subset(lids, 0.5, 3) or [r.choice(lids)]))
                    if self.flip(0.3):
                        r.shuffle(ls)
                    a["position"] = {"lanelets": ls}
                    goal_lanelets[str(gi)] = ls
                if self.flip(0.5):
                    a["orientation"] = self.angle_interval()
                if self.flip(0.5):
                    a["velocity"] = self.interval(0, 60)
                if self.flip(0.5):    # attribute order of a CustomState is the keyword order
                    items = list(a.items())
                    r.shuffle(items)
                    a = dict(items)
                goals.append({"cls": "CustomState", "attrs": a})
            pps.append({"id": self.new_id(), "initial_state": self.initial_state(exact_only=True, planning=True),
                        "goals": goals, "goal_lanelets": goal_lanelets or None})
        spec["pps"] = pps
        if self.three_d and self.flip(self.three_d):
            # 3-D geometry (outside the 2-D domain of C01's oracle; used for the model correspondence of <z>)
            spec["three_d"] = True
            for ln in spec["lanelets"]:
                ln["left"] = [p + [self.real(-5, 5)] for p in ln["left"]]
                ln["right"] = [p + [self.real(-5, 5)] for p in ln["right"]]
            for p in pps:
                p["initial_state"]["attrs"]["position"]["pt"].append(self.real(-5, 5))
        return spec

    def location(self):
        r = self.r
        X = self.X
        mode = self.every("location", ["default", "plain", "geo", "env", "both"])
        if mode == "default":
            return {"geo_name_id": -999, "lat": 999.0, "lon": 999.0, "geo": None, "env": None}
        loc = {"geo_name_id": r.choice([-999, 2867714, r.randint(1, 10 ** 7)]), "lat": self.real(-90, 90), "lon": self.real(-180, 180),
               "geo": None, "env": None}
        if mode in ("geo", "both"):
            loc["geo"] = {"ref": r.choice(["+proj=utm +zone=32 +ellps=WGS84", "EPSG:4326"]), "x": self.real(), "y": self.real(),
                          "rot": self.bounded(-3.0, 3.0), "scaling": self.pos_len()}
        if mode in ("env", "both"):
            loc["env"] = {"h": r.randint(0, 23), "m": r.randint(0, 59),
                          "time_of_day": self.every("timeOfDay", [v for v in X["timeOfDay"] if v != "day"]),
                          "weather": self.every("weather", [v for v in X["weather"] if v != "sunny"]),
                          "underground": self.every("underground", X["underground"])}
        return loc


# ====================================================================================================== build

def _np(v):
    import numpy as np
    return np.array(v, dtype=float)


def build_shape(s):
    from commonroad.geometry.shape import Circle, Polygon, Rectangle, ShapeGroup
    k = s["k"]
    if k == "rect":
        return Rectangle(s["l"], s["w"], _np(s["c"]), s["o"])
    if k == "circ":
        return Circle(s["r"], _np(s["c"]))
    if k == "poly":
        return Polygon(_np(s["v"]))
    return ShapeGroup([build_shape(x) for x in s["s"]])


def build_value(v, integer=False):
    from commonroad.common.util import AngleInterval, Interval
    if isinstance(v, dict):
        if "iv" in v:
            return Interval(v["iv"][0], v["iv"][1])
        if "aiv" in v:
            return AngleInterval(v["aiv"][0], v["aiv"][1])
        if "pt" in v:
            return _np(v["pt"])
        if "shape" in v:
            return build_shape(v["shape"])
        raise ValueError(v)
    return v


def build_state(st, lanelet_polygons=None):
    from commonroad.geometry.shape import ShapeGroup
    from commonroad.scenario import state as S
    attrs = {}
    for k, v in st["attrs"].items():
        if isinstance(v, dict) and "lanelets" in v:
            attrs[k] = ShapeGroup([lanelet_polygons[i] for i in v["lanelets"]])
        else:
            attrs[k] = build_value(v)
    cls = getattr(S, st["cls"])
    return cls(**attrs)


def build_signal(sg):
    from commonroad.scenario.state import SignalState
    return SignalState(time_step=sg["time_step"], **sg["vals"])


def build_prediction(p, shape):
    from commonroad.prediction.prediction import Occupancy, SetBasedPrediction, TrajectoryPrediction
    from commonroad.scenario.trajectory import Trajectory
    if p is None:
        return None
    if p["kind"] == "trajectory":
        states = [build_state(s) for s in p["states"]]
        return TrajectoryPrediction(Trajectory(states[0].time_step, states), shape)
    occs = [Occupancy(build_value(o["time"]), build_shape(o["shape"])) for o in p["occupancies"]]
    t0 = p["occupancies"][0]["time"]
    t0 = t0["iv"][0] if isinstance(t0, dict) else t0
    return SetBasedPrediction(t0, occs)


def enum_by_value(enum, value):
    for m in enum:
        if m.value == value:
            return m
    raise KeyError(value)


def build(spec):
    """spec -> (Scenario, PlanningProblemSet) through the public constructors."""
    from commonroad.common.common_lanelet import LaneletType, LineMarking, RoadUser, StopLine
    from commonroad.common.util import Time
    from commonroad.planning.goal import GoalRegion
    from commonroad.planning.planning_problem import PlanningProblem, PlanningProblemSet
    from commonroad.scenario.intersection import Intersection, IntersectionIncomingElement
    from commonroad.scenario.lanelet import Lanelet, LaneletNetwork
    from commonroad.scenario.obstacle import DynamicObstacle, EnvironmentObstacle, ObstacleType, PhantomObstacle, StaticObstacle
    from commonroad.scenario.scenario import (Environment, GeoTransformation, Location, Scenario, ScenarioID, Tag, TimeOfDay,
                                              Underground, Weather)
    from commonroad.scenario.traffic_light import (TrafficLight, TrafficLightCycle, TrafficLightCycleElement,
                                                   TrafficLightDirection, TrafficLightState)
    from commonroad.scenario.traffic_sign import TrafficSign, TrafficSignElement, TrafficSignIDCountries

    sid = spec["scenario_id"]
    scenario_id = ScenarioID(cooperative=sid["cooperative"], country_id=sid["country"], map_name=sid["map_name"],
                             map_id=sid["map_id"], configuration_id=sid["configuration_id"],
                             obstacle_behavior=sid["obstacle_behavior"], prediction_id=sid["prediction_id"])
    loc = None
    if spec["location"] is not None:
        L = spec["location"]
        geo = env = None
        if L["geo"] is not None:
            geo = GeoTransformation(L["geo"]["ref"], L["geo"]["x"], L["geo"]["y"], L["geo"]["rot"], L["geo"]["scaling"])
        if L["env"] is not None:
            env = Environment(Time(L["env"]["h"], L["env"]["m"]), enum_by_value(TimeOfDay, L["env"]["time_of_day"]),
                              enum_by_value(Weather, L["env"]["weather"]), enum_by_value(Underground, L["env"]["underground"]))
        loc = Location(L["geo_name_id"], L["lat"], L["lon"], geo, env)
    sc = Scenario(spec["dt"], scenario_id, author=spec["author"], tags={enum_by_value(Tag, t) for t in spec["tags"]},
                  affiliation=spec["affiliation"], source=spec["source"], location=loc)

    lanelets = []
    for ln in spec["lanelets"]:
        left, right = _np(ln["left"]), _np(ln["right"])
        sl = None
        if ln["stop_line"] is not None:
            s = ln["stop_line"]
            sl = StopLine(_np(s["start"]), _np(s["end"]), enum_by_value(LineMarking, s["line_marking"]),
                          None if s["sign_refs"] is None else set(s["sign_refs"]),
                          None if s["light_refs"] is None else set(s["light_refs"]))
        lanelets.append(Lanelet(
            left_vertices=left, center_vertices=0.5 * (left + right), right_vertices=right, lanelet_id=ln["id"],
            predecessor=list(ln["pred"]), successor=list(ln["succ"]),
            adjacent_left=ln["adj_left"]["id"] if ln["adj_left"] else None,
            adjacent_left_same_direction=ln["adj_left"]["same"] if ln["adj_left"] else None,
            adjacent_right=ln["adj_right"]["id"] if ln["adj_right"] else None,
            adjacent_right_same_direction=ln["adj_right"]["same"] if ln["adj_right"] else None,
            line_marking_left_vertices=enum_by_value(LineMarking, ln["lm_left"]),
            line_marking_right_vertices=enum_by_value(LineMarking, ln["lm_right"]),
            stop_line=sl, lanelet_type={enum_by_value(LaneletType, t) for t in ln["types"]},
            user_one_way={enum_by_value(RoadUser, t) for t in ln["one_way"]},
            user_bidirectional={enum_by_value(RoadUser, t) for t in ln["bidir"]},
            traffic_signs=set(ln["signs"]), traffic_lights=set(ln["lights"])))
    net = LaneletNetwork.create_from_lanelet_list(lanelets, cleanup_ids=False)
    enum_c = TrafficSignIDCountries[sid["country"]]
    for s in spec["signs"]:
        els = [TrafficSignElement(enum_c[e["id"]], list(e["values"])) for e in s["elements"]]
        first = {ln["id"] for ln in spec["lanelets"] if s["id"] in ln["signs"]}
        net.add_traffic_sign(TrafficSign(s["id"], els, first, _np(s["position"]), s["virtual"]), set())
    for t in spec["lights"]:
        cyc = TrafficLightCycle([TrafficLightCycleElement(enum_by_value(TrafficLightState, c), d) for c, d in t["cycle"]],
                                time_offset=t["offset"])
        net.add_traffic_light(TrafficLight(t["id"], _np(t["position"]), cyc, active=t["active"],
                                           direction=enum_by_value(TrafficLightDirection, t["direction"])), set())
    for it in spec["intersections"]:
        incs = [IntersectionIncomingElement(i["id"], set(i["lanelets"]), set(i["right"]), set(i["straight"]), set(i["left"]),
                                            i["left_of"]) for i in it["incomings"]]
        net.add_intersection(Intersection(it["id"], incs, None if it["crossings"] is None else set(it["crossings"])))
    sc.add_objects(net)

    for o in spec["obstacles"]:
        role = o["role"]
        if role == "static":
            ob = StaticObstacle(o["id"], enum_by_value(ObstacleType, o["type"]), build_shape(o["shape"]),
                                build_state(o["initial_state"]))
        elif role == "environment":
            ob = EnvironmentObstacle(o["id"], enum_by_value(ObstacleType, o["type"]), build_shape(o["shape"]))
        elif role == "phantom":
            ob = PhantomObstacle(o["id"], build_prediction(o["prediction"], None))
        else:
            shape = build_shape(o["shape"])
            ob = DynamicObstacle(o["id"], enum_by_value(ObstacleType, o["type"]), shape, build_state(o["initial_state"]),
                                 build_prediction(o["prediction"], shape),
                                 initial_signal_state=build_signal(o["initial_signal_state"]) if o.get("initial_signal_state") else None,
                                 signal_series=[build_signal(s) for s in o["signal_series"]] if o.get("signal_series") else None)
        sc.add_objects(ob)

    polys = {ln.lanelet_id: ln.polygon for ln in sc.lanelet_network.lanelets}
    pps = []
    for p in spec["pps"]:
        goals = [build_state(g, polys) for g in p["goals"]]
        gl = None if p["goal_lanelets"] is None else {int(k): list(v) for k, v in p["goal_lanelets"].items()}
        pps.append(PlanningProblem(p["id"], build_state(p["initial_state"]), GoalRegion(goals, gl)))
    return sc, PlanningProblemSet(pps)
