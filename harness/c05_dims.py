"""C05 — the dimension table of the generator (generator audit, part A).

Every constructor parameter, settable property and public entry point of the classes that have a `translate_rotate`
(discovered by walking the commonroad package), with how harness/c05.py varies / exercises it:
  V  varied / exercised by the generator (how)        N  not spatial: cannot influence what the property observes
  O  outside the property's quantifier (why)
`check_dimensions()` compares the table with the real signatures on every run: a class with translate_rotate, a constructor
parameter or a settable property that the table does not know stops the run with exit 2.
"""
import importlib
import inspect
import pkgutil

from common import InfraError

N = "N: not spatial (ids, types, signals, meta data): cannot influence what is observed"

CTOR_PARAMS = {'Area': {'area_id': 'N', 'border': 'V: None (default) / [] / 1..3 borders', 'area_types': 'N'},
 'AreaBorder': {'area_border_id': 'N', 'border_vertices': "V: 2..4 world points; setter in 'mutate'", 'adjacent': 'N', 'line_marking': 'N'},
 'Circle': {'radius': 'V: dimension, must stay unchanged (exact compare)',
            'center': "V: world point; omitted (default) in 'dflt' shapes; setter in 'mutate'"},
 'DynamicObstacle': {'obstacle_id': N,
                     'obstacle_type': N,
                     'obstacle_shape': 'V: body shape (see TrajectoryPrediction.shape); must stay unchanged',
                     'initial_state': 'V: exact / uncertain position (rect, circle, polygon) / orientation interval; setter after a first query in '
                                      "'mutate'; update_initial_state histories",
                     'prediction': "V: none / trajectory / set-based; setter in 'mutate' and after update_initial_state",
                     'initial_center_lanelet_ids': N,
                     'initial_shape_lanelet_ids': N,
                     'initial_signal_state': N,
                     'signal_series': N,
                     'initial_meta_information_state': N,
                     'meta_information_series': N,
                     'external_dataset_id': N,
                     'history': 'V: 0..3 states via the constructor, or produced by update_initial_state()',
                     'signal_history': N,
                     'center_lanelet_ids_history': N,
                     'shape_lanelet_ids_history': N},
 'EnvironmentObstacle': {'obstacle_id': N,
                         'obstacle_type': N,
                         'obstacle_shape': 'V: rect / circle / polygon (world frame, moved)'},
 'GoalRegion': {'state_list': 'V: 0..3 goal states with regions / orientation intervals', 'lanelets_of_goal_position': 'N: lanelet ids'},
 'Lanelet': {'left_vertices': 'V: 2..6 points, repeated vertex, int-typed, UTM',
             'center_vertices': 'V: mean of the boundaries or a center line of its own',
             'right_vertices': 'V: as left',
             'lanelet_id': N,
             'predecessor': N,
             'successor': N,
             'adjacent_left': N,
             'adjacent_left_same_direction': N,
             'adjacent_right': N,
             'adjacent_right_same_direction': N,
             'line_marking_left_vertices': N,
             'line_marking_right_vertices': N,
             'stop_line': 'V: none / at the lanelet end / anywhere; via constructor or setter',
             'lanelet_type': N,
             'user_one_way': N,
             'user_bidirectional': N,
             'traffic_signs': N,
             'traffic_lights': N,
             'adjacent_areas': N},
 'LaneletNetwork': {'information': 'N'},
 'Obstacle': {'obstacle_id': N,
              'obstacle_role': N,
              'obstacle_type': N,
              'obstacle_shape': 'V: body shape (see TrajectoryPrediction.shape); must stay unchanged',
              'initial_state': 'V: exact / uncertain position (rect, circle, polygon) / orientation interval; setter after a first query in '
                               "'mutate'; update_initial_state histories",
              'initial_center_lanelet_ids': N,
              'initial_shape_lanelet_ids': N,
              'initial_signal_state': N,
              'signal_series': N},
 'Occupancy': {'time_step': 'V: int / Interval (not spatial)', 'shape': "V: every shape kind; setter in 'mutate'; shared object in 'alias'"},
 'PhantomObstacle': {'obstacle_id': N,
                     'prediction': 'V: None / set-based with 0..3 occupancies'},
 'PlanningProblem': {'planning_problem_id': 'N', 'initial_state': "V; setter in 'mutate'", 'goal_region': "V; setter (goal) in 'mutate'"},
 'PlanningProblemSet': {'planning_problem_list': 'V: 0..5 problems; further problems whose goal region EQUALS that of an earlier one by value '
                                                 '(a second GoalRegion object: problem/equal-goal-regions) or IS the earlier one (one object held '
                                                 'by several problems: problem/shared-goal-region)'},
 'Polygon': {'vertices': 'V: 3..7 vertices, cw/ccw, closed/open, repeated vertex, int-typed, asymmetric body polygons'},
 'Rectangle': {'length': 'V: dimension (exact compare)',
               'width': 'V: dimension (exact compare)',
               'center': "V: world point / omitted (default); setter in 'mutate'",
               'orientation': 'V: in [-2pi,2pi] incl. wrap-crossing values, int, omitted; body rectangles turned in the body frame'},
 'Scenario': {'dt': 'N',
              'scenario_id': N,
              'author': N,
              'tags': N,
              'affiliation': N,
              'source': N,
              'location': N},
 'SetBasedPrediction': {'initial_time_step': 'N', 'occupancy_set': 'V: 0..4 occupancies (empty list included)'},
 'ShapeGroup': {'shapes': "V: 0..3 shapes (empty group included), nested only one level by the constructor's users; shared Shape objects in 'alias'"},
 'StaticObstacle': {'obstacle_id': N,
                    'obstacle_type': N,
                    'obstacle_shape': 'V: body shape (see TrajectoryPrediction.shape); must stay unchanged',
                    'initial_state': 'V: exact / uncertain position (rect, circle, polygon) / orientation interval; setter after a first query in '
                                     "'mutate'; update_initial_state histories",
                    'initial_center_lanelet_ids': N,
                    'initial_shape_lanelet_ids': N,
                    'initial_signal_state': N,
                    'signal_series': N},
 'StopLine': {'start': "V: world point (dyadic/float/int-typed/UTM/shared array; set via setter in 'mutate' histories)",
              'end': 'V: as start',
              'line_marking': N,
              'traffic_sign_ref': N,
              'traffic_light_ref': N},
 'TrafficLight': {'traffic_light_id': N,
                  'position': "V: world point; setter in 'mutate'; shared array in 'alias'",
                  'traffic_light_cycle': N,
                  'color': N,
                  'active': N,
                  'direction': N,
                  'shape': 'V: None / housing rectangle (body frame, must stay)'},
 'TrafficSign': {'traffic_sign_id': N,
                 'traffic_sign_elements': N,
                 'first_occurrence': N,
                 'position': "V: world point; setter in 'mutate'; shared array in 'alias'",
                 'virtual': N},
 'Trajectory': {'initial_time_step': 'N', 'state_list': 'V: 1..5 states'},
 'TrajectoryPrediction': {'trajectory': 'V: 1..5 states of 9 classes',
                          'shape': 'V: body shape (rect incl. turned, circle, symmetric and asymmetric polygon); must stay unchanged',
                          'center_lanelet_assignment': 'N: ids',
                          'shape_lanelet_assignment': 'N: ids'}}

SPATIAL_SETTERS = {
    "center": "V: set after construction in 'mutate' histories (Rectangle, Circle)",
    "orientation": "V: set after construction in 'mutate' histories",
    "length": "V: set after construction in 'mutate' histories", "width": "V: as length", "radius": "V: as length",
    "vertices": "O: Polygon.vertices= leaves the shapely polygon of the old vertices behind (stale cache: C11's subject); "
                "Rectangle.vertices= only warns",
    "_shapely_polygon": "O: private cache setter",
    "shapes": "O: immutable after construction (the setter only warns)",
    "start": "V: StopLine.start= / end= in 'mutate' histories", "end": "V: see start",
    "position": "V: TrafficSign / TrafficLight.position= in 'mutate' histories",
    "shape": "V: Occupancy.shape= , TrafficLight.shape= , TrajectoryPrediction.shape= in 'mutate' histories",
    "stop_line": "V: Lanelet.stop_line= in 'mutate' histories",
    "left_vertices": "O: settable once (constructor); later assignments only warn", "right_vertices": "O: see left_vertices",
    "center_vertices": "O: see left_vertices", "distance": "O: derived cache",
    "initial_state": "V: Obstacle.initial_state= after a first occupancy query, PlanningProblem.initial_state= ('mutate'); part-by-part mode",
    "prediction": "V: DynamicObstacle.prediction= in 'mutate' histories and after update_initial_state()",
    "obstacle_shape": "O: immutable after construction (the setter only warns)",
    "occupancy_set": "V: SetBasedPrediction.occupancy_set= in 'mutate' histories",
    "trajectory": "V: TrajectoryPrediction.trajectory= in 'mutate' histories (invalidates the occupancy cache)",
    "wheelbase_lengths": "O: the setter writes `_wheelbase_lenghts` (sic) and the getter reads `_wheelbase_lengths`, so trailer "
                         "occupancies are unreachable; obstacles with wheelbase_lengths and an InitialState cannot be constructed",
    "border": "V: Area(border=None / [] / list)", "border_vertices": "V: AreaBorder.border_vertices= in 'mutate' histories",
    "state_list": "V: GoalRegion.state_list= in 'mutate' histories", "goal": "V: PlanningProblem.goal= in 'mutate' histories",
    "planning_problem_dict": "O: the same problems re-assigned; translate_rotate iterates the dict values",
    "history": "V: constructor argument / update_initial_state()",
}

SETTER_NAMES = {'Area': ['area_id', 'area_types', 'border'],
 'AreaBorder': ['adjacent', 'area_border_id', 'border_vertices', 'line_marking'],
 'Circle': ['center', 'radius'],
 'DynamicObstacle': ['external_dataset_id',
                     'initial_center_lanelet_ids',
                     'initial_meta_information_state',
                     'initial_shape_lanelet_ids',
                     'initial_signal_state',
                     'initial_state',
                     'meta_information_series',
                     'obstacle_id',
                     'obstacle_role',
                     'obstacle_shape',
                     'obstacle_type',
                     'prediction',
                     'signal_series'],
 'EnvironmentObstacle': ['obstacle_id', 'obstacle_role', 'obstacle_shape', 'obstacle_type'],
 'GoalRegion': ['lanelets_of_goal_position', 'state_list'],
 'Lanelet': ['adj_left',
             'adj_left_same_direction',
             'adj_right',
             'adj_right_same_direction',
             'adjacent_areas',
             'center_vertices',
             'distance',
             'dynamic_obstacles_on_lanelet',
             'lanelet_id',
             'lanelet_type',
             'left_vertices',
             'line_marking_left_vertices',
             'line_marking_right_vertices',
             'predecessor',
             'right_vertices',
             'static_obstacles_on_lanelet',
             'stop_line',
             'successor',
             'traffic_lights',
             'traffic_signs',
             'user_bidirectional',
             'user_one_way'],
 'LaneletNetwork': ['information'],
 'Obstacle': ['initial_center_lanelet_ids',
              'initial_shape_lanelet_ids',
              'initial_signal_state',
              'initial_state',
              'obstacle_id',
              'obstacle_role',
              'obstacle_shape',
              'obstacle_type',
              'signal_series'],
 'Occupancy': ['shape', 'time_step'],
 'PhantomObstacle': ['obstacle_role', 'prediction'],
 'PlanningProblem': ['goal', 'initial_state', 'planning_problem_id'],
 'PlanningProblemSet': ['planning_problem_dict'],
 'Polygon': ['vertices'],
 'Rectangle': ['_shapely_polygon', 'center', 'length', 'orientation', 'vertices', 'width'],
 'Scenario': ['dt'],
 'SetBasedPrediction': ['occupancy_set'],
 'ShapeGroup': ['shapes'],
 'StaticObstacle': ['initial_center_lanelet_ids',
                    'initial_shape_lanelet_ids',
                    'initial_signal_state',
                    'initial_state',
                    'obstacle_id',
                    'obstacle_role',
                    'obstacle_shape',
                    'obstacle_type',
                    'signal_series'],
 'StopLine': ['end', 'line_marking', 'start', 'traffic_light_ref', 'traffic_sign_ref'],
 'TrafficLight': ['active', 'color', 'direction', 'position', 'shape', 'traffic_light_cycle', 'traffic_light_id'],
 'TrafficSign': ['first_occurrence', 'position', 'traffic_sign_elements', 'traffic_sign_id', 'virtual'],
 'Trajectory': ['initial_time_step'],
 'TrajectoryPrediction': ['center_lanelet_assignment', 'shape', 'shape_lanelet_assignment', 'trajectory', 'wheelbase_lengths']}

# every class that has translate_rotate -> how the harness calls it
ENTRY_POINTS = {
    "Shape": "abstract", "Prediction": "abstract", "Obstacle": "abstract base of Static / DynamicObstacle",
    "Rectangle": "loose 'shape'; regions of states; occupancies", "Circle": "as Rectangle", "Polygon": "as Rectangle; environment obstacles",
    "ShapeGroup": "loose 'shape'; occupancies; goal regions (0..3 members)",
    "State": "through its subclasses", "InitialState": "obstacle / problem initial states, history; loose 'state'; part-by-part mode",
    "PMState": "trajectories, loose 'state'", "KSState": "trajectories, loose 'state'", "KSTState": "loose 'state' (hitch angle must stay)",
    "STState": "trajectories, loose 'state'", "STDState": "loose 'state'", "MBState": "trajectories, loose 'state'",
    "ExtendedPMState": "trajectories, loose 'state'", "CustomState": "goal states, trajectories, loose 'state'",
    "LateralState": "loose 'state' (orientation only)", "LongitudinalState": "loose 'state' (nothing spatial)",
    "InputState": "loose 'state' (nothing spatial)", "PMInputState": "inherits State.translate_rotate; nothing spatial (class not drawn)",
    "LKSInputState": "inherits State.translate_rotate; nothing spatial (class not drawn)",
    "Trajectory": "loose 'trajectory'; inside trajectory predictions", "Occupancy": "loose 'occupancy'; part-by-part mode for phantom obstacles",
    "SetBasedPrediction": "loose 'setpred'; dynamic / phantom obstacles; part-by-part mode",
    "TrajectoryPrediction": "loose 'trajpred'; dynamic obstacles; part-by-part mode",
    "StaticObstacle": "scenario; per-obstacle mode; loose 'obstacle'", "DynamicObstacle": "as StaticObstacle",
    "PhantomObstacle": "as StaticObstacle", "EnvironmentObstacle": "as StaticObstacle",
    "Lanelet": "part-by-part mode; loose 'lanelet'", "StopLine": "through its lanelet; loose 'stopline'",
    "TrafficSign": "part-by-part mode; loose 'sign'", "TrafficLight": "part-by-part mode; loose 'light'",
    "Area": "through the network; loose 'area'", "AreaBorder": "part-by-part mode; loose 'areaborder'",
    "LaneletNetwork": "per-network mode; loose 'network' (built by add_lanelet / create_from_lanelet_list / create_from_lanelet_network)",
    "Scenario": "whole mode (objects added one by one or in list form)",
    "GoalRegion": "part-by-part mode; loose 'goal' (0..3 states)", "PlanningProblem": "per-network mode; loose 'problem'",
    "PlanningProblemSet": "whole mode (0..5 problems, twin / shared goal regions)",
}
# module-level entry points of geometry/transform.py: name -> (parameters, how exercised)
TRANSFORM_FUNCTIONS = {
    "translate_rotate": (["vertices", "translation", "angle"], "loose 'points'"),
    "translation_rotation_matrix": (["translation", "angle"], "loose 'matrix' (applied by hand with to/from_homogeneous_coordinates)"),
    "rotate_translate": (["vertices", "translation", "angle"], "O: rotate-then-translate, used for rectangle corner points (observed as derived geometry)"),
    "rotation_translation_matrix": (["translation", "angle"], "O: see rotate_translate"),
    "to_homogeneous_coordinates": (["points"], "loose 'matrix'"), "from_homogeneous_coordinates": (["points"], "loose 'matrix'"),
}
STATE_FIELDS = {"time_step": "V: int / Interval (not spatial)", "position": "V: array (float / int-typed / UTM) / region / tuple (inadmissible)",
                "orientation": "V: number (float, int, numpy) incl. wrap-crossing / AngleInterval / string (inadmissible)",
                "velocity": "V (PMState: with velocity_y the velocity vector, rotated)", "velocity_y": "V (PMState)"}
STATE_OTHER = "every other state field (acceleration, yaw_rate, slip_angle, steering_angle, hitch_angle, ...): must stay unchanged; " \
              "compared by the oracle through vars(state) (state_scalars), so a new field is observed automatically"
# the seven gap classes of the audit brief -> what the generator does (case['dims'])
HISTORIES = {
    "1 optional arguments": "defaults omitted ('dflt' shapes, Area(border=None)); TrafficLight.shape; history; own center line; stop line",
    "2 setters / in-place edits": "dims.mutate: construct with other values, then set attribute by attribute (after a first query for "
                                  "obstacles); update_initial_state(); dims.alias: ONE array / Shape object shared by several owners; "
                                  "goal_share: ONE GoalRegion object held by several problems / equal GoalRegion objects (twins)",
    "3 reuse": "dims.step2: a second motion on the moved world (model and oracle judge every step); inverse motion = two more calls",
    "4 value classes": "dims.ints (int-typed arrays), dims.utm (coordinates ~5e5 / 5e6), int / numpy angle (dims.a_type), float32 "
                       "translation (dims.t_type), empty groups / occupancy sets / goal lists / borders, repeated vertices, asymmetric bodies",
    "5 failing operation first": "dims.fail_first: translate_rotate with an angle outside [-2pi, 2pi] (AssertionError) before the motion",
    "6 read-only queries first": "dims.warm: distance, inner_distance, polygons, shapely objects, find_lanelet_by_position, "
                                 "occupancy_at_time / occupancy_set are queried before the motion and read from the LIVE objects after",
    "7 other entry points": "whole / per network+obstacle / part by part; loose objects of every class; translation_rotation_matrix by "
                            "hand; add_objects list form; LaneletNetwork alternative constructors",
}
OUTSIDE = [
    "StopLine with start / end None (annotated ndarray; the readers always supply points): translate_rotate raises ValueError",
    "ShapeGroup obstacle shapes whose members are off-centre: rotate_translate_local turns every member about its own centre, the "
    "occupancy is not a rigid placement of the body in the first place",
    "translation that is not an ndarray of length 2 (asserted by most entry points)",
    "np.float32 angles (float32 arithmetic is the caller's choice); 3-D vertices",
]


def discover(repo_pkg="commonroad"):
    pkg = importlib.import_module(repo_pkg)
    found = {}
    for m in pkgutil.walk_packages(pkg.__path__, repo_pkg + "."):
        if any(x in m.name for x in ("visualization", "reader", "writer", "protobuf", "solution")):
            continue
        try:
            mod = importlib.import_module(m.name)
        except Exception:  # noqa  optional dependencies
            continue
        for name, obj in vars(mod).items():
            if inspect.isclass(obj) and obj.__module__ == mod.__name__ and callable(getattr(obj, "translate_rotate", None)):
                found[name] = obj
    return found


def check_dimensions():
    """exit 2 (InfraError) when the code has grown an entry point / parameter / setter the table does not know."""
    from commonroad.geometry import transform
    from commonroad.scenario.state import State
    found = discover()
    problems = []
    for name, cls in sorted(found.items()):
        if name not in ENTRY_POINTS:
            problems.append(f"class {name} has translate_rotate but is not in ENTRY_POINTS")
        params = [p for p in inspect.signature(cls.translate_rotate).parameters if p != "self"]
        if params != ["translation", "angle"]:
            problems.append(f"{name}.translate_rotate{tuple(params)}: unknown signature")
        if issubclass(cls, State) or name in ("Shape", "Prediction"):
            continue
        real = [p for p in inspect.signature(cls.__init__).parameters if p not in ("self", "kwargs", "args")]
        if set(real) != set(CTOR_PARAMS.get(name, {})):
            problems.append(f"{name}.__init__: parameters {sorted(set(real) ^ set(CTOR_PARAMS.get(name, {})))} differ from the table")
        setters = sorted(n for n, v in inspect.getmembers(cls) if isinstance(v, property) and v.fset is not None)
        if setters != SETTER_NAMES.get(name):
            problems.append(f"{name}: settable properties {sorted(set(setters) ^ set(SETTER_NAMES.get(name, [])))} differ from the table")
    for name in ENTRY_POINTS:
        if name not in found:
            problems.append(f"ENTRY_POINTS names {name}, which has no translate_rotate any more")
    for name, (params, _) in TRANSFORM_FUNCTIONS.items():
        f = getattr(transform, name, None)
        if f is None or list(inspect.signature(f).parameters) != params:
            problems.append(f"transform.{name}: signature differs from the table")
    for name, f in vars(transform).items():
        if inspect.isfunction(f) and f.__module__ == transform.__name__ and name not in TRANSFORM_FUNCTIONS:
            problems.append(f"transform.{name}: function not in the table")
    if problems:
        raise InfraError("C05 dimension table out of date: " + "; ".join(problems))
    n = sum(len(v) for v in CTOR_PARAMS.values()) + sum(len(v) for v in SETTER_NAMES.values()) + len(ENTRY_POINTS) \
        + len(TRANSFORM_FUNCTIONS) + len(STATE_FIELDS) + len(HISTORIES)
    return n
