"""C06 — table of every constructor parameter, settable attribute, read-only property and public operation of the classes the
property is anchored in, with how the generator of harness/c06.py treats it.  `check()` compares the table with the real
signatures on every run: a name the table does not know (code growth) is an infrastructure error (exit 2), so that a new
parameter or method cannot silently escape the generator.

status:  varied    the generator draws different values / orders / histories for it (how: the text)
         observed  it is one of the observations the oracle judges / the correspondence compares
         probe     called between operations as a read-only (or idempotent) step; must not disturb the lookups
         fixed     cannot influence a polygon, the index or an answer observed here (why: the text)
         other     belongs to another property (named); not driven here
"""
import inspect

V, O, P, F, X = "varied", "observed", "probe", "fixed", "other"

GEO = "geometry of the lanelet polygon"
C11 = "changing an object that is already inside a network / after it was queried is C11 (derived data never goes stale)"

DIMENSIONS = {
    "Lanelet": {
        "ctor": {
            "left_vertices": (V, "2..9 vertices, straight / curved / arc / tapered, four grid directions, 3-D + convert_to_2d; numpy dtype of "
                                  "the array chosen per array: float64 / float32 (where exact) / int64 / int32 (polylines moved onto the "
                                  "integer grid), so that one lanelet mixes an integer boundary with a fractional float one "
                                  "(buckets net/lanelet/dtype/*, obst/lanelet/dtype/*)"),
            "center_vertices": (V, "mid line of the two boundaries (not part of the polygon); dtype varied like the boundaries"),
            "right_vertices": (V, "as left_vertices (dtype chosen independently of the left boundary's); adjacent lanes share it with "
                                   "the neighbour's left boundary"),
            "lanelet_id": (V, "1..499, 0, 2**40, numpy.int64; repeated in the input list; re-assigned by the setter before insertion"),
            "predecessor": (V, "ids of other lanelets of the case or a dangling id (cleanup_lanelet_references runs on removal)"),
            "successor": (V, "as predecessor"),
            "adjacent_left": (V, "id of another lanelet / None, with both direction flags"),
            "adjacent_left_same_direction": (V, "True / False / None with adjacent_left"),
            "adjacent_right": (V, "as adjacent_left"),
            "adjacent_right_same_direction": (V, "as adjacent_left_same_direction"),
            "line_marking_left_vertices": (V, "members of LineMarking"),
            "line_marking_right_vertices": (V, "members of LineMarking"),
            "stop_line": (V, "None / StopLine across the end edge (moves with translate_rotate)"),
            "lanelet_type": (V, "sets of LaneletType (used by create_from_lanelet_network(exclude_lanelet_types))"),
            "user_one_way": (V, "sets of RoadUser"),
            "user_bidirectional": (V, "sets of RoadUser"),
            "traffic_signs": (F, "a reference to a sign / light / area that is not in the network is ill-formed (C10: no dangling references); with the objects present: C10"),
            "traffic_lights": (F, "a reference to a sign / light / area that is not in the network is ill-formed (C10: no dangling references); with the objects present: C10"),
            "adjacent_areas": (F, "a reference to a sign / light / area that is not in the network is ill-formed (C10: no dangling references); with the objects present: C10"),
        },
        "set": {
            "lanelet_id": (V, "re-assigned after construction, before the lanelet is inserted (pre = reid)"),
            "left_vertices": (X, C11), "right_vertices": (X, C11), "center_vertices": (X, C11),
            "adj_left": (F, "same field as the constructor argument; " + C11),
            "adj_left_same_direction": (F, "same field as the constructor argument"),
            "adj_right": (F, "same field as the constructor argument"),
            "adj_right_same_direction": (F, "same field as the constructor argument"),
            "adjacent_areas": (F, "same field as the constructor argument"),
            "lanelet_type": (F, "same field as the constructor argument"),
            "line_marking_left_vertices": (F, "same field as the constructor argument"),
            "line_marking_right_vertices": (F, "same field as the constructor argument"),
            "predecessor": (F, "same field as the constructor argument"),
            "successor": (F, "same field as the constructor argument"),
            "stop_line": (F, "same field as the constructor argument"),
            "traffic_lights": (F, "same field as the constructor argument"),
            "traffic_signs": (F, "same field as the constructor argument"),
            "user_bidirectional": (F, "same field as the constructor argument"),
            "user_one_way": (F, "same field as the constructor argument"),
            "distance": (X, "C20 / C11 (cumulative distance)"),
            "dynamic_obstacles_on_lanelet": (X, "C07 (obstacle-lanelet assignment)"),
            "static_obstacles_on_lanelet": (X, "C07"),
        },
        "get": {
            "polygon": (O, "its exported ring = right boundary + reversed left boundary, compared for every lanelet of every final network"),
            "inner_distance": (X, "C20"),
        },
        "method": {
            "contains_points": (O, "every lanelet of every final network x the case's points; a single point (assertion)"),
            "get_obstacles": (O, "obst cases: static / set-based / trajectory obstacles, time steps 0..2, empty candidate list"),
            "convert_to_2d": (V, "lanelet built from 3-D vertices and converted before insertion (pre = z)"),
            "translate_rotate": (V, "exact translation before insertion (pre = move); on a member lanelet: " + C11),
            "convert_to_polygon": (O, "deprecated alias: must return the very object `polygon` returns"),
            "add_adjacent_area_to_lanelet": (X, "C10"), "add_dynamic_obstacle_to_lanelet": (X, "C07"),
            "add_predecessor": (X, "C10"), "add_static_obstacle_to_lanelet": (X, "C07"), "add_successor": (X, "C10"),
            "add_traffic_light_to_lanelet": (X, "C10"), "add_traffic_sign_to_lanelet": (X, "C10"),
            "dynamic_obstacle_by_time_step": (X, "C07"), "find_lanelet_predecessors_in_range": (X, "C20"),
            "find_lanelet_successors_in_range": (X, "C20"), "interpolate_position": (X, "C20"),
            "orientation_by_position": (X, "C20"), "remove_predecessor": (X, "C10"), "remove_successor": (X, "C10"),
            "merge_lanelets": (X, "C20"), "all_lanelets_by_merging_successors_from_lanelet": (X, "C20"),
            "all_lanelets_by_merging_predecessors_from_lanelet": (X, "C20"),
        },
    },
    "LaneletNetwork": {
        "ctor": {"information": (F, "map meta data; no path to a polygon or the index")},
        "set": {"information": (F, "map meta data")},
        "get": {
            "lanelets": (O, "the lanelets of the final network are the reference set of every oracle"),
            "lanelet_polygons": (O, "must be the polygon objects of `lanelets`, in order"),
            "areas": (F, "not indexed"), "intersections": (F, "not indexed"), "traffic_lights": (F, "not indexed"),
            "traffic_signs": (F, "not indexed"), "map_inc_lanelets_to_intersections": (X, "C10"),
        },
        "method": {
            "add_lanelet": (V, "new / known id, rtree True / False; a non-lanelet argument (assertion, probe failed-add)"),
            "remove_lanelet": (V, "known / unknown id, rtree True / False"),
            "add_lanelets_from_network": (V, "0..2 lanelets of another network"),
            "create_from_lanelet_list": (V, "routes list / list-nocleanup (cleanup_ids), XML reader; twin cases: of the lanelets of a live "
                                             "network that stays in use (fork from-list)"),
            "create_from_lanelet_network": (V, "op cut: no shape / exclude_lanelet_types / cleanup_ids; with a shape: observation; twin cases: "
                                                "the source stays in use next to the result (fork cut)"),
            "translate_rotate": (V, "op move: exact translation (angle 0) of the whole network, then queries; rotations: C05 / C11"),
            "find_lanelet_by_position": (O, "10..30 points per case: numpy arrays / python lists / integer arrays; empty list; single point"),
            "find_lanelet_by_shape": (O, "4..10 shapes per case, every kind; the same shape object twice; default / integer arguments"),
            "map_obstacles_to_lanelets": (O, "obst cases"), "filter_obstacles_in_network": (O, "obst cases"),
            "find_lanelet_by_id": (P, "between operations"), "cleanup_lanelet_references": (P, "between operations"),
            "cleanup_traffic_light_references": (P, "between operations"),
            "cleanup_traffic_sign_references": (P, "between operations"),
            "convert_to_2d": (P, "on a planar network: recreates the lanelet polygons, the lookups must not change"),
            "find_most_likely_lanelet_by_state": (X, "uses find_lanelet_by_position plus orientations (C20)"),
            "lanelets_in_proximity": (X, "centre-line distances, not the polygon (C20)"),
            "draw": (X, "C19"),
            "add_area": (F, "touches _areas only"), "add_intersection": (F, "touches _intersections only"),
            "add_traffic_light": (F, "touches _traffic_lights and lanelet references only"),
            "add_traffic_sign": (F, "touches _traffic_signs and lanelet references only"),
            "find_area_by_id": (F, "not indexed"), "find_intersection_by_id": (F, "not indexed"),
            "find_traffic_light_by_id": (F, "not indexed"), "find_traffic_sign_by_id": (F, "not indexed"),
            "get_traffic_lights_referenced_lanelets": (X, "C10"), "get_traffic_sign_referenced_lanelets": (X, "C10"),
            "remove_area": (X, "C10"), "remove_intersection": (X, "C10"), "remove_traffic_light": (X, "C10"),
            "remove_traffic_sign": (X, "C10"),
        },
    },
    "Rectangle": {
        "ctor": {"length": (V, "1/16..40, float / int / numpy scalar"), "width": (V, "1/16..30, float / int / numpy scalar"),
                 "center": (V, "grid points, far away (1e5), default (omitted at the origin)"),
                 "orientation": (V, "0 (exact), pi/2, arbitrary; default (omitted at 0)")},
        "set": {"center": (V, "shape histories: set before / after a first query; as a new array, by augmented assignment (+=), in place + self-assignment, through the constructor's own array"), "length": (V, "shape histories"),
                "width": (V, "shape histories"), "orientation": (V, "shape histories"),
                "vertices": (F, "setter only warns that the vertices are immutable"),
                "_shapely_polygon": (F, "private cache slot")},
        "get": {"shapely_object": (O, "exported geometry vs containment test vs exact set")},
        "method": {"contains_point": (O, "boundary-heavy points"), "draw": (X, "C19"),
                   "rotate_translate_local": (V, "occupancies of obstacles; exact translation as an alternative way to build a shape"),
                   "translate_rotate": (V, "exact translation as an alternative way to build a shape; rotations: C05")},
    },
    "Circle": {
        "ctor": {"radius": (V, "1/16..10, float / int / numpy scalar"), "center": (V, "grid points, far away, default (omitted at the origin)")},
        "set": {"center": (V, "shape histories (new array / += / in place + self-assignment / constructor's array)"), "radius": (V, "shape histories")},
        "get": {"shapely_object": (O, "exported geometry (known finding: radius r/2)")},
        "method": {"contains_point": (O, "boundary-heavy points incl. exact Pythagorean boundary points"), "draw": (X, "C19"),
                   "rotate_translate_local": (V, "as Rectangle"), "translate_rotate": (V, "as Rectangle")},
    },
    "Polygon": {
        "ctor": {"vertices": (V, "3..7 vertices star-shaped, either orientation, open / closed ring, lanelet rings")},
        "set": {"vertices": (V, "shape histories (new array / += / in place + self-assignment / constructor's array)")},
        "get": {"shapely_object": (O, "exported geometry"), "center": (F, "centroid; not part of the property")},
        "method": {"contains_point": (O, "vertices, edge mid points, bounding-box corners"), "draw": (X, "C19"),
                   "rotate_translate_local": (V, "as Rectangle"), "translate_rotate": (V, "as Rectangle")},
    },
    "ShapeGroup": {
        "ctor": {"shapes": (V, "1..3 members of every primitive kind; empty group")},
        "set": {"shapes": (F, "setter only warns that the shapes are immutable")},
        "get": {},
        "method": {"contains_point": (O, "union of the members"), "draw": (X, "C19"),
                   "rotate_translate_local": (V, "occupancies of obstacles"), "translate_rotate": (X, "C05")},
    },
}

# parameters of the operations the generator drives (name -> how varied)
OPERATIONS = {
    "LaneletNetwork.add_lanelet": {"lanelet": "new / known id / not a lanelet", "rtree": "True / False"},
    "LaneletNetwork.remove_lanelet": {"lanelet_id": "known / unknown", "rtree": "True / False"},
    "LaneletNetwork.add_lanelets_from_network": {"lanelet_network": "0..2 lanelets"},
    "LaneletNetwork.create_from_lanelet_list": {"lanelets": "1..7, repeated ids", "cleanup_ids": "True / False"},
    "LaneletNetwork.create_from_lanelet_network": {"lanelet_network": "current network", "shape_input": "None / every shape kind",
                                                   "exclude_lanelet_types": "None / a type some lanelets carry",
                                                   "cleanup_ids": "True / False"},
    "LaneletNetwork.translate_rotate": {"translation": "grid vectors", "angle": "0 (exact); others: C05 / C11"},
    "LaneletNetwork.find_lanelet_by_position": {"point_list": "arrays / lists / integer arrays; empty; one point"},
    "LaneletNetwork.find_lanelet_by_shape": {"shape": "Rectangle / Circle / Polygon / ShapeGroup"},
    "LaneletNetwork.map_obstacles_to_lanelets": {"obstacles": "0..6 obstacles"},
    "LaneletNetwork.filter_obstacles_in_network": {"obstacles": "0..6 obstacles"},
    "Lanelet.get_obstacles": {"obstacles": "0..6 obstacles", "time_step": "0..2"},
    "Lanelet.contains_points": {"point_list": "2..30 points; one point (assertion)"},
    "Lanelet.translate_rotate": {"translation": "grid vectors", "angle": "0 (exact)"},
    "Lanelet.convert_to_2d": {},
    "Scenario.add_objects": {"scenario_object": "one lanelet / a list (a later entry may repeat a used id: ValueError) / a LaneletNetwork",
                             "lanelet_ids": "only for signs and lights (C10)"},
    "Scenario.remove_lanelet": {"lanelet": "one lanelet / a list (a later entry may be missing: KeyError)",
                                "referenced_elements": "True / False"},
    "Scenario.replace_lanelet_network": {"lanelet_network": "a network built from a list"},
    "Scenario.erase_lanelet_network": {},
}


def _api(cls):
    ctor = [p for p in inspect.signature(cls.__init__).parameters if p != "self"]
    props = inspect.getmembers(cls, lambda v: isinstance(v, property))
    sets = [n for n, v in props if v.fset is not None]
    gets = [n for n, v in props if v.fset is None]
    meths = [n for n, v in inspect.getmembers(cls, inspect.isfunction) if not n.startswith("_")]
    meths += [n for n, v in cls.__dict__.items() if isinstance(v, (classmethod, staticmethod)) and not n.startswith("_")]
    return {"ctor": ctor, "set": sets, "get": gets, "method": sorted(set(meths))}


def check():
    """Returns (unknown, stale): names of the real API the table does not know / table entries the code no longer has."""
    from commonroad.geometry.shape import Circle, Polygon, Rectangle, ShapeGroup
    from commonroad.scenario.lanelet import Lanelet, LaneletNetwork
    from commonroad.scenario.scenario import Scenario
    classes = {"Lanelet": Lanelet, "LaneletNetwork": LaneletNetwork, "Rectangle": Rectangle, "Circle": Circle, "Polygon": Polygon,
               "ShapeGroup": ShapeGroup}
    unknown, stale = [], []
    for name, cls in classes.items():
        api = _api(cls)
        for part, names in api.items():
            table = DIMENSIONS[name].get(part, {})
            unknown += [f"{name}.{part}.{n}" for n in names if n not in table]
            stale += [f"{name}.{part}.{n}" for n in table if n not in names]
    classes["Scenario"] = Scenario
    for op, params in OPERATIONS.items():
        cname, mname = op.split(".")
        f = getattr(classes[cname], mname, None)
        if f is None:
            stale.append(op)
            continue
        real = [p for p in inspect.signature(f).parameters if p not in ("self", "cls")]
        unknown += [f"{op}({p})" for p in real if p not in params]
        stale += [f"{op}({p})" for p in params if p not in real]
    # scenario-level entry points that touch the lanelet network
    sc_known = {"erase_lanelet_network", "remove_hanging_lanelet_members", "remove_lanelet", "replace_lanelet_network",
                "assign_obstacles_to_lanelets"}
    for n, _ in inspect.getmembers(Scenario, inspect.isfunction):
        if "lanelet" in n and not n.startswith("_") and n not in sc_known:
            unknown.append(f"Scenario.{n}")
    return unknown, stale


def size():
    return sum(len(part) for cls in DIMENSIONS.values() for part in cls.values()) + sum(max(1, len(p)) for p in OPERATIONS.values())
